(* BytecodeS — the VM of lib/Bytecode.v extended with a HEAP of boxes and the box primitives
   (#%box / #%unbox / #%set-box!: ordinary primitive procedures called through FUNC / TAILCALL; the
   peephole forms NEWBOX / UNBOX / SETBOX of the engine are not modelled separately), and the compiler
   for the converted language [bexpr] of lib/CoreS.v (set! on a global = SET g, vm.rs:4160).
   The instruction set, the compile-time environments and the list helpers are those of lib/Bytecode.v;
   the dispatch loop is the same text with the heap threaded through (correspondence table: header of
   lib/Bytecode.v).  Everything is inside module S so that the names mirror lib/Bytecode.v. *)
From Coq Require Import ZArith List Bool String Lia Arith.
From SV Require Import lib.Lang lib.Core lib.CoreS lib.Bytecode.
Import ListNotations.
Open Scope list_scope.

Module S.

Inductive mval :=
| MInt (z : Z) | MBool (b : bool) | MVoid
| MPrim (p : bprim)
| MClo (arity : nat) (rest : bool) (body : list instr) (caps : list mval)
| MList (l : list mval)                     (* the rest-argument list *)
| MBox (a : nat).                            (* a box: an address of the heap *)

(* StackFrame { sp, function, ip, instructions } (vm.rs StackFrame::new(sp, closure, ip + 1, caller instructions)) *)
Record frame := mkFrame { f_sp : nat; f_fn : mval; f_ret_ip : nat; f_ret_code : list instr }.

Record vmstate := mkVM {
  code : list instr;                 (* self.instructions *)
  ip : nat;
  stack : list mval;                 (* thread.stack, top at the END *)
  frames : list frame;               (* thread.stack_frames, innermost FIRST *)
  globals : list (ident * mval);
  heap : list mval                   (* the contents of the boxes *)
}.

Inductive step_result :=
| SNext (s : vmstate)
| SDone (v : mval) (s : vmstate)     (* the top-level program returned v *)
| SErr (k : errk)                    (* an error value (SteelErr) *)
| SStuck.                            (* the engine would panic / index out of bounds: never an outcome of compiled code *)

(* ------------------------------------------------------------------ stack helpers *)
Fixpoint unsnoc {A} (l : list A) : option (list A * A) :=
  match l with
  | [] => None
  | x :: r => match unsnoc r with
              | None => Some ([], x)
              | Some (r', y) => Some (x :: r', y)
              end
  end.

Fixpoint set_nth {A} (n : nat) (v : A) (l : list A) : list A :=
  match l, n with
  | [], _ => []
  | _ :: r, O => v :: r
  | x :: r, S n' => x :: set_nth n' v r
  end.

Definition cur_sp (fs : list frame) : nat := match fs with f :: _ => f_sp f | [] => 0 end.

Definition mval_atom (v : mval) : atom :=
  match v with MInt z => AInt z | MBool b => ABool b | _ => AOther end.
Definition atom_mval (a : atom) : mval :=
  match a with AInt z => MInt z | ABool b => MBool b | AOther => MVoid end.
Definition mtruthy (v : mval) : bool := atom_truthy (mval_atom v).
Definition const_mval (c : cconst) : mval :=
  match c with KInt z => MInt z | KBool b => MBool b | KVoid => MVoid end.

Definition set_code_ip (s : vmstate) (c : list instr) (i : nat) : vmstate :=
  mkVM c i (stack s) (frames s) (globals s) (heap s).
Definition next_with (s : vmstate) (st : list mval) : step_result :=
  SNext (mkVM (code s) (S (ip s)) st (frames s) (globals s) (heap s)).

(* fetch the capture sources of a closure being built (handle_new_start_closure) *)
Fixpoint fetch_caps (st : list mval) (fs : list frame) (srcs : list capsrc) : option (list mval) :=
  match srcs with
  | [] => Some []
  | src :: r =>
    let ov := match src with
              | FromStack n => nth_error st (cur_sp fs + n)
              | FromClosure n => match fs with
                                 | f :: _ => match f_fn f with MClo _ _ _ caps => nth_error caps n | _ => None end
                                 | [] => None
                                 end
              end in
    match ov, fetch_caps st fs r with
    | Some v, Some vs => Some (v :: vs)
    | _, _ => None
    end
  end.

(* adjust_stack_for_multi_arity (vm.rs:4766): arity check, and collection of the surplus operands of a
   rest-argument closure into a list.  Returns the adjusted stack. *)
Definition adjust_arity (arity : nat) (rest : bool) (n : nat) (st : list mval) : option (list mval) + errk :=
  if rest then
    if Nat.ltb n (arity - 1) then inr EArity
    else let k := 1 + n - arity in
         if Nat.leb (k) (List.length st)
         then inl (Some (firstn (List.length st - k) st ++ [MList (skipn (List.length st - k) st)]))
         else inl None
  else if Nat.eqb arity n then inl (Some st) else inr EArity.

Fixpoint mupdate (n : nat) (v : mval) (l : list mval) : list mval :=
  match l, n with
  | [], _ => []
  | _ :: r, O => v :: r
  | x :: r, S n' => x :: mupdate n' v r
  end.

(* primitives on VM values: the pure ones through atoms, the box primitives on the heap *)
Definition mprim_apply (p : bprim) (vs : list mval) (h : list mval) : (mval * list mval) + errk :=
  match p with
  | BP q => match prim_sem q (map mval_atom vs) with
            | inl a => inl (atom_mval a, h)
            | inr k => inr k
            end
  | BBoxNew => match vs with
               | [v] => inl (MBox (List.length h), h ++ [v])
               | _ => inr EArity
               end
  | BUnbox => match vs with
              | [MBox a] => match nth_error h a with
                            | Some v => inl (v, h)
                            | None => inr EType
                            end
              | [_] => inr EType
              | _ => inr EArity
              end
  | BSetBox => match vs with
               | [MBox a; v] => match nth_error h a with
                                | Some old => inl (old, mupdate a v h)
                                | None => inr EType
                                end
               | [_; _] => inr EType
               | _ => inr EArity
               end
  end.

Section VM.
  Variable limit : nat.                (* STACK_LIMIT (vm.rs:114) *)

  (* return value v from the current frame with the operand stack [st] (v already removed):
     handle_pop_pure / handle_pop_pure_value *)
  Definition do_return (s : vmstate) (st : list mval) (v : mval) : step_result :=
    match frames s with
    | [] => SDone v (mkVM (code s) (S (ip s)) [] [] (globals s) (heap s))
    | f :: fs =>
        if Nat.leb (f_sp f) (List.length st)
        then SNext (mkVM (f_ret_code f) (f_ret_ip f) (firstn (f_sp f) st ++ [v]) fs (globals s) (heap s))
        else SStuck
    end.

  (* call_primitive_func (vm.rs:4960): the operands are the last n values *)
  Definition call_prim (s : vmstate) (st : list mval) (p : bprim) (n : nat) (ret_ip : nat) : step_result :=
    if Nat.leb n (List.length st) then
      let args := skipn (List.length st - n) st in
      match mprim_apply p args (heap s) with
      | inl (v, h) => SNext (mkVM (code s) ret_ip (firstn (List.length st - n) st ++ [v]) (frames s) (globals s) h)
      | inr k => SErr k
      end
    else SStuck.

  (* handle_function_call (vm.rs:5356): [st] is the operand stack without the function value *)
  Definition do_call (s : vmstate) (st : list mval) (f : mval) (n : nat) (ret_ip : nat) : step_result :=
    match f with
    | MClo arity rest body _ =>
        match adjust_arity arity rest n st with
        | inr k => SErr k
        | inl None => SStuck
        | inl (Some st') =>
            if Nat.leb (arity) (List.length st') then
              let fr := mkFrame (List.length st' - arity) f ret_ip (code s) in
              (* check_stack_overflow (vm.rs:5032) runs after the push *)
              if Nat.leb (limit) (S (List.length (frames s))) then SErr EOverflow
              else SNext (mkVM body 0 st' (fr :: frames s) (globals s) (heap s))
            else SStuck
        end
    | MPrim p => call_prim s st p n ret_ip
    | _ => SErr ENotProc
    end.

  (* handle_tail_call (vm.rs:4847) / new_handle_tail_call_closure (vm.rs:4724) *)
  Definition do_tail_call (s : vmstate) (st : list mval) (f : mval) (n : nat) (ret_ip : nat)
             (prim_returns : bool) : step_result :=
    match f with
    | MClo arity rest body _ =>
        match adjust_arity arity rest n st with
        | inr k => SErr k
        | inl None => SStuck
        | inl (Some st') =>
            match frames s with
            | [] => SStuck                       (* stack_frames.last_mut().unwrap() *)
            | f0 :: fs =>
                let back := List.length st' - arity in
                if Nat.leb arity (List.length st') && Nat.leb (f_sp f0) back then
                  (* drain stack[offset .. back]; reuse the frame: last.set_function(closure) *)
                  SNext (mkVM body 0 (firstn (f_sp f0) st' ++ skipn back st')
                              (mkFrame (f_sp f0) f (f_ret_ip f0) (f_ret_code f0) :: fs) (globals s) (heap s))
                else SStuck
            end
        end
    | MPrim p =>
        if prim_returns then
          (* CALLGLOBALTAIL on a FuncV (vm.rs:3515): truncate and handle_pop_pure_value(result) *)
          if Nat.leb (n) (List.length st) then
            match mprim_apply p (skipn (List.length st - n) st) (heap s) with
            | inl (v, h) => do_return (mkVM (code s) (ip s) (stack s) (frames s) (globals s) h)
                                      (firstn (List.length st - n) st) v
            | inr k => SErr k
            end
          else SStuck
        else call_prim s st p n ret_ip
    | _ => SErr ENotProc
    end.

  Definition vm_step (s : vmstate) : step_result :=
    match nth_error (code s) (ip s) with
    | None => SStuck
    | Some i =>
      let sp := cur_sp (frames s) in
      match i with
      | PUSHCONST c => next_with s (stack s ++ [const_mval c])
      | READLOCAL n =>
          match nth_error (stack s) (sp + n) with
          | Some v => next_with s (stack s ++ [v])
          | None => SStuck
          end
      | MOVEREADLOCAL n =>
          match nth_error (stack s) (sp + n) with
          | Some v => next_with s (set_nth (sp + n) MVoid (stack s) ++ [v])
          | None => SStuck
          end
      | READCAPTURED n =>
          match frames s with
          | f :: _ => match f_fn f with
                      | MClo _ _ _ caps => match nth_error caps n with
                                           | Some v => next_with s (stack s ++ [v])
                                           | None => SStuck
                                           end
                      | _ => SStuck
                      end
          | [] => SStuck
          end
      | PUSH g =>
          match Core.lookup g (globals s) with
          | Some v => next_with s (stack s ++ [v])
          | None => SErr EFree
          end
      | IF off =>
          match unsnoc (stack s) with
          | Some (st, v) => if mtruthy v
                            then SNext (mkVM (code s) (S (ip s)) st (frames s) (globals s) (heap s))
                            else SNext (mkVM (code s) (ip s + off) st (frames s) (globals s) (heap s))
          | None => SStuck
          end
      | JMP off => SNext (set_code_ip s (code s) (ip s + off))
      | FUNC n =>
          match unsnoc (stack s) with
          | Some (st, f) => do_call s st f n (S (ip s))
          | None => SStuck
          end
      | TAILCALL n =>
          match unsnoc (stack s) with
          | Some (st, f) => do_tail_call s st f n (S (ip s)) false
          | None => SStuck
          end
      | CALLGLOBAL g =>
          match nth_error (code s) (S (ip s)) with
          | Some (FUNC n) | Some (TAILCALL n) =>
              match Core.lookup g (globals s) with
              | Some f => do_call s (stack s) f n (S (S (ip s)))
              | None => SErr EFree
              end
          | _ => SStuck
          end
      | CALLGLOBALTAIL g =>
          match nth_error (code s) (S (ip s)) with
          | Some (FUNC n) | Some (TAILCALL n) =>
              match Core.lookup g (globals s) with
              | Some f => do_tail_call s (stack s) f n (S (S (ip s))) true
              | None => SErr EFree
              end
          | _ => SStuck
          end
      | MKCLOSURE arity rest srcs body =>
          match fetch_caps (stack s) (frames s) srcs with
          | Some caps => next_with s (stack s ++ [MClo arity rest body caps])
          | None => SStuck
          end
      | BEGINSCOPE => next_with s (stack s)
      | LETENDSCOPE n =>
          match unsnoc (stack s) with
          | Some (st, v) => if Nat.leb (sp + n) (List.length st)
                            then next_with s (firstn (sp + n) st ++ [v])
                            else SStuck
          | None => SStuck
          end
      | POPSINGLE =>
          match unsnoc (stack s) with
          | Some (st, _) => next_with s st
          | None => next_with s []
          end
      | POPPURE =>
          match unsnoc (stack s) with
          | Some (st, v) => do_return s st v
          | None => SStuck
          end
      | SETLOCAL n =>
          match unsnoc (stack s) with
          | Some (st, v) =>
              match nth_error st (sp + n) with
              | Some old => next_with s (set_nth (sp + n) v st ++ [old])
              | None => SStuck
              end
          | None => SStuck
          end
      | BIND g =>
          match unsnoc (stack s) with
          | Some (st, v) => SNext (mkVM (code s) (S (ip s)) st (frames s) ((g, v) :: globals s) (heap s))
          | None => SStuck
          end
      | SET g =>
          match unsnoc (stack s) with
          | Some (st, v) =>
              match Core.lookup g (globals s) with
              | Some old => SNext (mkVM (code s) (S (ip s)) (st ++ [old]) (frames s) ((g, v) :: globals s) (heap s))
              | None => SErr EFree
              end
          | None => SStuck
          end
      end
    end.

  Inductive run_result :=
  | RDone (v : mval) (s : vmstate)
  | RErr (k : errk)
  | RStuck
  | RFuel.

  Fixpoint vm_run (fuel : nat) (s : vmstate) : run_result :=
    match fuel with
    | O => RFuel
    | S f => match vm_step s with
             | SNext s' => vm_run f s'
             | SDone v s' => RDone v s'
             | SErr k => RErr k
             | SStuck => RStuck
             end
    end.

  (* reflexive-transitive closure of [vm_step = SNext] *)
  Inductive star : vmstate -> vmstate -> Prop :=
  | star_refl : forall s, star s s
  | star_step : forall s s' s'', vm_step s = SNext s' -> star s' s'' -> star s s''.

  Lemma star_trans : forall a b c, star a b -> star b c -> star a c.
  Proof. induction 1; intros; auto. econstructor; eauto. Qed.

  Lemma star_one : forall s s', vm_step s = SNext s' -> star s s'.
  Proof. intros. econstructor; eauto. constructor. Qed.
End VM.


(* ------------------------------------------------------------------ the compiler (for bexpr) *)
Fixpoint bfv (x : ident) (e : bexpr) : bool :=
  match e with
  | BConst _ => false
  | BVar y => String.eqb x y
  | BLam ps rest body => negb (memb x (params ps rest)) && bfv x body
  | BApp f args => (fix go (es : list bexpr) : bool :=
                      match es with [] => false | a :: r => bfv x a || go r end) args || bfv x f
  | BIf c t e' => bfv x c || bfv x t || bfv x e'
  | BLet bs body => (fix go (bs : list (ident * bexpr)) : bool :=
                       match bs with [] => false | (_, a) :: r => bfv x a || go r end) bs
                    || (negb (memb x (map fst bs)) && bfv x body)
  | BSeq e1 e2 => bfv x e1 || bfv x e2
  | BSetG g e' => String.eqb x g || bfv x e'
  end.

Fixpoint bfv_list (x : ident) (es : list bexpr) : bool :=
  match es with [] => false | a :: r => bfv x a || bfv_list x r end.

Definition bcaptured (ce : cenv) (ps : list ident) (body : bexpr) : list ident :=
  filter (fun x => bfv x body && negb (memb x ps)) (rev (map fst ce)).

Section Compile.
  Variable tco : bool.

  Fixpoint compile (ce : cenv) (d : nat) (tail : bool) (e : bexpr) {struct e} : list instr :=
    match e with
    | BConst c => [PUSHCONST c]
    | BVar x => [match Core.lookup x ce with
                 | Some (Slot i) => READLOCAL i
                 | Some (Cap j) => READCAPTURED j
                 | None => PUSH x
                 end]
    | BLam ps rest body =>
        let xs := params ps rest in
        let fs := bcaptured ce xs body in
        [MKCLOSURE (List.length xs) (match rest with Some _ => true | None => false end)
                   (map (capsrc_of ce) fs)
                   (compile (body_cenv xs fs) (List.length xs) tco body ++ [POPPURE])]
    | BApp f args =>
        (fix go (d : nat) (es : list bexpr) : list instr :=
           match es with [] => [] | a :: r => compile ce d false a ++ go (S d) r end) d args
        ++ compile ce (d + List.length args) false f
        ++ [if tail then TAILCALL (List.length args) else FUNC (List.length args)]
    | BIf c t e' =>
        let ct := compile ce d tail t in
        let ce' := compile ce d tail e' in
        compile ce d false c ++ [IF (List.length ct + 2)] ++ ct ++ [JMP (List.length ce' + 1)] ++ ce'
    | BLet bs body =>
        BEGINSCOPE ::
        (fix go (d : nat) (bs : list (ident * bexpr)) : list instr :=
           match bs with [] => [] | (_, a) :: r => compile ce d false a ++ go (S d) r end) d bs
        ++ compile (bind_slots (map fst bs) d ce) (d + List.length bs) tail body
        ++ [LETENDSCOPE d]
    | BSeq e1 e2 => compile ce d false e1 ++ [POPSINGLE] ++ compile ce d tail e2
    | BSetG g e' => compile ce d false e' ++ [SET g]      (* code_gen.rs visit_set: Global => SET *)
    end.

  Fixpoint compile_list (ce : cenv) (d : nat) (es : list bexpr) : list instr :=
    match es with
    | [] => []
    | a :: r => compile ce d false a ++ compile_list ce (S d) r
    end.

  Definition compile_top (e : bexpr) : list instr := compile [] 0 false e ++ [POPPURE].
  Definition compile_define (x : ident) (e : bexpr) : list instr :=
    compile [] 0 false e ++ [BIND x; PUSHCONST KVoid; POPPURE].
End Compile.

(* ------------------------------------------------------------------ running programs *)
Definition prim_globals : list (ident * mval) := map (fun p => (fst p, MPrim (snd p))) bprim_table.

Definition init_vm (c : list instr) (g : list (ident * mval)) (h : list mval) : vmstate := mkVM c 0 [] [] g h.

Section RunProgram.
  Variable limit : nat.
  Variable tco : bool.
  Variable opt : bool.

  Definition finish (c : list instr) : list instr := if opt then peephole c else c.

  Fixpoint vm_defs (fuel : nat) (g : list (ident * mval)) (h : list mval) (ds : list (ident * bexpr))
    : run_result + (list (ident * mval) * list mval) :=
    match ds with
    | [] => inr (g, h)
    | (x, e) :: r =>
      match vm_run limit fuel (init_vm (finish (compile_define tco x e)) g h) with
      | RDone _ s => vm_defs fuel (globals s) (heap s) r
      | other => inl other
      end
    end.

  Definition vm_program (fuel : nat) (ds : list (ident * bexpr)) (main : bexpr) : run_result :=
    match vm_defs fuel prim_globals [] ds with
    | inl r => r
    | inr (g, h) => vm_run limit fuel (init_vm (finish (compile_top tco main)) g h)
    end.
End RunProgram.

Open Scope string_scope.
Fixpoint canon_mval (v : mval) : string :=
  match v with
  | MVoid => "#<void>"
  | MList l => "(" ++ Lang.join " " (map canon_mval l) ++ ")"
  | MPrim _ | MClo _ _ _ _ => "#<procedure>"
  | MBox _ => "#<box>"
  | _ => canon_atom (mval_atom v) "?"
  end.

Definition render_run (r : run_result) : string :=
  match r with
  | RDone v _ => "OK " ++ canon_mval v
  | RErr k => "ERR " ++ errk_name k
  | RStuck => "STUCK"
  | RFuel => "FUEL"
  end.

(* one Lang.v evaluation unit through the three evaluators of the assignment layer *)
Definition conv_defs (ds : list (ident * sexpr)) : list (ident * bexpr) :=
  map (fun d => (fst d, assign_convert (snd d))) ds.

Definition unit_render_ref (fuel : nat) (forms : list Lang.expr) : string :=
  match ssplit_unit forms with
  | Some (ds, ms) => render_sresult (srun_program fuel ds (sseq_of ms))
  | None => "UNSUPPORTED"
  end.

Definition unit_render_conv (fuel : nat) (forms : list Lang.expr) : string :=
  match ssplit_unit forms with
  | Some (ds, ms) => render_bresult (brun_program fuel (conv_defs ds) (assign_convert (sseq_of ms)))
  | None => "UNSUPPORTED"
  end.

Definition unit_render_vm (limit : nat) (tco opt : bool) (fuel : nat) (forms : list Lang.expr) : string :=
  match ssplit_unit forms with
  | Some (ds, ms) => render_run (vm_program limit tco opt fuel (conv_defs ds) (assign_convert (sseq_of ms)))
  | None => "UNSUPPORTED"
  end.
Close Scope string_scope.

End S.
