(* Bytecode — the subset of Steel's instruction set the core language compiles to, a compiler that
   mirrors compiler/code_gen.rs + the slot / capture / tail-position assignment of
   compiler/passes/analysis.rs for this fragment, and a VM [vm_step] that mirrors the dispatch loop
   `VmCore::vm` of steel_vm/vm.rs (value stack, frame stack of {sp, return ip, function}, ip).

   Correspondence with the engine, instruction by instruction (file:line of the pinned tree):
     PUSHCONST            vm.rs:3228  push constant                        (also VOID vm.rs:3216, LOADINT*, TRUE/FALSE)
     READLOCAL n          vm.rs:4254  handle_local: push stack[sp+n].clone()
     MOVEREADLOCAL n      vm.rs:4274  handle_move_local: replace stack[sp+n] by Void, push the old value
     READCAPTURED n       vm.rs:4266  stack_frames.last().unwrap().function.captures()[n]
     PUSH g               vm.rs:4230  handle_push: global lookup, "free identifier" error when unbound
     IF off / JMP off     vm.rs:3628 / 3763   (the engine stores the ABSOLUTE target index inside the closure
                          body; the model stores the offset relative to the instruction: target = ip + off)
     FUNC n               vm.rs:3609 + handle_function_call 5356 (+ handle_function_call_closure 5063,
                          call_primitive_func 4960)
     TAILCALL n           vm.rs:3620 + handle_tail_call 4847 + new_handle_tail_call_closure 4724
     CALLGLOBAL g ; FUNC n / CALLGLOBALTAIL g ; TAILCALL n
                          vm.rs:3442 / 3493 — the peephole form of PUSH g ; FUNC n (program.rs convert_call_globals):
                          the arity is read from the FOLLOWING instruction, execution continues after it
     MKCLOSURE            SCLOSURE/PUREFUNC/NEWSCLOSURE ... NDEFS, COPYCAPTURESTACK n / COPYCAPTURECLOSURE n ...
                          body ... POPPURE, ECLOSURE arity: vm.rs:4287 handle_pure_function, 4470 handle_new_start_closure,
                          as ONE structured instruction (arity, rest flag, capture sources, body)
     BEGINSCOPE           vm.rs:3782 no-op        LETENDSCOPE n  vm.rs:7317 drain stack[sp+n .. len-1]
     POPSINGLE            vm.rs:2730 stack.pop() (no failure on an empty stack)
     POPPURE              vm.rs:4070 handle_pop_pure  (POPJMP vm.rs:3772 = a JMP to the final POPPURE, not modelled separately)
     SETLOCAL n           vm.rs:4688   BIND g  vm.rs:4667   SET g  vm.rs:4160
   [pop_count] of the engine is (number of frames + 1) during the execution of a top-level program,
   which is the only entry point modelled: POPPURE with an empty frame stack ends the run.
   [self.sp] of the engine is a cache of stack_frames.last().sp (0 without a frame); the model derives it. *)
From Coq Require Import ZArith List Bool String Lia Arith.
From SV Require Import lib.Lang lib.Core.
Import ListNotations.
Open Scope list_scope.

Inductive capsrc := FromStack (n : nat) | FromClosure (n : nat).

Inductive instr :=
| PUSHCONST (c : cconst)
| READLOCAL (n : nat)
| MOVEREADLOCAL (n : nat)
| READCAPTURED (n : nat)
| PUSH (g : ident)
| IF (off : nat)
| JMP (off : nat)
| FUNC (n : nat)
| TAILCALL (n : nat)
| CALLGLOBAL (g : ident)
| CALLGLOBALTAIL (g : ident)
| MKCLOSURE (arity : nat) (rest : bool) (caps : list capsrc) (body : list instr)
| BEGINSCOPE
| LETENDSCOPE (n : nat)
| POPSINGLE
| POPPURE
| SETLOCAL (n : nat)
| BIND (g : ident)
| SET (g : ident).

Inductive mval :=
| MInt (z : Z) | MBool (b : bool) | MVoid
| MPrim (p : cprim)
| MClo (arity : nat) (rest : bool) (body : list instr) (caps : list mval)
| MList (l : list mval).                    (* the rest-argument list *)

(* StackFrame { sp, function, ip, instructions } (vm.rs StackFrame::new(sp, closure, ip + 1, caller instructions)) *)
Record frame := mkFrame { f_sp : nat; f_fn : mval; f_ret_ip : nat; f_ret_code : list instr }.

Record vmstate := mkVM {
  code : list instr;                 (* self.instructions *)
  ip : nat;
  stack : list mval;                 (* thread.stack, top at the END *)
  frames : list frame;               (* thread.stack_frames, innermost FIRST *)
  globals : list (ident * mval)
}.

Inductive step_result :=
| SNext (s : vmstate)
| SDone (v : mval) (s : vmstate)     (* the top-level program returned v *)
| SErr (k : errk)                    (* an error value (SteelErr) *)
| SStuck.                            (* the engine would panic / index out of bounds: never an outcome of compiled code *)

(* ------------------------------------------------------------------ stack helpers *)
Fixpoint unsnoc {A} (l : list A) : option (list A * A) :=
  match l with
  | [] => None
  | x :: r => match unsnoc r with
              | None => Some ([], x)
              | Some (r', y) => Some (x :: r', y)
              end
  end.

Fixpoint set_nth {A} (n : nat) (v : A) (l : list A) : list A :=
  match l, n with
  | [], _ => []
  | _ :: r, O => v :: r
  | x :: r, S n' => x :: set_nth n' v r
  end.

Definition cur_sp (fs : list frame) : nat := match fs with f :: _ => f_sp f | [] => 0 end.

Definition mval_atom (v : mval) : atom :=
  match v with MInt z => AInt z | MBool b => ABool b | _ => AOther end.
Definition atom_mval (a : atom) : mval :=
  match a with AInt z => MInt z | ABool b => MBool b | AOther => MVoid end.
Definition mtruthy (v : mval) : bool := atom_truthy (mval_atom v).
Definition const_mval (c : cconst) : mval :=
  match c with KInt z => MInt z | KBool b => MBool b | KVoid => MVoid end.

Definition set_code_ip (s : vmstate) (c : list instr) (i : nat) : vmstate :=
  mkVM c i (stack s) (frames s) (globals s).
Definition next_with (s : vmstate) (st : list mval) : step_result :=
  SNext (mkVM (code s) (S (ip s)) st (frames s) (globals s)).

(* fetch the capture sources of a closure being built (handle_new_start_closure) *)
Fixpoint fetch_caps (st : list mval) (fs : list frame) (srcs : list capsrc) : option (list mval) :=
  match srcs with
  | [] => Some []
  | src :: r =>
    let ov := match src with
              | FromStack n => nth_error st (cur_sp fs + n)
              | FromClosure n => match fs with
                                 | f :: _ => match f_fn f with MClo _ _ _ caps => nth_error caps n | _ => None end
                                 | [] => None
                                 end
              end in
    match ov, fetch_caps st fs r with
    | Some v, Some vs => Some (v :: vs)
    | _, _ => None
    end
  end.

(* adjust_stack_for_multi_arity (vm.rs:4766): arity check, and collection of the surplus operands of a
   rest-argument closure into a list.  Returns the adjusted stack. *)
Definition adjust_arity (arity : nat) (rest : bool) (n : nat) (st : list mval) : option (list mval) + errk :=
  if rest then
    if Nat.ltb n (arity - 1) then inr EArity
    else let k := 1 + n - arity in
         if Nat.leb (k) (List.length st)
         then inl (Some (firstn (List.length st - k) st ++ [MList (skipn (List.length st - k) st)]))
         else inl None
  else if Nat.eqb arity n then inl (Some st) else inr EArity.

Section VM.
  Variable limit : nat.                (* STACK_LIMIT (vm.rs:114) *)

  (* return value v from the current frame with the operand stack [st] (v already removed):
     handle_pop_pure / handle_pop_pure_value *)
  Definition do_return (s : vmstate) (st : list mval) (v : mval) : step_result :=
    match frames s with
    | [] => SDone v (mkVM (code s) (S (ip s)) [] [] (globals s))
    | f :: fs =>
        if Nat.leb (f_sp f) (List.length st)
        then SNext (mkVM (f_ret_code f) (f_ret_ip f) (firstn (f_sp f) st ++ [v]) fs (globals s))
        else SStuck
    end.

  (* call_primitive_func (vm.rs:4960): the operands are the last n values *)
  Definition call_prim (s : vmstate) (st : list mval) (p : cprim) (n : nat) (ret_ip : nat) : step_result :=
    if Nat.leb (n) (List.length st) then
      let args := skipn (List.length st - n) st in
      match prim_sem p (map mval_atom args) with
      | inl a => SNext (mkVM (code s) ret_ip (firstn (List.length st - n) st ++ [atom_mval a]) (frames s) (globals s))
      | inr k => SErr k
      end
    else SStuck.

  (* handle_function_call (vm.rs:5356): [st] is the operand stack without the function value *)
  Definition do_call (s : vmstate) (st : list mval) (f : mval) (n : nat) (ret_ip : nat) : step_result :=
    match f with
    | MClo arity rest body _ =>
        match adjust_arity arity rest n st with
        | inr k => SErr k
        | inl None => SStuck
        | inl (Some st') =>
            if Nat.leb (arity) (List.length st') then
              let fr := mkFrame (List.length st' - arity) f ret_ip (code s) in
              (* check_stack_overflow (vm.rs:5032) runs after the push *)
              if Nat.leb (limit) (S (List.length (frames s))) then SErr EOverflow
              else SNext (mkVM body 0 st' (fr :: frames s) (globals s))
            else SStuck
        end
    | MPrim p => call_prim s st p n ret_ip
    | _ => SErr ENotProc
    end.

  (* handle_tail_call (vm.rs:4847) / new_handle_tail_call_closure (vm.rs:4724) *)
  Definition do_tail_call (s : vmstate) (st : list mval) (f : mval) (n : nat) (ret_ip : nat)
             (prim_returns : bool) : step_result :=
    match f with
    | MClo arity rest body _ =>
        match adjust_arity arity rest n st with
        | inr k => SErr k
        | inl None => SStuck
        | inl (Some st') =>
            match frames s with
            | [] => SStuck                       (* stack_frames.last_mut().unwrap() *)
            | f0 :: fs =>
                let back := List.length st' - arity in
                if Nat.leb arity (List.length st') && Nat.leb (f_sp f0) back then
                  (* drain stack[offset .. back]; reuse the frame: last.set_function(closure) *)
                  SNext (mkVM body 0 (firstn (f_sp f0) st' ++ skipn back st')
                              (mkFrame (f_sp f0) f (f_ret_ip f0) (f_ret_code f0) :: fs) (globals s))
                else SStuck
            end
        end
    | MPrim p =>
        if prim_returns then
          (* CALLGLOBALTAIL on a FuncV (vm.rs:3515): truncate and handle_pop_pure_value(result) *)
          if Nat.leb (n) (List.length st) then
            match prim_sem p (map mval_atom (skipn (List.length st - n) st)) with
            | inl a => do_return s (firstn (List.length st - n) st) (atom_mval a)
            | inr k => SErr k
            end
          else SStuck
        else call_prim s st p n ret_ip
    | _ => SErr ENotProc
    end.

  Definition vm_step (s : vmstate) : step_result :=
    match nth_error (code s) (ip s) with
    | None => SStuck
    | Some i =>
      let sp := cur_sp (frames s) in
      match i with
      | PUSHCONST c => next_with s (stack s ++ [const_mval c])
      | READLOCAL n =>
          match nth_error (stack s) (sp + n) with
          | Some v => next_with s (stack s ++ [v])
          | None => SStuck
          end
      | MOVEREADLOCAL n =>
          match nth_error (stack s) (sp + n) with
          | Some v => next_with s (set_nth (sp + n) MVoid (stack s) ++ [v])
          | None => SStuck
          end
      | READCAPTURED n =>
          match frames s with
          | f :: _ => match f_fn f with
                      | MClo _ _ _ caps => match nth_error caps n with
                                           | Some v => next_with s (stack s ++ [v])
                                           | None => SStuck
                                           end
                      | _ => SStuck
                      end
          | [] => SStuck
          end
      | PUSH g =>
          match Core.lookup g (globals s) with
          | Some v => next_with s (stack s ++ [v])
          | None => SErr EFree
          end
      | IF off =>
          match unsnoc (stack s) with
          | Some (st, v) => if mtruthy v
                            then SNext (mkVM (code s) (S (ip s)) st (frames s) (globals s))
                            else SNext (mkVM (code s) (ip s + off) st (frames s) (globals s))
          | None => SStuck
          end
      | JMP off => SNext (set_code_ip s (code s) (ip s + off))
      | FUNC n =>
          match unsnoc (stack s) with
          | Some (st, f) => do_call s st f n (S (ip s))
          | None => SStuck
          end
      | TAILCALL n =>
          match unsnoc (stack s) with
          | Some (st, f) => do_tail_call s st f n (S (ip s)) false
          | None => SStuck
          end
      | CALLGLOBAL g =>
          match nth_error (code s) (S (ip s)) with
          | Some (FUNC n) | Some (TAILCALL n) =>
              match Core.lookup g (globals s) with
              | Some f => do_call s (stack s) f n (S (S (ip s)))
              | None => SErr EFree
              end
          | _ => SStuck
          end
      | CALLGLOBALTAIL g =>
          match nth_error (code s) (S (ip s)) with
          | Some (FUNC n) | Some (TAILCALL n) =>
              match Core.lookup g (globals s) with
              | Some f => do_tail_call s (stack s) f n (S (S (ip s))) true
              | None => SErr EFree
              end
          | _ => SStuck
          end
      | MKCLOSURE arity rest srcs body =>
          match fetch_caps (stack s) (frames s) srcs with
          | Some caps => next_with s (stack s ++ [MClo arity rest body caps])
          | None => SStuck
          end
      | BEGINSCOPE => next_with s (stack s)
      | LETENDSCOPE n =>
          match unsnoc (stack s) with
          | Some (st, v) => if Nat.leb (sp + n) (List.length st)
                            then next_with s (firstn (sp + n) st ++ [v])
                            else SStuck
          | None => SStuck
          end
      | POPSINGLE =>
          match unsnoc (stack s) with
          | Some (st, _) => next_with s st
          | None => next_with s []
          end
      | POPPURE =>
          match unsnoc (stack s) with
          | Some (st, v) => do_return s st v
          | None => SStuck
          end
      | SETLOCAL n =>
          match unsnoc (stack s) with
          | Some (st, v) =>
              match nth_error st (sp + n) with
              | Some old => next_with s (set_nth (sp + n) v st ++ [old])
              | None => SStuck
              end
          | None => SStuck
          end
      | BIND g =>
          match unsnoc (stack s) with
          | Some (st, v) => SNext (mkVM (code s) (S (ip s)) st (frames s) ((g, v) :: globals s))
          | None => SStuck
          end
      | SET g =>
          match unsnoc (stack s) with
          | Some (st, v) =>
              match Core.lookup g (globals s) with
              | Some old => SNext (mkVM (code s) (S (ip s)) (st ++ [old]) (frames s) ((g, v) :: globals s))
              | None => SErr EFree
              end
          | None => SStuck
          end
      end
    end.

  Inductive run_result :=
  | RDone (v : mval) (s : vmstate)
  | RErr (k : errk)
  | RStuck
  | RFuel.

  Fixpoint vm_run (fuel : nat) (s : vmstate) : run_result :=
    match fuel with
    | O => RFuel
    | S f => match vm_step s with
             | SNext s' => vm_run f s'
             | SDone v s' => RDone v s'
             | SErr k => RErr k
             | SStuck => RStuck
             end
    end.

  (* reflexive-transitive closure of [vm_step = SNext] *)
  Inductive star : vmstate -> vmstate -> Prop :=
  | star_refl : forall s, star s s
  | star_step : forall s s' s'', vm_step s = SNext s' -> star s' s'' -> star s s''.

  Lemma star_trans : forall a b c, star a b -> star b c -> star a c.
  Proof. induction 1; intros; auto. econstructor; eauto. Qed.

  Lemma star_one : forall s s', vm_step s = SNext s' -> star s s'.
  Proof. intros. econstructor; eauto. constructor. Qed.
End VM.

(* ------------------------------------------------------------------ the compiler *)
Inductive loc := Slot (n : nat) | Cap (n : nat).
Definition cenv := list (ident * loc).

Fixpoint memb (x : ident) (l : list ident) : bool :=
  match l with [] => false | y :: r => String.eqb x y || memb x r end.

(* x occurs free in e *)
Fixpoint fv (x : ident) (e : expr) : bool :=
  match e with
  | EConst _ => false
  | EVar y => String.eqb x y
  | ELam ps rest body => negb (memb x (params ps rest)) && fv x body
  | EApp f args => (fix go (es : list expr) : bool :=
                      match es with [] => false | a :: r => fv x a || go r end) args || fv x f
  | EIf c t e' => fv x c || fv x t || fv x e'
  | ELet bs body => (fix go (bs : list (ident * expr)) : bool :=
                       match bs with [] => false | (_, a) :: r => fv x a || go r end) bs
                    || (negb (memb x (map fst bs)) && fv x body)
  | ESeq e1 e2 => fv x e1 || fv x e2
  end.

Fixpoint fv_list (x : ident) (es : list expr) : bool :=
  match es with [] => false | a :: r => fv x a || fv_list x r end.

(* slots of consecutive binders starting at depth d (analysis.rs visit_let / visit_lambda_function:
   stack_offset of the i-th binder = offset at entry + i) *)
Fixpoint bind_slots (xs : list ident) (d : nat) (ce : cenv) : cenv :=
  match xs with
  | [] => ce
  | x :: r => bind_slots r (S d) ((x, Slot d) :: ce)
  end.

Definition caps_cenv (fvs : list ident) : cenv := combine fvs (map Cap (seq 0 (List.length fvs))).

Definition body_cenv (ps fvs : list ident) : cenv := bind_slots ps 0 (caps_cenv fvs).

(* the variables a lambda captures: the visible locals that occur free in it, outermost binder first
   (code_gen.rs:484 vars.sort_by_key(id): binder creation order) *)
Definition captured (ce : cenv) (ps : list ident) (body : expr) : list ident :=
  filter (fun x => fv x body && negb (memb x ps)) (rev (map fst ce)).

Definition capsrc_of (ce : cenv) (x : ident) : capsrc :=
  match Core.lookup x ce with
  | Some (Slot i) => FromStack i          (* COPYCAPTURESTACK i *)
  | Some (Cap j) => FromClosure j         (* COPYCAPTURECLOSURE j *)
  | None => FromStack 0
  end.

Section Compile.
  Variable tco : bool.        (* tail calls compiled to TAILCALL (the engine: always) *)

  (* [d] = number of stack slots of the current frame above sp when the code starts (analysis.rs
     stack_offset: bumped by one for every operand already pushed and every let binding);
     [tail] = the expression is in tail position of a lambda body (visit_with_tail_call_eligibility) *)
  Fixpoint compile (ce : cenv) (d : nat) (tail : bool) (e : expr) {struct e} : list instr :=
    match e with
    | EConst c => [PUSHCONST c]
    | EVar x => [match Core.lookup x ce with
                 | Some (Slot i) => READLOCAL i
                 | Some (Cap j) => READCAPTURED j
                 | None => PUSH x
                 end]
    | ELam ps rest body =>
        (* a rest parameter is one more slot: arity = |ps| + 1, PASS 1 (code_gen.rs:452) *)
        let xs := params ps rest in
        let fs := captured ce xs body in
        [MKCLOSURE (List.length xs) (match rest with Some _ => true | None => false end)
                   (map (capsrc_of ce) fs)
                   (compile (body_cenv xs fs) (List.length xs) tco body ++ [POPPURE])]
    | EApp f args =>
        (fix go (d : nat) (es : list expr) : list instr :=
           match es with [] => [] | a :: r => compile ce d false a ++ go (S d) r end) d args
        ++ compile ce (d + List.length args) false f
        ++ [if tail then TAILCALL (List.length args) else FUNC (List.length args)]
    | EIf c t e' =>
        let ct := compile ce d tail t in
        let ce' := compile ce d tail e' in
        compile ce d false c ++ [IF (List.length ct + 2)] ++ ct ++ [JMP (List.length ce' + 1)] ++ ce'
    | ELet bs body =>
        BEGINSCOPE ::
        (fix go (d : nat) (bs : list (ident * expr)) : list instr :=
           match bs with [] => [] | (_, a) :: r => compile ce d false a ++ go (S d) r end) d bs
        ++ compile (bind_slots (map fst bs) d ce) (d + List.length bs) tail body
        ++ [LETENDSCOPE d]
    | ESeq e1 e2 => compile ce d false e1 ++ [POPSINGLE] ++ compile ce d tail e2
    end.

  Fixpoint compile_list (ce : cenv) (d : nat) (es : list expr) : list instr :=
    match es with
    | [] => []
    | a :: r => compile ce d false a ++ compile_list ce (S d) r
    end.

  (* a top-level expression form / a top-level definition (code_gen.rs visit_define: body, BIND, VOID) *)
  Definition compile_top (e : expr) : list instr := compile [] 0 false e ++ [POPPURE].
  Definition compile_define (x : ident) (e : expr) : list instr :=
    compile [] 0 false e ++ [BIND x; PUSHCONST KVoid; POPPURE].
End Compile.

(* the peephole rewrite PUSH g ; FUNC n  =>  CALLGLOBAL g ; FUNC n   and
                        PUSH g ; TAILCALL n  =>  CALLGLOBALTAIL g ; TAILCALL n
   (program.rs convert_call_globals), applied inside closure bodies as well *)
Definition peep_list (pi : instr -> instr) : list instr -> list instr :=
  fix go (c : list instr) : list instr :=
  match c with
  | [] => []
  | i :: r =>
    (match i, r with
     | PUSH g, FUNC _ :: _ => CALLGLOBAL g
     | PUSH g, TAILCALL _ :: _ => CALLGLOBALTAIL g
     | _, _ => pi i
     end) :: go r
  end.

Fixpoint peep_instr (i : instr) : instr :=
  match i with
  | MKCLOSURE a rs srcs body => MKCLOSURE a rs srcs (peep_list peep_instr body)
  | _ => i
  end.

Definition peephole (c : list instr) : list instr := peep_list peep_instr c.

(* ------------------------------------------------------------------ running programs *)
Definition prim_globals : list (ident * mval) := map (fun p => (fst p, MPrim (snd p))) prim_table.

Definition init_vm (c : list instr) (g : list (ident * mval)) : vmstate := mkVM c 0 [] [] g.

Section RunProgram.
  Variable limit : nat.
  Variable tco : bool.
  Variable opt : bool.      (* apply the CALLGLOBAL peephole *)

  Definition finish (c : list instr) : list instr := if opt then peephole c else c.

  Fixpoint vm_defs (fuel : nat) (g : list (ident * mval)) (ds : list (ident * expr))
    : run_result + list (ident * mval) :=
    match ds with
    | [] => inr g
    | (x, e) :: r =>
      match vm_run limit fuel (init_vm (finish (compile_define tco x e)) g) with
      | RDone _ s => vm_defs fuel (globals s) r
      | other => inl other
      end
    end.

  Definition vm_program (fuel : nat) (ds : list (ident * expr)) (main : expr) : run_result :=
    match vm_defs fuel prim_globals ds with
    | inl r => r
    | inr g => vm_run limit fuel (init_vm (finish (compile_top tco main)) g)
    end.
End RunProgram.

Open Scope string_scope.
Fixpoint canon_mval (v : mval) : string :=
  match v with
  | MVoid => "#<void>"
  | MList l => "(" ++ Lang.join " " (map canon_mval l) ++ ")"
  | MPrim _ | MClo _ _ _ _ => "#<procedure>"
  | _ => canon_atom (mval_atom v) "?"
  end.

Definition render_run (r : run_result) : string :=
  match r with
  | RDone v _ => "OK " ++ canon_mval v
  | RErr k => "ERR " ++ errk_name k
  | RStuck => "STUCK"
  | RFuel => "FUEL"
  end.

(* ------------------------------------------------------------------ one Lang.v evaluation unit through both sides
   (the value of the unit = the value of its last expression form; "UNSUPPORTED" outside the fragment) *)
Definition unit_render_core (fuel : nat) (forms : list Lang.expr) : string :=
  match split_unit forms with
  | Some (ds, ms) => render_result (run_program fuel ds (seq_of ms))
  | None => "UNSUPPORTED"
  end.

Definition unit_render_vm (limit : nat) (tco opt : bool) (fuel : nat) (forms : list Lang.expr) : string :=
  match split_unit forms with
  | Some (ds, ms) => render_run (vm_program limit tco opt fuel ds (seq_of ms))
  | None => "UNSUPPORTED"
  end.
