(* CoreL — the converted language of lib/CoreS.v refined with IN-PLACE assignment of locals
   (the SETLOCAL path of the engine): [LSetL x e] overwrites the binding of the local x in the current
   environment and returns the old value.  The environment is therefore threaded through evaluation
   ([leval] returns the updated environment); closures still COPY the environment when they are created
   (flat closures), which is the meaning the engine gives to a local that is assigned but never captured:
   [assign_convertL] leaves exactly those locals unboxed and boxes the assigned locals that occur free in
   a lambda of their scope.  Box primitives and globals as in lib/CoreS.v. *)
From Coq Require Import ZArith List Bool String Lia.
From SV Require Import lib.Lang lib.Core lib.CoreS.
Import ListNotations.
Open Scope list_scope.

Inductive lexpr :=
| LConst (c : cconst)
| LVar (x : ident)
| LLam (ps : list ident) (rest : option ident) (body : lexpr)
| LApp (f : lexpr) (args : list lexpr)
| LIf (c t e : lexpr)
| LLet (bs : list (ident * lexpr)) (body : lexpr)
| LSeq (e1 e2 : lexpr)
| LSetG (g : ident) (e : lexpr)                        (* set! on a global: SET *)
| LSetL (x : ident) (e : lexpr).                       (* set! on an un-captured local: SETLOCAL *)

Inductive lval :=
| LVInt (z : Z) | LVBool (b : bool) | LVVoid
| LVPrim (p : bprim)
| LVClo (ps : list ident) (rest : option ident) (body : lexpr) (env : list (ident * lval))
| LVList (l : list lval)
| LVBox (a : nat).

Definition lenv := list (ident * lval).
Record lstate := mkL { l_store : list lval; l_glob : list (ident * lval) }.
Inductive lresult := LVal (v : lval) (r : lenv) (st : lstate) | LErr (k : errk).
Inductive lpres := PVal (v : lval) (st : lstate) | PErr (k : errk).

Definition lval_atom (v : lval) : atom :=
  match v with LVInt z => AInt z | LVBool b => ABool b | _ => AOther end.
Definition atom_lval (a : atom) : lval :=
  match a with AInt z => LVInt z | ABool b => LVBool b | AOther => LVVoid end.
Definition lconst (c : cconst) : lval :=
  match c with KInt z => LVInt z | KBool b => LVBool b | KVoid => LVVoid end.

Fixpoint lupdate (n : nat) (v : lval) (l : list lval) : list lval :=
  match l, n with
  | [], _ => []
  | _ :: r, O => v :: r
  | x :: r, S n' => x :: lupdate n' v r
  end.

(* overwrite the innermost binding of x *)
Fixpoint env_set (x : ident) (v : lval) (r : lenv) : lenv :=
  match r with
  | [] => []
  | (y, w) :: r' => if String.eqb x y then (y, v) :: r' else (y, w) :: env_set x v r'
  end.

Definition lcall_args (ps : list ident) (rest : option ident) (vs : list lval) : option (list ident * list lval) :=
  match rest with
  | None => if Nat.eqb (List.length ps) (List.length vs) then Some (ps, vs) else None
  | Some r => if Nat.leb (List.length ps) (List.length vs)
              then Some (ps ++ [r], firstn (List.length ps) vs ++ [LVList (skipn (List.length ps) vs)])
              else None
  end.

Definition lprim_apply (p : bprim) (vs : list lval) (st : lstate) : lpres :=
  match p with
  | BP q => match prim_sem q (map lval_atom vs) with
            | inl a => PVal (atom_lval a) st
            | inr k => PErr k
            end
  | BBoxNew => match vs with
               | [v] => PVal (LVBox (List.length (l_store st))) (mkL (l_store st ++ [v]) (l_glob st))
               | _ => PErr EArity
               end
  | BUnbox => match vs with
              | [LVBox a] => match nth_error (l_store st) a with
                             | Some v => PVal v st
                             | None => PErr EType
                             end
              | [_] => PErr EType
              | _ => PErr EArity
              end
  | BSetBox => match vs with
               | [LVBox a; v] => match nth_error (l_store st) a with
                                 | Some old => PVal old (mkL (lupdate a v (l_store st)) (l_glob st))
                                 | None => PErr EType
                                 end
               | [_; _] => PErr EType
               | _ => PErr EArity
               end
  end.

(* left to right, threading environment and state *)
Fixpoint levals (ev : lenv -> lexpr -> lstate -> option lresult) (es : list lexpr) (r : lenv) (st : lstate)
  : option (list lval * lenv * lstate + errk) :=
  match es with
  | [] => Some (inl ([], r, st))
  | e :: rest =>
    match ev r e st with
    | None => None
    | Some (LErr k) => Some (inr k)
    | Some (LVal v r1 st1) =>
      match levals ev rest r1 st1 with
      | None => None
      | Some (inr k) => Some (inr k)
      | Some (inl (vs, r2, st2)) => Some (inl (v :: vs, r2, st2))
      end
    end
  end.

Fixpoint leval (n : nat) (r : lenv) (e : lexpr) (st : lstate) {struct n} : option lresult :=
  match n with
  | O => None
  | S n =>
    match e with
    | LConst c => Some (LVal (lconst c) r st)
    | LVar x =>
        match Core.lookup x r with
        | Some v => Some (LVal v r st)
        | None => match Core.lookup x (l_glob st) with
                  | Some v => Some (LVal v r st)
                  | None => Some (LErr EFree)
                  end
        end
    | LLam ps rest body => Some (LVal (LVClo ps rest body r) r st)
    | LApp f args =>
        match levals (leval n) args r st with
        | None => None
        | Some (inr k) => Some (LErr k)
        | Some (inl (vs, r1, st1)) =>
          match leval n r1 f st1 with
          | None => None
          | Some (LErr k) => Some (LErr k)
          | Some (LVal fv r2 st2) =>
            match fv with
            | LVClo ps rest body r' =>
                match lcall_args ps rest vs with
                | Some (xs, ws) =>
                    (* the callee's final environment is discarded *)
                    match leval n (bind xs ws r') body st2 with
                    | None => None
                    | Some (LErr k) => Some (LErr k)
                    | Some (LVal v _ st3) => Some (LVal v r2 st3)
                    end
                | None => Some (LErr EArity)
                end
            | LVPrim p => match lprim_apply p vs st2 with
                          | PVal v st3 => Some (LVal v r2 st3)
                          | PErr k => Some (LErr k)
                          end
            | _ => Some (LErr ENotProc)
            end
          end
        end
    | LIf c t e' =>
        match leval n r c st with
        | None => None
        | Some (LErr k) => Some (LErr k)
        | Some (LVal v r1 st1) => if atom_truthy (lval_atom v) then leval n r1 t st1 else leval n r1 e' st1
        end
    | LLet bs body =>
        match levals (leval n) (map snd bs) r st with
        | None => None
        | Some (inr k) => Some (LErr k)
        | Some (inl (vs, r1, st1)) =>
            match leval n (bind (map fst bs) vs r1) body st1 with
            | None => None
            | Some (LErr k) => Some (LErr k)
            | Some (LVal v r2 st2) => Some (LVal v (skipn (List.length bs) r2) st2)   (* leave the scope *)
            end
        end
    | LSeq e1 e2 =>
        match leval n r e1 st with
        | None => None
        | Some (LErr k) => Some (LErr k)
        | Some (LVal _ r1 st1) => leval n r1 e2 st1
        end
    | LSetG g e' =>
        match leval n r e' st with
        | None => None
        | Some (LErr k) => Some (LErr k)
        | Some (LVal v r1 st1) =>
          match Core.lookup g (l_glob st1) with
          | Some old => Some (LVal old r1 (mkL (l_store st1) ((g, v) :: l_glob st1)))
          | None => Some (LErr EFree)
          end
        end
    | LSetL x e' =>
        match leval n r e' st with
        | None => None
        | Some (LErr k) => Some (LErr k)
        | Some (LVal v r1 st1) =>
          match Core.lookup x r1 with
          | Some old => Some (LVal old (env_set x v r1) st1)
          | None => Some (LErr EFree)
          end
        end
    end
  end.

Definition lprim_globals : list (ident * lval) := map (fun p => (fst p, LVPrim (snd p))) bprim_table.

Fixpoint lrun_defs (n : nat) (st : lstate) (ds : list (ident * lexpr)) : option (lstate + errk) :=
  match ds with
  | [] => Some (inl st)
  | (x, e) :: r =>
    match leval n [] e st with
    | None => None
    | Some (LErr k) => Some (inr k)
    | Some (LVal v _ st1) => lrun_defs n (mkL (l_store st1) ((x, v) :: l_glob st1)) r
    end
  end.

Definition lrun_program (n : nat) (ds : list (ident * lexpr)) (main : lexpr) : option lresult :=
  match lrun_defs n (mkL [] lprim_globals) ds with
  | None => None
  | Some (inr k) => Some (LErr k)
  | Some (inl st) => leval n [] main st
  end.

Open Scope string_scope.
Fixpoint canon_lval (v : lval) : string :=
  match v with
  | LVVoid => "#<void>"
  | LVList l => "(" ++ Lang.join " " (map canon_lval l) ++ ")"
  | LVPrim _ | LVClo _ _ _ _ => "#<procedure>"
  | LVBox _ => "#<box>"
  | _ => canon_atom (lval_atom v) "?"
  end.

Definition render_lresult (r : option lresult) : string :=
  match r with
  | None => "FUEL"
  | Some (LVal v _ _) => "OK " ++ canon_lval v
  | Some (LErr k) => "ERR " ++ errk_name k
  end.
Close Scope string_scope.

(* ------------------------------------------------------------------ assignment conversion, SETLOCAL variant *)
(* x occurs free inside some lambda of e (x would be captured by a closure created in e) *)
Fixpoint sfree (x : ident) (e : sexpr) : bool :=
  match e with
  | SConst _ => false
  | SVar y => String.eqb x y
  | SLam ps rest body => negb (memb_s x (params ps rest)) && sfree x body
  | SApp f args => (fix go (es : list sexpr) : bool :=
                      match es with [] => false | a :: r => sfree x a || go r end) args || sfree x f
  | SIf c t e' => sfree x c || sfree x t || sfree x e'
  | SLet bs body => (fix go (bs : list (ident * sexpr)) : bool :=
                       match bs with [] => false | (_, a) :: r => sfree x a || go r end) bs
                    || (negb (memb_s x (map fst bs)) && sfree x body)
  | SSeq e1 e2 => sfree x e1 || sfree x e2
  | SSet y e' => String.eqb x y || sfree x e'
  end.

Fixpoint in_lambda (x : ident) (e : sexpr) : bool :=
  match e with
  | SConst _ | SVar _ => false
  | SLam ps rest body => negb (memb_s x (params ps rest)) && sfree x body
  | SApp f args => (fix go (es : list sexpr) : bool :=
                      match es with [] => false | a :: r => in_lambda x a || go r end) args || in_lambda x f
  | SIf c t e' => in_lambda x c || in_lambda x t || in_lambda x e'
  | SLet bs body => (fix go (bs : list (ident * sexpr)) : bool :=
                       match bs with [] => false | (_, a) :: r => in_lambda x a || go r end) bs
                    || (negb (memb_s x (map fst bs)) && in_lambda x body)
  | SSeq e1 e2 => in_lambda x e1 || in_lambda x e2
  | SSet _ e' => in_lambda x e'
  end.

(* boxed: assigned AND captured by some lambda of the scope; the other assigned locals use LSetL *)
Definition needs_box (x : ident) (body : sexpr) : bool := assigned x body && in_lambda x body.

Definition lbox_of (e : lexpr) : lexpr := LApp (LVar box_name) [e].

(* [bx] = the boxed locals in scope, [lx] = the locals in scope (anything else assigned is a global) *)
Fixpoint aconvL (bx lx : list ident) (e : sexpr) : lexpr :=
  match e with
  | SConst c => LConst c
  | SVar x => if memb_s x bx then LApp (LVar unbox_name) [LVar x] else LVar x
  | SLam ps rest body =>
      let xs := params ps rest in
      let mx := filter (fun x => needs_box x body) xs in
      let body' := aconvL (mx ++ minus bx xs) (xs ++ lx) body in
      LLam ps rest (match mx with
                    | [] => body'
                    | _ => LLet (map (fun x => (x, lbox_of (LVar x))) mx) body'
                    end)
  | SApp f args => LApp (aconvL bx lx f) ((fix go (es : list sexpr) : list lexpr :=
                                            match es with [] => [] | a :: r => aconvL bx lx a :: go r end) args)
  | SIf c t e' => LIf (aconvL bx lx c) (aconvL bx lx t) (aconvL bx lx e')
  | SLet bs body =>
      let xs := map fst bs in
      let mx := filter (fun x => needs_box x body) xs in
      LLet ((fix go (bs : list (ident * sexpr)) : list (ident * lexpr) :=
               match bs with
               | [] => []
               | (x, a) :: r => (x, if needs_box x body then lbox_of (aconvL bx lx a) else aconvL bx lx a) :: go r
               end) bs)
           (aconvL (mx ++ minus bx xs) (xs ++ lx) body)
  | SSeq e1 e2 => LSeq (aconvL bx lx e1) (aconvL bx lx e2)
  | SSet x e' => if memb_s x bx then LApp (LVar setbox_name) [LVar x; aconvL bx lx e']
                 else if memb_s x lx then LSetL x (aconvL bx lx e')
                 else LSetG x (aconvL bx lx e')
  end.

Definition assign_convertL (e : sexpr) : lexpr := aconvL [] [] e.
