(* MiniSteel — the reference semantics ("direct, unoptimised reading") used as the oracle of
   C01, C02, C03, C08, C09 (DESIGN.md 2.2, Appendix E).

   A CEK-style abstract machine with an explicit continuation (list of frames), a store for
   variables and boxes, an output trace, a winders list (dynamic-wind) and handler frames
   (with-handler).  Continuations are first class: capture copies the frame list, invocation
   reinstates it (running wind thunks on the way).  The machine is a total function
   [step : state -> state + outcome]; [run] iterates it on explicit fuel and returns [OutOfFuel]
   when exhausted — theorems and correspondences exclude that outcome explicitly.

   Steel-specific facts encoded here were observed on the engine (Appendix E of DESIGN.md):
   operands are evaluated left to right and the operator LAST; set! returns the previous value;
   only #f is false; define returns void; let bodies may start with internal defines
   (letrec* meaning); free identifiers are rejected for the whole evaluation unit before it runs. *)
From Coq Require Import ZArith List Bool String Ascii.
Import ListNotations.
Open Scope string_scope.

Definition ident := string.

Inductive prim :=
| PAdd | PSub | PMul | PQuotient | PRemainder | PModulo | PAbs | PMin | PMax
| PNumEq | PLt | PGt | PLe | PGe | PZeroP | PEvenP | POddP | PAdd1 | PSub1
| PNot | PEqP | PEqualP
| PCons | PCar | PCdr | PList | PLength | PAppend | PReverse | PListRef | PNullP | PPairP | PListP
| PFirst | PSecond | PLast
| PVector | PVecRef | PVecLen | PVecSet | PMakeVec | PVecToList | PListToVec
| PStrAppend | PStrLen | PNumToStr | PSymToStr | PStrToSym | PStrEq | PSubstring
| PBox | PUnbox | PSetBox
| PNumberP | PIntegerP | PStringP | PSymbolP | PProcedureP | PBooleanP | PVectorP | PVoidP | PErrorObjP
| PErrMsg
| PDisplay | PWrite | PNewline | PDisplayln
| PError | PApply | PMap | PFilter | PFoldl | PFoldr | PForEach
| PCallCC | PDynWind
| PHash | PHashInsert | PHashRef | PHashTryGet | PHashContains | PHashLength | PHashRemove | PHashP.

Inductive const :=
| CInt (z : Z) | CBool (b : bool) | CStr (s : string) | CSym (s : string) | CVoid | CChar (c : ascii).

Inductive datum :=
| DConst (c : const)
| DList (l : list datum)
| DImproper (l : list datum) (tail : datum)
| DVec (l : list datum).

Inductive expr :=
| Const (c : const)
| Quote (d : datum)
| Var (x : ident)
| Lam (ps : list ident) (rest : option ident) (body : list expr)
| App (f : expr) (args : list expr)
| If (c t e : expr)
| SetBang (x : ident) (e : expr)
| Begin (es : list expr)
| Let (bs : list (ident * expr)) (body : list expr)
| LetStar (bs : list (ident * expr)) (body : list expr)
| Letrec (bs : list (ident * expr)) (body : list expr)
| NamedLet (f : ident) (bs : list (ident * expr)) (body : list expr)
| And (es : list expr)
| Or (es : list expr)
| When (c : expr) (es : list expr)
| Unless (c : expr) (es : list expr)
| Cond (clauses : list (expr * list expr)) (els : option (list expr))
| Define (x : ident) (e : expr)
| WithHandler (h : expr) (body : list expr).

Inductive errkind := EArity | EType | EGeneric | EFree | EBadSyntax.

Definition loc := nat.
Definition env := list (ident * loc).

Inductive val :=
| VInt (z : Z) | VBool (b : bool) | VStr (s : string) | VSym (s : string) | VVoid | VChar (c : ascii)
| VList (l : list val)                     (* proper list (Steel's ListV) *)
| VPair (a d : val)                        (* improper pair: d is not a list *)
| VVec (l : list val)                      (* immutable vector *)
| VMVec (l : loc)                          (* mutable vector: contents in the store as a VVec *)
| VClo (ps : list ident) (rest : option ident) (body : list expr) (ρ : env)
| VPrim (p : prim)
| VBox (l : loc)
| VCont (k : list frame) (w : list wind)
| VErr (k : errkind) (msg : string) (irritants : list val)
| VHash (kvs : list (val * val))            (* immutable hash map: association list, keys pairwise non-equal? *)
with frame :=
| FArgs (done : list val) (todo : list expr) (f : expr) (ρ : env)   (* evaluating operands, operator last *)
| FFun (args : list val)                                            (* evaluating the operator *)
| FIf (t e : expr) (ρ : env)
| FSet (l : loc)
| FDefineGlobal (x : ident)
| FInit (l : loc)                                                   (* initialise a (letrec / internal define) cell *)
| FSeq (es : list expr) (ρ : env)                                   (* remaining body forms *)
| FLet (x : ident) (done : list (ident * val)) (todo : list (ident * expr)) (body : list expr) (ρ : env)
| FLetStar (x : ident) (todo : list (ident * expr)) (body : list expr) (ρ : env)
| FAnd (es : list expr) (ρ : env)
| FOr (es : list expr) (ρ : env)
| FCond (body : list expr) (rest : list (expr * list expr)) (els : option (list expr)) (ρ : env)
| FHandlerEval (body : list expr) (ρ : env)                         (* handler expression being evaluated *)
| FHandler (h : val) (w : list wind)                                (* installed handler (marks the extent) *)
| FMap (f : val) (done : list val) (todo : list (list val))         (* map: results so far, remaining arg tuples *)
| FFilter (f : val) (x : val) (done : list val) (todo : list val)
| FFoldl (f : val) (todo : list val)
| FForEach (f : val) (todo : list (list val))
| FWindBody (before thunk after : val)                               (* before thunk is running *)
| FWindAfter (after : val)                                           (* body thunk is running; winder pushed *)
| FWindRet (v : val)                                                 (* after thunk is running; then return v *)
| FRewind (todo : list (bool * wind)) (k : list frame) (w : list wind) (v : val)
                                                                     (* running wind thunks before a continuation jump *)
| FReraise (e : val)                                                 (* re-raise e once the wind thunks of an error unwind have run *)
with wind := Wind (id : nat) (before after : val).         (* id: allocation stamp, the winder's identity *)

Inductive control :=
| CEval (e : expr) (ρ : env)
| CRet (v : val)
| CApply (f : val) (args : list val)
| CRaise (e : val).

Record state := mkState {
  ctl : control;
  kont : list frame;
  store : list (loc * val);
  next : loc;
  genv : env;                 (* global bindings *)
  out : list string;          (* output trace, most recent first *)
  winds : list wind           (* innermost first *)
}.

Inductive outcome :=
| Done (v : val) (s : state)
| Failed (e : val) (s : state)
| OutOfFuel.

(* ------------------------------------------------------------------ store / env helpers *)
Fixpoint lookup {A} (x : ident) (l : list (ident * A)) : option A :=
  match l with
  | [] => None
  | (y, a) :: r => if String.eqb x y then Some a else lookup x r
  end.

Fixpoint sget (l : loc) (s : list (loc * val)) : option val :=
  match s with
  | [] => None
  | (m, v) :: r => if Nat.eqb l m then Some v else sget l r
  end.

(* writes shadow older entries: the store is an association list, newest first *)
Definition sput (l : loc) (v : val) (s : list (loc * val)) : list (loc * val) := (l, v) :: s.

Definition set_ctl (st : state) (c : control) : state :=
  mkState c (kont st) (store st) (next st) (genv st) (out st) (winds st).
Definition set_ck (st : state) (c : control) (k : list frame) : state :=
  mkState c k (store st) (next st) (genv st) (out st) (winds st).
Definition alloc (st : state) (v : val) : loc * state :=
  (next st, mkState (ctl st) (kont st) (sput (next st) v (store st)) (S (next st)) (genv st) (out st) (winds st)).
Definition write_store (st : state) (l : loc) (v : val) : state :=
  mkState (ctl st) (kont st) (sput l v (store st)) (next st) (genv st) (out st) (winds st).
Definition emit (st : state) (s : string) : state :=
  mkState (ctl st) (kont st) (store st) (next st) (genv st) (s :: out st) (winds st).
Definition set_winds (st : state) (w : list wind) : state :=
  mkState (ctl st) (kont st) (store st) (next st) (genv st) (out st) w.
Definition set_genv (st : state) (g : env) : state :=
  mkState (ctl st) (kont st) (store st) (next st) g (out st) (winds st).

Fixpoint alloc_many (st : state) (xs : list ident) (vs : list val) (ρ : env) : env * state :=
  match xs, vs with
  | x :: xs', v :: vs' => let (l, st') := alloc st v in alloc_many st' xs' vs' ((x, l) :: ρ)
  | _, _ => (ρ, st)
  end.

(* ------------------------------------------------------------------ printing (display / write) *)
Definition digit (n : nat) : ascii := ascii_of_nat (48 + n).
Fixpoint pos_digits (fuel : nat) (p : Z) (acc : string) : string :=
  match fuel with
  | O => acc
  | S f => let acc' := String (digit (Z.to_nat (p mod 10))) acc in
           if (p / 10 =? 0)%Z then acc' else pos_digits f (p / 10)%Z acc'
  end.
Definition z_to_string (z : Z) : string :=
  if (z =? 0)%Z then "0"
  else let s := pos_digits (S (Z.to_nat (Z.log2 (Z.abs z)))) (Z.abs z) "" in
       if (z <? 0)%Z then String "-" s else s.

Definition is_list (v : val) : bool := match v with VList _ => true | _ => false end.

Fixpoint join (sep : string) (l : list string) : string :=
  match l with
  | [] => ""
  | [x] => x
  | x :: r => x ++ sep ++ join sep r
  end.

(* write-style escaping of a string: the subset the generators use (printable ASCII, newline, tab, backslash, double quote) *)
Fixpoint escape (s : string) : string :=
  match s with
  | EmptyString => ""
  | String c r =>
    let n := nat_of_ascii c in
    (if Nat.eqb n 34 then "\""" else if Nat.eqb n 92 then "\\" else if Nat.eqb n 10 then "\n"
     else if Nat.eqb n 9 then "\t" else String c "") ++ escape r
  end.

Section Print.
  Variable st_store : list (loc * val).
  (* [w] = write (external representation) vs display *)
  Fixpoint show (fuel : nat) (w : bool) (v : val) : string :=
    match fuel with
    | O => "..."
    | S f =>
      match v with
      | VInt z => z_to_string z
      | VBool true => "#true"
      | VBool false => "#false"
      | VStr s => if w then String """" (escape s ++ String """" "") else s
      | VSym s => s
      | VChar c => if w then "#\" ++ String c "" else String c ""
      | VVoid => "#<void>"
      | VList l => "(" ++ join " " (map (show f w) l) ++ ")"
      | VPair a d =>
          (* (a . d), flattening chains of pairs: (1 2 . 3) *)
          let fix tail (g : nat) (d : val) : string :=
            match g with
            | O => "..."
            | S g' => match d with
                      | VPair a' d' => " " ++ show f w a' ++ tail g' d'
                      | _ => " . " ++ show f w d ++ ")"
                      end
            end in
          "(" ++ show f w a ++ tail f d
      | VVec l => "#(" ++ join " " (map (show f w) l) ++ ")"
      | VMVec l => match sget l st_store with
                   | Some (VVec l') => "#(" ++ join " " (map (show f w) l') ++ ")"
                   | _ => "#(?)"
                   end
      | VClo _ _ _ _ => "#<bytecode-closure>"
      | VPrim _ => "#<function>"
      | VBox l => match sget l st_store with
                  | Some x => "'#&" ++ show f w x
                  | None => "'#&?"
                  end
      | VCont _ _ => "#<continuation>"
      | VErr _ m _ => "#<error:" ++ m ++ ">"
      | VHash _ => "#<hashmap>"
      end
    end.
End Print.

(* ------------------------------------------------------------------ data *)
Fixpoint const_val (c : const) : val :=
  match c with
  | CInt z => VInt z | CBool b => VBool b | CStr s => VStr s | CSym s => VSym s | CVoid => VVoid
  | CChar c => VChar c
  end.

Definition vcons (a d : val) : val :=
  match d with VList l => VList (a :: l) | _ => VPair a d end.

Fixpoint datum_val (d : datum) : val :=
  match d with
  | DConst c => const_val c
  | DList l => VList (map datum_val l)
  | DImproper l t => fold_right vcons (datum_val t) (map datum_val l)
  | DVec l => VVec (map datum_val l)
  end.

Definition truthy (v : val) : bool := match v with VBool false => false | _ => true end.

(* structural equality (equal?): decidable on data; procedures/continuations compare unequal unless
   the generator avoids them; boxes and mutable vectors by location *)
Fixpoint val_eqb (fuel : nat) (a b : val) : bool :=
  match fuel with
  | O => false
  | S f =>
    let fix all2 (l1 l2 : list val) : bool :=
      match l1, l2 with
      | [], [] => true
      | x :: r1, y :: r2 => val_eqb f x y && all2 r1 r2
      | _, _ => false
      end in
    match a, b with
    | VInt x, VInt y => (x =? y)%Z
    | VBool x, VBool y => Bool.eqb x y
    | VStr x, VStr y => String.eqb x y
    | VSym x, VSym y => String.eqb x y
    | VChar x, VChar y => Ascii.eqb x y
    | VVoid, VVoid => true
    | VList l1, VList l2 => all2 l1 l2
    | VPair a1 d1, VPair a2 d2 => val_eqb f a1 a2 && val_eqb f d1 d2
    | VVec l1, VVec l2 => all2 l1 l2
    | VMVec l1, VMVec l2 => Nat.eqb l1 l2
    | VBox l1, VBox l2 => Nat.eqb l1 l2
    | VPrim _, VPrim _ => false
    | VHash l1, VHash l2 =>
        Nat.eqb (List.length l1) (List.length l2) &&
        forallb (fun kv => existsb (fun kv' => val_eqb f (fst kv) (fst kv') && val_eqb f (snd kv) (snd kv')) l2) l1
    | _, _ => false
    end
  end.

Definition eq_fuel := 100000%nat.

(* ------------------------------------------------------------------ errors *)
Definition mk_err (k : errkind) (m : string) : val := VErr k m [].

(* ------------------------------------------------------------------ pure primitives *)
Definition arith2 (f : Z -> Z -> Z) (args : list val) : option val :=
  match args with
  | [VInt a; VInt b] => Some (VInt (f a b))
  | _ => None
  end.

Fixpoint all_ints (l : list val) : option (list Z) :=
  match l with
  | [] => Some []
  | VInt z :: r => match all_ints r with Some zs => Some (z :: zs) | None => None end
  | _ => None
  end.

Fixpoint chain (f : Z -> Z -> bool) (l : list Z) : bool :=
  match l with
  | a :: ((b :: _) as r) => f a b && chain f r
  | _ => true
  end.

Inductive presult := POk (v : val) | PErr (e : val).

Definition terr (m : string) : presult := PErr (mk_err EType m).
Definition gerr (m : string) : presult := PErr (mk_err EGeneric m).
Definition aerr (m : string) : presult := PErr (mk_err EArity m).

Fixpoint list_last (l : list val) : option val :=
  match l with [] => None | [x] => Some x | _ :: r => list_last r end.

Definition substring_ (s : string) (a b : nat) : string := String.substring a (b - a) s.


(* hash maps: association lists with pairwise non-equal? keys, newest binding replaces the old one *)
Fixpoint hash_remove (k : val) (l : list (val * val)) : list (val * val) :=
  match l with
  | [] => []
  | (k', v') :: r => if val_eqb eq_fuel k k' then hash_remove k r else (k', v') :: hash_remove k r
  end.
Definition hash_insert (k v : val) (l : list (val * val)) : list (val * val) := (k, v) :: hash_remove k l.
Fixpoint hash_get (k : val) (l : list (val * val)) : option val :=
  match l with
  | [] => None
  | (k', v') :: r => if val_eqb eq_fuel k k' then Some v' else hash_get k r
  end.
Fixpoint hash_build (args : list val) (acc : list (val * val)) : option (list (val * val)) :=
  match args with
  | [] => Some acc
  | k :: v :: r => hash_build r (hash_insert k v acc)
  | [_] => None
  end.

(* result of a store-independent primitive *)
Definition pure_prim (p : prim) (args : list val) : option presult :=
  match p with
  | PAdd => Some (match all_ints args with Some zs => POk (VInt (fold_left Z.add zs 0%Z)) | None => terr "+" end)
  | PMul => Some (match all_ints args with Some zs => POk (VInt (fold_left Z.mul zs 1%Z)) | None => terr "*" end)
  | PSub => Some (match all_ints args with
                  | Some [] => aerr "-"
                  | Some [a] => POk (VInt (- a))
                  | Some (a :: r) => POk (VInt (a - fold_left Z.add r 0))%Z
                  | None => terr "-"
                  end)
  | PQuotient => Some (match args with
                       | [VInt a; VInt b] => if (b =? 0)%Z then gerr "quotient: division by zero" else POk (VInt (Z.quot a b))
                       | [_; _] => terr "quotient" | _ => aerr "quotient" end)
  | PRemainder => Some (match args with
                        | [VInt a; VInt b] => if (b =? 0)%Z then gerr "remainder: division by zero" else POk (VInt (Z.rem a b))
                        | [_; _] => terr "remainder" | _ => aerr "remainder" end)
  | PModulo => Some (match args with
                     | [VInt a; VInt b] => if (b =? 0)%Z then gerr "modulo: division by zero" else POk (VInt (Z.modulo a b))
                     | [_; _] => terr "modulo" | _ => aerr "modulo" end)
  | PAbs => Some (match args with [VInt a] => POk (VInt (Z.abs a)) | [_] => terr "abs" | _ => aerr "abs" end)
  | PMin => Some (match all_ints args with
                  | Some (a :: r) => POk (VInt (fold_left Z.min r a)) | Some [] => aerr "min" | None => terr "min" end)
  | PMax => Some (match all_ints args with
                  | Some (a :: r) => POk (VInt (fold_left Z.max r a)) | Some [] => aerr "max" | None => terr "max" end)
  | PNumEq => Some (match all_ints args with Some [] => aerr "=" | Some zs => POk (VBool (chain Z.eqb zs)) | None => terr "=" end)
  | PLt => Some (match all_ints args with Some [] => aerr "<" | Some zs => POk (VBool (chain Z.ltb zs)) | None => terr "<" end)
  | PGt => Some (match all_ints args with Some [] => aerr ">" | Some zs => POk (VBool (chain Z.gtb zs)) | None => terr ">" end)
  | PLe => Some (match all_ints args with Some [] => aerr "<=" | Some zs => POk (VBool (chain Z.leb zs)) | None => terr "<=" end)
  | PGe => Some (match all_ints args with Some [] => aerr ">=" | Some zs => POk (VBool (chain Z.geb zs)) | None => terr ">=" end)
  | PZeroP => Some (match args with [VInt a] => POk (VBool (a =? 0)%Z) | [_] => terr "zero?" | _ => aerr "zero?" end)
  | PEvenP => Some (match args with [VInt a] => POk (VBool (Z.even a)) | [_] => terr "even?" | _ => aerr "even?" end)
  | POddP => Some (match args with [VInt a] => POk (VBool (Z.odd a)) | [_] => terr "odd?" | _ => aerr "odd?" end)
  | PAdd1 => Some (match args with [VInt a] => POk (VInt (a + 1)) | [_] => terr "add1" | _ => aerr "add1" end)
  | PSub1 => Some (match args with [VInt a] => POk (VInt (a - 1)) | [_] => terr "sub1" | _ => aerr "sub1" end)
  | PNot => Some (match args with [v] => POk (VBool (negb (truthy v))) | _ => aerr "not" end)
  | PEqP | PEqualP => Some (match args with [a; b] => POk (VBool (val_eqb eq_fuel a b)) | _ => aerr "equal?" end)
  | PCons => Some (match args with [a; d] => POk (vcons a d) | _ => aerr "cons" end)
  | PCar | PFirst => Some (match args with
                  | [VList (a :: _)] => POk a
                  | [VList []] => gerr "car: empty list"
                  | [VPair a _] => POk a
                  | [_] => terr "car" | _ => aerr "car" end)
  | PCdr => Some (match args with
                  | [VList (_ :: r)] => POk (VList r)
                  | [VList []] => gerr "cdr: empty list"
                  | [VPair _ d] => POk d
                  | [_] => terr "cdr" | _ => aerr "cdr" end)
  | PSecond => Some (match args with
                     | [VList (_ :: b :: _)] => POk b
                     | [VList _] => gerr "second"
                     | [_] => terr "second" | _ => aerr "second" end)
  | PLast => Some (match args with
                   | [VList l] => match list_last l with Some x => POk x | None => gerr "last" end
                   | [_] => terr "last" | _ => aerr "last" end)
  | PList => Some (POk (VList args))
  | PLength => Some (match args with [VList l] => POk (VInt (Z.of_nat (List.length l))) | [_] => terr "length" | _ => aerr "length" end)
  | PAppend => Some (let fix go (l : list val) : option (list val) :=
                       match l with
                       | [] => Some []
                       | VList x :: r => match go r with Some y => Some (x ++ y)%list | None => None end
                       | _ => None
                       end in
                     match go args with Some l => POk (VList l) | None => terr "append" end)
  | PReverse => Some (match args with [VList l] => POk (VList (rev l)) | [_] => terr "reverse" | _ => aerr "reverse" end)
  | PListRef => Some (match args with
                      | [VList l; VInt i] =>
                          if (i <? 0)%Z then terr "list-ref"
                          else match nth_error l (Z.to_nat i) with Some x => POk x | None => gerr "list-ref: index out of bounds" end
                      | [_; _] => terr "list-ref" | _ => aerr "list-ref" end)
  | PNullP => Some (match args with [VList []] => POk (VBool true) | [_] => POk (VBool false) | _ => aerr "null?" end)
  | PPairP => Some (match args with [VList (_ :: _)] | [VPair _ _] => POk (VBool true) | [_] => POk (VBool false) | _ => aerr "pair?" end)
  | PListP => Some (match args with [VList _] => POk (VBool true) | [_] => POk (VBool false) | _ => aerr "list?" end)
  | PVecLen => None
  | PVecToList => None
  | PListToVec => Some (match args with [VList l] => POk (VVec l) | [_] => terr "list->vector" | _ => aerr "list->vector" end)
  | PStrAppend => Some (let fix go (l : list val) : option string :=
                          match l with
                          | [] => Some ""
                          | VStr x :: r => match go r with Some y => Some (x ++ y) | None => None end
                          | _ => None
                          end in
                        match go args with Some s => POk (VStr s) | None => terr "string-append" end)
  | PStrLen => Some (match args with [VStr s] => POk (VInt (Z.of_nat (String.length s))) | [_] => terr "string-length" | _ => aerr "string-length" end)
  | PNumToStr => Some (match args with [VInt z] => POk (VStr (z_to_string z)) | [_] => terr "number->string" | _ => aerr "number->string" end)
  | PSymToStr => Some (match args with [VSym s] => POk (VStr s) | [_] => terr "symbol->string" | _ => aerr "symbol->string" end)
  | PStrToSym => Some (match args with [VStr s] => POk (VSym s) | [_] => terr "string->symbol" | _ => aerr "string->symbol" end)
  | PStrEq => Some (match args with [VStr a; VStr b] => POk (VBool (String.eqb a b)) | [_; _] => terr "string=?" | _ => aerr "string=?" end)
  | PSubstring => Some (match args with
                        | [VStr s; VInt a; VInt b] =>
                            if ((0 <=? a) && (a <=? b) && (b <=? Z.of_nat (String.length s)))%Z
                            then POk (VStr (substring_ s (Z.to_nat a) (Z.to_nat b)))
                            else gerr "substring: index out of bounds"
                        | [_; _; _] => terr "substring" | _ => aerr "substring" end)
  | PNumberP | PIntegerP => Some (match args with [VInt _] => POk (VBool true) | [_] => POk (VBool false) | _ => aerr "number?" end)
  | PStringP => Some (match args with [VStr _] => POk (VBool true) | [_] => POk (VBool false) | _ => aerr "string?" end)
  | PSymbolP => Some (match args with [VSym _] => POk (VBool true) | [_] => POk (VBool false) | _ => aerr "symbol?" end)
  | PBooleanP => Some (match args with [VBool _] => POk (VBool true) | [_] => POk (VBool false) | _ => aerr "boolean?" end)
  | PVectorP => Some (match args with [VVec _] | [VMVec _] => POk (VBool true) | [_] => POk (VBool false) | _ => aerr "vector?" end)
  | PVoidP => Some (match args with [VVoid] => POk (VBool true) | [_] => POk (VBool false) | _ => aerr "void?" end)
  | PProcedureP => Some (match args with
                         | [VClo _ _ _ _] | [VPrim _] | [VCont _ _] => POk (VBool true)
                         | [_] => POk (VBool false) | _ => aerr "procedure?" end)
  | PErrorObjP => Some (match args with [VErr _ _ _] => POk (VBool true) | [_] => POk (VBool false) | _ => aerr "error-object?" end)
  | PErrMsg => Some (match args with [VErr _ m _] => POk (VStr m) | [_] => terr "error-object-message" | _ => aerr "error-object-message" end)
  | PHash => Some (match hash_build args [] with Some l => POk (VHash l) | None => aerr "hash" end)
  | PHashInsert => Some (match args with [VHash l; k; v] => POk (VHash (hash_insert k v l)) | [_; _; _] => terr "hash-insert" | _ => aerr "hash-insert" end)
  | PHashRef => Some (match args with
                      | [VHash l; k] => match hash_get k l with Some v => POk v | None => gerr "hash-ref: key not found" end
                      | [_; _] => terr "hash-ref" | _ => aerr "hash-ref" end)
  | PHashTryGet => Some (match args with
                         | [VHash l; k] => match hash_get k l with Some v => POk v | None => POk (VBool false) end
                         | [_; _] => terr "hash-try-get" | _ => aerr "hash-try-get" end)
  | PHashContains => Some (match args with
                           | [VHash l; k] => POk (VBool (match hash_get k l with Some _ => true | None => false end))
                           | [_; _] => terr "hash-contains?" | _ => aerr "hash-contains?" end)
  | PHashLength => Some (match args with [VHash l] => POk (VInt (Z.of_nat (List.length l))) | [_] => terr "hash-length" | _ => aerr "hash-length" end)
  | PHashRemove => Some (match args with [VHash l; k] => POk (VHash (hash_remove k l)) | [_; _] => terr "hash-remove" | _ => aerr "hash-remove" end)
  | PHashP => Some (match args with [VHash _] => POk (VBool true) | [_] => POk (VBool false) | _ => aerr "hash?" end)
  | _ => None
  end.

(* ------------------------------------------------------------------ the machine *)
Definition ret (st : state) (v : val) : state := set_ctl st (CRet v).
Definition raise (st : state) (e : val) : state := set_ctl st (CRaise e).
Definition push (st : state) (c : control) (f : frame) : state := set_ck st c (f :: kont st).

Definition eval_body (st : state) (body : list expr) (ρ : env) : state :=
  match body with
  | [] => ret st VVoid
  | [e] => set_ctl st (CEval e ρ)
  | e :: r => push st (CEval e ρ) (FSeq r ρ)
  end.

(* internal defines at the head of a body: letrec* — allocate every defined name first *)
Fixpoint body_defines (body : list expr) : list ident :=
  match body with
  | Define x _ :: r => x :: body_defines r
  | Begin es :: r => ((fix go (es : list expr) : list ident :=
                        match es with Define x _ :: r' => x :: go r' | _ :: r' => go r' | [] => [] end) es
                     ++ body_defines r)%list
  | _ :: r => body_defines r
  | [] => []
  end.

Definition enter_body (st : state) (body : list expr) (ρ : env) : state :=
  let ds := body_defines body in
  let '(ρ', st') := alloc_many st ds (map (fun _ => VVoid) ds) ρ in
  eval_body st' body ρ'.

Fixpoint zip_args (l : list (list val)) : option (list (list val)) :=
  (* transpose, truncating to the shortest list: (map f l1 l2 ...) *)
  match l with
  | [] => Some []
  | _ =>
    if existsb (fun x => match x with [] => true | _ => false end) l then Some []
    else None
  end.

Fixpoint transpose (fuel : nat) (ls : list (list val)) : list (list val) :=
  match fuel with
  | O => []
  | S f =>
    if existsb (fun x => match x with [] => true | _ => false end) ls then []
    else match ls with
         | [] => []
         | _ => map (fun x => match x with a :: _ => a | [] => VVoid end) ls
                :: transpose f (map (fun x => match x with _ :: r => r | [] => [] end) ls)
         end
  end.

Fixpoint as_lists (l : list val) : option (list (list val)) :=
  match l with
  | [] => Some []
  | VList x :: r => match as_lists r with Some y => Some (x :: y) | None => None end
  | _ => None
  end.

Definition max_len (ls : list (list val)) : nat := fold_left Nat.max (map (@List.length val) ls) 0%nat.

(* common suffix handling for continuation jumps: run the `after` thunks of the winders being left
   (innermost first) and then the `before` thunks of the winders being entered (outermost first) *)
Fixpoint wind_eqb (a b : list wind) : bool := Nat.eqb (List.length a) (List.length b).

Fixpoint drop_to (n : nat) (w : list wind) : list wind :=
  (* keep the last n elements *)
  if Nat.leb (List.length w) n then w else match w with [] => [] | _ :: r => drop_to n r end.

Fixpoint common_len (fuel : nat) (a b : list wind) : nat :=
  (* List.length of the common suffix, identifying winders by position from the outermost *)
  let la := List.length a in let lb := List.length b in Nat.min la lb.

Definition wind_id (x : wind) : nat := match x with Wind i _ _ => i end.
(* length of the longest common suffix of two winders lists (innermost first) *)
Fixpoint common_prefix_len (a b : list nat) : nat :=
  match a, b with
  | x :: a', y :: b' => if Nat.eqb x y then S (common_prefix_len a' b') else O
  | _, _ => O
  end.
Definition common_suffix_len (a b : list wind) : nat :=
  common_prefix_len (rev (map wind_id a)) (rev (map wind_id b)).

Definition apply_proc (st : state) (f : val) (args : list val) : state :=
  match f with
  | VClo ps rest body ρ =>
      let np := List.length ps in
      match rest with
      | None =>
          if Nat.eqb (List.length args) np
          then let '(ρ', st') := alloc_many st ps args ρ in enter_body st' body ρ'
          else raise st (mk_err EArity "function arity")
      | Some r =>
          if Nat.leb np (List.length args)
          then let '(ρ', st') := alloc_many st ps (firstn np args) ρ in
               let '(l, st'') := alloc st' (VList (skipn np args)) in
               enter_body st'' body ((r, l) :: ρ')
          else raise st (mk_err EArity "function arity (rest)")
      end
  | VCont k w =>
      match args with
      | [v] =>
          (* leave the current winders down to the common suffix, then enter the target's
             (parameters.scm common-tail / do-wind); winders are identified by their stamp *)
          let cur := winds st in
          let n := common_suffix_len cur w in
          let leaving := firstn (List.length cur - n) cur in
          let entering := rev (firstn (List.length w - n) w) in
          let todo := (map (fun x => (false, x)) leaving ++ map (fun x => (true, x)) entering)%list in
          set_ck st (CRet VVoid) [FRewind todo k w v]
      | _ => raise st (mk_err EArity "continuation expects one value")
      end
  | VPrim p =>
      match pure_prim p args with
      | Some (POk v) => ret st v
      | Some (PErr e) => raise st e
      | None =>
        match p, args with
        | PVector, _ => let '(l, st') := alloc st (VVec args) in ret st' (VMVec l)
        | PMakeVec, [VInt n; v] =>
            if (n <? 0)%Z then raise st (mk_err EType "make-vector")
            else let '(l, st') := alloc st (VVec (repeat v (Z.to_nat n))) in ret st' (VMVec l)
        | PVecRef, [vec; VInt i] =>
            let ol := match vec with
                      | VVec l => Some l
                      | VMVec m => match sget m (store st) with Some (VVec l) => Some l | _ => None end
                      | _ => None
                      end in
            match ol with
            | Some l => if (i <? 0)%Z then raise st (mk_err EType "vector-ref")
                        else match nth_error l (Z.to_nat i) with
                             | Some x => ret st x
                             | None => raise st (mk_err EGeneric "vector-ref: index out of bounds")
                             end
            | None => raise st (mk_err EType "vector-ref")
            end
        | PVecRef, [_; _] => raise st (mk_err EType "vector-ref")
        | PVecLen, [VVec l] => ret st (VInt (Z.of_nat (List.length l)))
        | PVecLen, [VMVec m] => match sget m (store st) with
                                | Some (VVec l) => ret st (VInt (Z.of_nat (List.length l)))
                                | _ => raise st (mk_err EType "vector-length")
                                end
        | PVecLen, [_] => raise st (mk_err EType "vector-length")
        | PVecToList, [VVec l] => ret st (VList l)
        | PVecToList, [VMVec m] => match sget m (store st) with
                                   | Some (VVec l) => ret st (VList l)
                                   | _ => raise st (mk_err EType "vector->list")
                                   end
        | PVecToList, [_] => raise st (mk_err EType "vector->list")
        | PVecSet, [VMVec m; VInt i; v] =>
            match sget m (store st) with
            | Some (VVec l) =>
                if ((0 <=? i) && (i <? Z.of_nat (List.length l)))%Z
                then let n := Z.to_nat i in
                     ret (write_store st m (VVec (firstn n l ++ v :: skipn (S n) l)%list)) VVoid
                else raise st (mk_err EGeneric "vector-set!: index out of bounds")
            | _ => raise st (mk_err EType "vector-set!")
            end
        | PVecSet, [_; _; _] => raise st (mk_err EType "vector-set!")
        | PBox, [v] => let '(l, st') := alloc st v in ret st' (VBox l)
        | PUnbox, [VBox l] => match sget l (store st) with Some v => ret st v | None => raise st (mk_err EGeneric "unbox") end
        | PUnbox, [_] => raise st (mk_err EType "unbox")
        | PSetBox, [VBox l; v] =>
            match sget l (store st) with
            | Some old => ret (write_store st l v) old
            | None => raise st (mk_err EGeneric "set-box!")
            end
        | PSetBox, [_; _] => raise st (mk_err EType "set-box!")
        | PDisplay, [v] => ret (emit st (show (store st) 200 false v)) VVoid
        | PWrite, [v] => ret (emit st (show (store st) 200 true v)) VVoid
        | PNewline, [] => ret (emit st (String (ascii_of_nat 10) "")) VVoid
        | PDisplayln, _ =>
            ret (emit st (join " " (map (show (store st) 200 false) args) ++ String (ascii_of_nat 10) "")) VVoid
        | PError, _ =>
            (* the message as the engine builds it: every argument displayed, each preceded by a space
               (strings raw) *)
            let m := fold_left (fun acc v => acc ++ " " ++ show (store st) 200 false v) args "" in
            raise st (VErr EGeneric m args)
        | PApply, f' :: rest =>
            (* (apply f a b ... lst) *)
            match rev rest with
            | VList l :: pre => set_ctl st (CApply f' (rev pre ++ l)%list)
            | _ => raise st (mk_err EType "apply")
            end
        | PMap, f' :: ls =>
            match as_lists ls with
            | Some (l0 :: lr) =>
                match transpose (S (max_len (l0 :: lr))) (l0 :: lr) with
                | [] => ret st (VList [])
                | t :: ts => push st (CApply f' t) (FMap f' [] ts)
                end
            | _ => raise st (mk_err EType "map")
            end
        | PForEach, f' :: ls =>
            match as_lists ls with
            | Some (l0 :: lr) =>
                match transpose (S (max_len (l0 :: lr))) (l0 :: lr) with
                | [] => ret st VVoid
                | t :: ts => push st (CApply f' t) (FForEach f' ts)
                end
            | _ => raise st (mk_err EType "for-each")
            end
        | PFilter, [f'; VList l] =>
            match l with
            | [] => ret st (VList [])
            | x :: r => push st (CApply f' [x]) (FFilter f' x [] r)
            end
        | PFilter, [_; _] => raise st (mk_err EType "filter")
        | PFoldl, [f'; init; VList l] =>
            match l with
            | [] => ret st init
            | x :: r => push st (CApply f' [x; init]) (FFoldl f' r)
            end
        | PFoldl, [_; _; _] => raise st (mk_err EType "foldl")
        | PFoldr, [f'; init; VList l] =>
            match rev l with
            | [] => ret st init
            | x :: r => push st (CApply f' [x; init]) (FFoldl f' r)
            end
        | PFoldr, [_; _; _] => raise st (mk_err EType "foldr")
        | PCallCC, [f'] => set_ctl st (CApply f' [VCont (kont st) (winds st)])
        | PDynWind, [b; t; a] => push st (CApply b []) (FWindBody b t a)
        | _, _ => raise st (mk_err EArity "primitive arity")
        end
      end
  | _ => raise st (mk_err EBadSyntax "application: not a procedure")
  end.

Definition var_loc (st : state) (x : ident) (ρ : env) : option loc :=
  match lookup x ρ with
  | Some l => Some l
  | None => lookup x (genv st)
  end.

Definition prim_of_name (x : ident) : option prim :=
  let tbl : list (ident * prim) :=
    [("+", PAdd); ("-", PSub); ("*", PMul); ("quotient", PQuotient); ("remainder", PRemainder);
     ("modulo", PModulo); ("abs", PAbs); ("min", PMin); ("max", PMax);
     ("=", PNumEq); ("<", PLt); (">", PGt); ("<=", PLe); (">=", PGe);
     ("zero?", PZeroP); ("even?", PEvenP); ("odd?", POddP); ("add1", PAdd1); ("sub1", PSub1);
     ("not", PNot); ("eq?", PEqP); ("equal?", PEqualP);
     ("cons", PCons); ("car", PCar); ("cdr", PCdr); ("list", PList); ("length", PLength);
     ("append", PAppend); ("reverse", PReverse); ("list-ref", PListRef); ("null?", PNullP);
     ("empty?", PNullP); ("pair?", PPairP); ("list?", PListP); ("first", PFirst); ("second", PSecond);
     ("last", PLast);
     ("vector", PVector); ("vector-ref", PVecRef); ("vector-length", PVecLen); ("vector-set!", PVecSet);
     ("make-vector", PMakeVec); ("vector->list", PVecToList); ("list->vector", PListToVec);
     ("string-append", PStrAppend); ("string-length", PStrLen); ("number->string", PNumToStr);
     ("symbol->string", PSymToStr); ("string->symbol", PStrToSym); ("string=?", PStrEq);
     ("substring", PSubstring);
     ("box", PBox); ("unbox", PUnbox); ("set-box!", PSetBox);
     ("number?", PNumberP); ("integer?", PIntegerP); ("string?", PStringP); ("symbol?", PSymbolP);
     ("procedure?", PProcedureP); ("boolean?", PBooleanP); ("vector?", PVectorP); ("void?", PVoidP);
     ("error-object?", PErrorObjP); ("error-object-message", PErrMsg);
     ("display", PDisplay); ("write", PWrite); ("newline", PNewline); ("displayln", PDisplayln);
     ("error", PError); ("apply", PApply); ("map", PMap); ("filter", PFilter); ("foldl", PFoldl);
     ("foldr", PFoldr); ("for-each", PForEach);
     ("hash", PHash); ("hash-insert", PHashInsert); ("hash-ref", PHashRef); ("hash-try-get", PHashTryGet);
     ("hash-contains?", PHashContains); ("hash-length", PHashLength); ("hash-remove", PHashRemove); ("hash?", PHashP);
     ("call/cc", PCallCC); ("call-with-current-continuation", PCallCC); ("dynamic-wind", PDynWind)] in
  lookup x tbl.

Definition step (st : state) : state + outcome :=
  match ctl st with
  | CEval e ρ =>
    match e with
    | Const c => inl (ret st (const_val c))
    | Quote d => inl (ret st (datum_val d))
    | Var x =>
        match var_loc st x ρ with
        | Some l => match sget l (store st) with
                    | Some v => inl (ret st v)
                    | None => inl (raise st (mk_err EGeneric "unbound location"))
                    end
        | None => match prim_of_name x with
                  | Some p => inl (ret st (VPrim p))
                  | None => if String.eqb x "void" then inl (ret st VVoid)
                            else inl (raise st (mk_err EFree x))
                  end
        end
    | Lam ps rest body =>
        (* global references are resolved when the enclosing evaluation unit is compiled: the closure
           keeps the global bindings in force at that time (a later redefinition creates a new binding
           that only later units see; set! mutates the binding itself) *)
        inl (ret st (VClo ps rest body (ρ ++ genv st)%list))
    | App f args =>
        match args with
        | [] => inl (push st (CEval f ρ) (FFun []))
        | a :: r => inl (push st (CEval a ρ) (FArgs [] r f ρ))
        end
    | If c t e' => inl (push st (CEval c ρ) (FIf t e' ρ))
    | SetBang x e' =>
        match var_loc st x ρ with
        | Some l => inl (push st (CEval e' ρ) (FSet l))
        | None => inl (raise st (mk_err EFree x))
        end
    | Begin es => inl (eval_body st es ρ)
    | Let bs body =>
        match bs with
        | [] => inl (enter_body st body ρ)
        | (x, e') :: r => inl (push st (CEval e' ρ) (FLet x [] r body ρ))
        end
    | LetStar bs body =>
        match bs with
        | [] => inl (enter_body st body ρ)
        | (x, e') :: r => inl (push st (CEval e' ρ) (FLetStar x r body ρ))
        end
    | Letrec bs body =>
        (* allocate all cells, evaluate the inits in order in the extended environment *)
        let xs := map fst bs in
        let '(ρ', st') := alloc_many st xs (map (fun _ => VVoid) xs) ρ in
        let inits := map (fun b => Define (fst b) (snd b)) bs in
        inl (eval_body st' (inits ++ [Let [] body])%list ρ')
    | NamedLet f bs body =>
        let '(l, st') := alloc st VVoid in
        let ρ' := (f, l) :: ρ in
        let clo := VClo (map fst bs) None body ρ' in
        let st'' := write_store st' l clo in
        inl (set_ctl st'' (CEval (App (Var f) (map snd bs)) ((f, l) :: ρ)))
    | And es =>
        match es with
        | [] => inl (ret st (VBool true))
        | [e'] => inl (set_ctl st (CEval e' ρ))
        | e' :: r => inl (push st (CEval e' ρ) (FAnd r ρ))
        end
    | Or es =>
        match es with
        | [] => inl (ret st (VBool false))
        | [e'] => inl (set_ctl st (CEval e' ρ))
        | e' :: r => inl (push st (CEval e' ρ) (FOr r ρ))
        end
    | When c es => inl (push st (CEval c ρ) (FIf (Begin es) (Const CVoid) ρ))
    | Unless c es => inl (push st (CEval c ρ) (FIf (Const CVoid) (Begin es) ρ))
    | Cond clauses els =>
        match clauses with
        | [] => match els with
                | Some b => inl (eval_body st b ρ)
                | None => inl (ret st VVoid)
                end
        | (c, b) :: r => inl (push st (CEval c ρ) (FCond b r els ρ))
        end
    | Define x e' =>
        match lookup x ρ with
        | Some l => inl (push st (CEval e' ρ) (FInit l))          (* internal define *)
        | None => inl (push st (CEval e' ρ) (FDefineGlobal x))
        end
    | WithHandler h body => inl (push st (CEval h ρ) (FHandlerEval body ρ))
    end
  | CApply f args => inl (apply_proc st f args)
  | CRet v =>
    match kont st with
    | [] => inr (Done v st)
    | fr :: k =>
      let st := set_ck st (CRet v) k in
      match fr with
      | FArgs done todo f ρ =>
          match todo with
          | [] => inl (push st (CEval f ρ) (FFun (rev (v :: done))))
          | a :: r => inl (push st (CEval a ρ) (FArgs (v :: done) r f ρ))
          end
      | FFun args => inl (set_ctl st (CApply v args))
      | FIf t e ρ => inl (set_ctl st (CEval (if truthy v then t else e) ρ))
      | FSet l =>
          match sget l (store st) with
          | Some old => inl (ret (write_store st l v) old)
          | None => inl (ret (write_store st l v) VVoid)
          end
      | FInit l => inl (ret (write_store st l v) VVoid)
      | FDefineGlobal x =>
          (* the binding was created when the unit was entered (run_unit); define initialises it *)
          match lookup x (genv st) with
          | Some l => inl (ret (write_store st l v) VVoid)
          | None => let '(l, st') := alloc st v in
                    inl (ret (set_genv st' ((x, l) :: genv st')) VVoid)
          end
      | FSeq es ρ => inl (eval_body st es ρ)
      | FLet x done todo body ρ =>
          match todo with
          | [] => let bs := rev ((x, v) :: done) in
                  let '(ρ', st') := alloc_many st (map fst bs) (map snd bs) ρ in
                  inl (enter_body st' body ρ')
          | (y, e') :: r => inl (push st (CEval e' ρ) (FLet y ((x, v) :: done) r body ρ))
          end
      | FLetStar x todo body ρ =>
          let '(l, st') := alloc st v in
          let ρ' := (x, l) :: ρ in
          match todo with
          | [] => inl (enter_body st' body ρ')
          | (y, e') :: r => inl (push st' (CEval e' ρ') (FLetStar y r body ρ'))
          end
      | FAnd es ρ => if truthy v then inl (set_ctl st (CEval (And es) ρ)) else inl (ret st v)
      | FOr es ρ => if truthy v then inl (ret st v) else inl (set_ctl st (CEval (Or es) ρ))
      | FCond b rest els ρ =>
          if truthy v then (match b with [] => inl (ret st v) | _ => inl (eval_body st b ρ) end)
          else inl (set_ctl st (CEval (Cond rest els) ρ))
      | FHandlerEval body ρ =>
          inl (push st (CEval (Begin body) ρ) (FHandler v (winds st)))
      | FHandler _ _ => inl (ret st v)
      | FMap f done todo =>
          match todo with
          | [] => inl (ret st (VList (rev (v :: done))))
          | t :: ts => inl (push st (CApply f t) (FMap f (v :: done) ts))
          end
      | FForEach f todo =>
          match todo with
          | [] => inl (ret st VVoid)
          | t :: ts => inl (push st (CApply f t) (FForEach f ts))
          end
      | FFilter f x done todo =>
          let done' := if truthy v then x :: done else done in
          match todo with
          | [] => inl (ret st (VList (rev done')))
          | y :: r => inl (push st (CApply f [y]) (FFilter f y done' r))
          end
      | FFoldl f todo =>
          match todo with
          | [] => inl (ret st v)
          | x :: r => inl (push st (CApply f [x; v]) (FFoldl f r))
          end
      | FWindBody b t a =>
          let '(wid, st0) := alloc st VVoid in
          let st' := set_winds st0 (Wind wid b a :: winds st0) in
          inl (push st' (CApply t []) (FWindAfter a))
      | FWindAfter a =>
          let st' := set_winds st (tl (winds st)) in
          inl (push st' (CApply a []) (FWindRet v))
      | FWindRet v0 => inl (ret st v0)
      | FReraise e0 => inl (raise st e0)
      | FRewind todo k' w v0 =>
          match todo with
          | [] => inl (set_ck (set_winds st w) (CRet v0) k')
          | (false, Wind _ _ a) :: r =>
              let st' := set_winds st (tl (winds st)) in
              inl (set_ck st' (CApply a []) [FRewind r k' w v0])
          | (true, Wind _ b a) :: r =>
              inl (set_ck st (CApply b []) [FRewind r k' w v0])
          end
      end
    end
  | CRaise e =>
    (* unwind to the nearest handler frame; the handler runs in the continuation of with-handler *)
    let fix find (k : list frame) : option (val * list wind * list frame) :=
      match k with
      | [] => None
      | FHandler h w :: r => Some (h, w, r)
      | _ :: r => find r
      end in
    match find (kont st) with
    | Some (h, w, k') =>
        (* dynamic-wind installs its own exception handler that pops the winder, runs `after` and
           re-raises (parameters.scm L275-296): the winders entered inside the with-handler are left,
           innermost first, before the handler procedure runs *)
        let leaving := firstn (List.length (winds st) - List.length w) (winds st) in
        match leaving with
        | [] => inl (set_ck (set_winds st w) (CApply h [e]) k')
        | _ => inl (set_ck st (CRet VVoid)
                      [FRewind (map (fun x => (false, x)) leaving) (FFun [e] :: k') w h])
        end
    | None =>
        match winds st with
        | [] => inr (Failed e st)
        | ws => inl (set_ck st (CRet VVoid) [FRewind (map (fun x => (false, x)) ws) [FReraise e] [] VVoid])
        end
    end
  end.

Fixpoint run (fuel : nat) (st : state) : outcome :=
  match fuel with
  | O => OutOfFuel
  | S f => match step st with
           | inl st' => run f st'
           | inr o => o
           end
  end.

(* ------------------------------------------------------------------ evaluation units and histories *)
(* free-identifier check of a whole unit before it runs (reported at compile time by the engine) *)
Section Free.
  (* [known_later]: names resolvable by code that runs later (inside lambda bodies): globals, names the
     unit defines, primitives.  [known_now]: names resolvable by code that runs while the form itself is
     evaluated: the same minus the names of this unit whose define has not been reached yet
     ("cannot reference an identifier before its definition"). *)
  Variable known_later : ident -> bool.
  Variable known_now : ident -> bool.
  Fixpoint free_in (fuel : nat) (top : bool) (bound : list ident) (e : expr) : bool :=
    match fuel with
    | O => false
    | S f =>
      let fb := fun b es => existsb (free_in f top b) es in
      let isb := fun b x => existsb (String.eqb x) b || (if top then known_now x else known_later x) in
      match e with
      | Const _ | Quote _ => false
      | Var x => negb (isb bound x)
      | Lam ps rest body =>
          let b := (ps ++ (match rest with Some r => [r] | None => [] end) ++ body_defines body ++ bound)%list in
          existsb (free_in f false b) body
      | App g args => free_in f top bound g || fb bound args
      | If c t e' => free_in f top bound c || free_in f top bound t || free_in f top bound e'
      | SetBang x e' => negb (isb bound x) || free_in f top bound e'
      | Begin es => fb bound es
      | Let bs body => fb bound (map snd bs) || fb (map fst bs ++ body_defines body ++ bound)%list body
      | LetStar bs body =>
          (fix go (bs : list (ident * expr)) (b : list ident) : bool :=
             match bs with
             | [] => fb (body_defines body ++ b)%list body
             | (x, e') :: r => free_in f top b e' || go r (x :: b)
             end) bs bound
      | Letrec bs body =>
          let b := (map fst bs ++ body_defines body ++ bound)%list in fb b (map snd bs) || fb b body
      | NamedLet g bs body =>
          fb bound (map snd bs) || fb (g :: map fst bs ++ body_defines body ++ bound)%list body
      | And es | Or es => fb bound es
      | When c es | Unless c es => free_in f top bound c || fb bound es
      | Cond cl els =>
          existsb (fun c => free_in f top bound (fst c) || fb bound (snd c)) cl
          || match els with Some b => fb bound b | None => false end
      | Define x e' => free_in f top bound e'
      | WithHandler h body => free_in f top bound h || fb bound body
      end
    end.
End Free.

Fixpoint unit_defines (forms : list expr) : list ident :=
  match forms with
  | Define x _ :: r => x :: unit_defines r
  | Begin es :: r => (body_defines es ++ unit_defines r)%list
  | _ :: r => unit_defines r
  | [] => []
  end.

Definition init_state : state := mkState (CRet VVoid) [] [] 0 [] [] [].

Inductive unit_result :=
| UOk (vals : list val)
| UErr (k : errkind) (msg : string)
| UFuel.

(* run one evaluation unit (a list of top-level forms) on an engine state *)
Fixpoint run_forms (fuel : nat) (forms : list expr) (st : state) (acc : list val) : unit_result * state :=
  match forms with
  | [] => (UOk (rev acc), st)
  | e :: r =>
    match run fuel (mkState (CEval e []) [] (store st) (next st) (genv st) (out st) []) with
    | Done v st' => run_forms fuel r st' (v :: acc)
    | Failed (VErr k m _) st' => (UErr k m, st')
    | Failed _ st' => (UErr EGeneric "raised non-error value", st')
    | OutOfFuel => (UFuel, st)
    end
  end.

(* free-identifier check of the forms of a unit, in order: [done] = names of this unit already defined *)
Fixpoint unit_has_free (later : ident -> bool) (pending : list ident) (forms : list expr) : bool :=
  match forms with
  | [] => false
  | e :: r =>
    let now := fun x => later x && negb (existsb (String.eqb x) pending) in
    free_in later now 1000 true [] e
    || unit_has_free later (match e with
                            | Define x _ => filter (fun y => negb (String.eqb y x)) pending
                            | _ => pending
                            end) r
  end.

Definition run_unit (fuel : nat) (forms : list expr) (st : state) : unit_result * state :=
  let defs := unit_defines forms in
  let known := fun x => existsb (String.eqb x) defs
                        || (match lookup x (genv st) with Some _ => true | None => false end)
                        || (match prim_of_name x with Some _ => true | None => false end)
                        || String.eqb x "void" in
  if unit_has_free known defs forms
  then (UErr EFree "free identifier", st)
  else
    (* every name the unit defines gets a fresh binding before any form runs (earlier closures keep
       referring to the previous binding of that name) *)
    let names := nodup string_dec defs in
    let '(g', st1) := alloc_many st names (map (fun _ => VVoid) names) (genv st) in
    run_forms fuel forms (set_genv st1 g') [].

(* a history: units evaluated one after the other on the same engine; a failing unit keeps the
   effects it had before failing (definitions completed, output, mutations) *)
Fixpoint run_history (fuel : nat) (units : list (list expr)) (st : state) : list unit_result * state :=
  match units with
  | [] => ([], st)
  | u :: r =>
    let '(res, st') := run_unit fuel u st in
    let '(rs, st'') := run_history fuel r st' in
    (res :: rs, st'')
  end.

(* ------------------------------------------------------------------ canonical rendering (harness `canon`) *)
Fixpoint esc_canon (s : string) : string :=
  match s with
  | EmptyString => ""
  | String c r =>
    let n := nat_of_ascii c in
    (if Nat.eqb n 34 then "\""" else if Nat.eqb n 92 then "\\"
     else if Nat.ltb n 32 then "\x" ++ (if Nat.eqb n 10 then "a" else if Nat.eqb n 9 then "9" else "?") ++ ";"
     else String c "") ++ esc_canon r
  end.

Fixpoint insert_sorted (x : string) (l : list string) : list string :=
  match l with
  | [] => [x]
  | y :: r => if String.leb x y then x :: l else y :: insert_sorted x r
  end.
Definition sort_strings (l : list string) : list string := fold_right insert_sorted [] l.

Section Canon.
  Variable st_store : list (loc * val).
  Fixpoint canon (fuel : nat) (v : val) : string :=
    match fuel with
    | O => "<deep>"
    | S f =>
      match v with
      | VInt z => (if ((-9223372036854775808 <=? z) && (z <=? 9223372036854775807))%Z then "I" else "B")
                  ++ z_to_string z
      | VBool true => "#t"
      | VBool false => "#f"
      | VStr s => String """" (esc_canon s ++ String """" "")
      | VSym s => "'" ++ String """" (esc_canon s ++ String """" "")
      | VChar c => "#\x" ++ (let n := nat_of_ascii c in
                             let hex := fun d => if Nat.ltb d 10 then String (ascii_of_nat (48 + d)) ""
                                                 else String (ascii_of_nat (87 + d)) "" in
                             (if Nat.ltb n 16 then "" else hex (n / 16)%nat) ++ hex (n mod 16)%nat)
      | VVoid => "#<void>"
      | VList l => "(" ++ join " " (map (canon f) l) ++ ")"
      | VPair a d => "(" ++ canon f a ++ " . " ++ canon f d ++ ")"
      | VVec l => "#(" ++ join " " (map (canon f) l) ++ ")"
      | VMVec m => match sget m st_store with
                   | Some (VVec l) => "#m(" ++ join " " (map (canon f) l) ++ ")"
                   | _ => "#m(?)"
                   end
      | VClo _ _ _ _ | VPrim _ => "#<procedure>"
      | VBox l => match sget l st_store with
                  | Some x => "#box(" ++ canon f x ++ ")"
                  | None => "#box(?)"
                  end
      | VCont _ _ => "#<continuation>"
      | VErr _ m _ => "#<error>"
      | VHash l => "#hash(" ++ join " " (sort_strings (map (fun kv => "[" ++ canon f (fst kv) ++ " " ++ canon f (snd kv) ++ "]") l)) ++ ")"
      end
    end.
End Canon.

Definition errkind_name (k : errkind) : string :=
  match k with
  | EArity => "ArityMismatch" | EType => "TypeMismatch" | EGeneric => "Generic"
  | EFree => "FreeIdentifier" | EBadSyntax => "BadSyntax"
  end.

Definition render_unit (st : state) (r : unit_result) : string :=
  match r with
  | UOk vs => (* void results are dropped: the engine may split one form into several (lifted
                 closures), so only the non-void values are comparable position by position *)
              "OK " ++ join " | " (filter (fun s => negb (String.eqb s "#<void>")) (map (canon (store st) 400) vs))
  | UErr k _ => "ERR " ++ errkind_name k
  | UFuel => "FUEL"
  end.

(* one-line rendering: units separated by " ;; ", newlines of the output escaped *)
Fixpoint esc_nl (s : string) : string :=
  match s with
  | EmptyString => ""
  | String c r =>
    let n := nat_of_ascii c in
    (if Nat.eqb n 10 then "\n" else if Nat.eqb n 92 then "\\" else if Nat.eqb n 13 then "\r" else String c "") ++ esc_nl r
  end.

(* the values of a unit are rendered when the unit has finished (as the harness does), with the store of
   that moment: a later unit may mutate a vector / box that an earlier unit returned *)
Fixpoint run_history_rendered (fuel : nat) (units : list (list expr)) (st : state) : list string * state :=
  match units with
  | [] => ([], st)
  | u :: r =>
    let '(res, st') := run_unit fuel u st in
    let '(rs, st'') := run_history_rendered fuel r st' in
    (render_unit st' res :: rs, st'')
  end.

Definition render_history (fuel : nat) (units : list (list expr)) : string :=
  let '(rs, st) := run_history_rendered fuel units init_state in
  join " ;; " rs ++ " ;; OUT " ++ esc_nl (String.concat "" (rev (out st))).
