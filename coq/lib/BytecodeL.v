(* BytecodeL — compiler for lib/CoreL.v (converted language + in-place assignment of un-captured locals)
   to the instruction set of lib/Bytecode.v, run on the heap VM [S] of lib/BytecodeS.v.
   [LSetL x e] on a stack slot is SETLOCAL i (code_gen.rs visit_set: Local | LetVar => SETLOCAL,
   vm.rs:4688 handle_set_local: the slot is overwritten, the OLD value is pushed). *)
From Coq Require Import ZArith List Bool String Lia Arith.
From SV Require Import lib.Lang lib.Core lib.CoreS lib.CoreL lib.Bytecode lib.BytecodeS.
Import ListNotations.
Open Scope list_scope.

Module L.

Fixpoint lfv (x : ident) (e : lexpr) : bool :=
  match e with
  | LConst _ => false
  | LVar y => String.eqb x y
  | LLam ps rest body => negb (memb x (params ps rest)) && lfv x body
  | LApp f args => (fix go (es : list lexpr) : bool :=
                      match es with [] => false | a :: r => lfv x a || go r end) args || lfv x f
  | LIf c t e' => lfv x c || lfv x t || lfv x e'
  | LLet bs body => (fix go (bs : list (ident * lexpr)) : bool :=
                       match bs with [] => false | (_, a) :: r => lfv x a || go r end) bs
                    || (negb (memb x (map fst bs)) && lfv x body)
  | LSeq e1 e2 => lfv x e1 || lfv x e2
  | LSetG g e' => String.eqb x g || lfv x e'
  | LSetL y e' => String.eqb x y || lfv x e'
  end.

Fixpoint lfv_list (x : ident) (es : list lexpr) : bool :=
  match es with [] => false | a :: r => lfv x a || lfv_list x r end.

Definition lcaptured (ce : cenv) (ps : list ident) (body : lexpr) : list ident :=
  filter (fun x => lfv x body && negb (memb x ps)) (rev (map fst ce)).

Section Compile.
  Variable tco : bool.

  Fixpoint compile (ce : cenv) (d : nat) (tail : bool) (e : lexpr) {struct e} : list instr :=
    match e with
    | LConst c => [PUSHCONST c]
    | LVar x => [match Core.lookup x ce with
                 | Some (Slot i) => READLOCAL i
                 | Some (Cap j) => READCAPTURED j
                 | None => PUSH x
                 end]
    | LLam ps rest body =>
        let xs := params ps rest in
        let fs := lcaptured ce xs body in
        [MKCLOSURE (List.length xs) (match rest with Some _ => true | None => false end)
                   (map (capsrc_of ce) fs)
                   (compile (body_cenv xs fs) (List.length xs) tco body ++ [POPPURE])]
    | LApp f args =>
        (fix go (d : nat) (es : list lexpr) : list instr :=
           match es with [] => [] | a :: r => compile ce d false a ++ go (S d) r end) d args
        ++ compile ce (d + List.length args) false f
        ++ [if tail then TAILCALL (List.length args) else FUNC (List.length args)]
    | LIf c t e' =>
        let ct := compile ce d tail t in
        let ce' := compile ce d tail e' in
        compile ce d false c ++ [IF (List.length ct + 2)] ++ ct ++ [JMP (List.length ce' + 1)] ++ ce'
    | LLet bs body =>
        BEGINSCOPE ::
        (fix go (d : nat) (bs : list (ident * lexpr)) : list instr :=
           match bs with [] => [] | (_, a) :: r => compile ce d false a ++ go (S d) r end) d bs
        ++ compile (bind_slots (map fst bs) d ce) (d + List.length bs) tail body
        ++ [LETENDSCOPE d]
    | LSeq e1 e2 => compile ce d false e1 ++ [POPSINGLE] ++ compile ce d tail e2
    | LSetG g e' => compile ce d false e' ++ [SET g]
    | LSetL x e' => compile ce d false e' ++
                    [match Core.lookup x ce with
                     | Some (Slot i) => SETLOCAL i
                     | _ => SET x          (* not a stack slot: excluded by [wf] *)
                     end]
    end.

  Fixpoint compile_list (ce : cenv) (d : nat) (es : list lexpr) : list instr :=
    match es with
    | [] => []
    | a :: r => compile ce d false a ++ compile_list ce (S d) r
    end.

  Definition compile_top (e : lexpr) : list instr := compile [] 0 false e ++ [POPPURE].
  Definition compile_define (x : ident) (e : lexpr) : list instr :=
    compile [] 0 false e ++ [BIND x; PUSHCONST KVoid; POPPURE].
End Compile.

(* static well-formedness w.r.t. the compile-time environment, following [compile] (same cenv, same depth):
   - LSetL targets a stack slot of the current frame;
   - let binders / parameters do not shadow visible locals (the engine renames shadowed binders apart:
     compiler/passes/shadow.rs) *)
Definition disjointb (xs : list ident) (ce : cenv) : bool :=
  forallb (fun x => match Core.lookup x ce with None => true | Some _ => false end) xs.

Fixpoint wf (ce : cenv) (d : nat) (e : lexpr) {struct e} : bool :=
  match e with
  | LConst _ | LVar _ => true
  | LLam ps rest body =>
      let xs := params ps rest in
      wf (body_cenv xs (lcaptured ce xs body)) (List.length xs) body
  | LApp f args => (fix go (d : nat) (es : list lexpr) : bool :=
                      match es with [] => true | a :: r => wf ce d a && go (S d) r end) d args
                   && wf ce (d + List.length args) f
  | LIf c t e' => wf ce d c && wf ce d t && wf ce d e'
  | LLet bs body =>
      (fix go (d : nat) (bs : list (ident * lexpr)) : bool :=
         match bs with [] => true | (_, a) :: r => wf ce d a && go (S d) r end) d bs
      && disjointb (map fst bs) ce
      && wf (bind_slots (map fst bs) d ce) (d + List.length bs) body
  | LSeq e1 e2 => wf ce d e1 && wf ce d e2
  | LSetG _ e' => wf ce d e'
  | LSetL x e' => (match Core.lookup x ce with Some (Slot _) => true | _ => false end) && wf ce d e'
  end.

Fixpoint wf_list (ce : cenv) (d : nat) (es : list lexpr) : bool :=
  match es with [] => true | a :: r => wf ce d a && wf_list ce (S d) r end.

(* ------------------------------------------------------------------ running programs on the heap VM *)
Section RunProgram.
  Variable limit : nat.
  Variable tco : bool.
  Variable opt : bool.

  Definition finish (c : list instr) : list instr := if opt then peephole c else c.

  Fixpoint vm_defs (fuel : nat) (g : list (ident * S.mval)) (h : list S.mval) (ds : list (ident * lexpr))
    : S.run_result + (list (ident * S.mval) * list S.mval) :=
    match ds with
    | [] => inr (g, h)
    | (x, e) :: r =>
      match S.vm_run limit fuel (S.init_vm (finish (compile_define tco x e)) g h) with
      | S.RDone _ s => vm_defs fuel (S.globals s) (S.heap s) r
      | other => inl other
      end
    end.

  Definition vm_program (fuel : nat) (ds : list (ident * lexpr)) (main : lexpr) : S.run_result :=
    match vm_defs fuel S.prim_globals [] ds with
    | inl r => r
    | inr (g, h) => S.vm_run limit fuel (S.init_vm (finish (compile_top tco main)) g h)
    end.
End RunProgram.

Definition conv_defs (ds : list (ident * sexpr)) : list (ident * lexpr) :=
  map (fun d => (fst d, assign_convertL (snd d))) ds.

Definition wf_program (ds : list (ident * lexpr)) (main : lexpr) : bool :=
  forallb (fun d => wf [] 0 (snd d)) ds && wf [] 0 main.

Open Scope string_scope.
Definition unit_render_conv (fuel : nat) (forms : list Lang.expr) : string :=
  match ssplit_unit forms with
  | Some (ds, ms) => render_lresult (lrun_program fuel (conv_defs ds) (assign_convertL (sseq_of ms)))
  | None => "UNSUPPORTED"
  end.

Definition unit_render_vm (limit : nat) (tco opt : bool) (fuel : nat) (forms : list Lang.expr) : string :=
  match ssplit_unit forms with
  | Some (ds, ms) => S.render_run (vm_program limit tco opt fuel (conv_defs ds) (assign_convertL (sseq_of ms)))
  | None => "UNSUPPORTED"
  end.

(* is the converted unit inside the fragment of C01_simulation_setlocal (no shadowing, LSetL on slots)? *)
Definition unit_wf (forms : list Lang.expr) : string :=
  match ssplit_unit forms with
  | Some (ds, ms) => if wf_program (conv_defs ds) (assign_convertL (sseq_of ms)) then "WF" else "NOT-WF"
  | None => "UNSUPPORTED"
  end.
Close Scope string_scope.

End L.
