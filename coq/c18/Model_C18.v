(* C18 — iterative work-list algorithms over values.  Definitions only.

   Mirrors (steel-core, crates/steel-core/src):
   * rvals/cycles.rs  drop_impls (Drop for SteelVector / SteelHashMap / UserDefinedStruct / LazyStream / ByteCodeLambda)
                      + IterativeDropHandler::visit : `while let Some(value) = self.pop_front()` — a value whose
                      reference count is 1 (`try_unwrap` / `get_mut` succeeds) is taken apart and its children are
                      pushed on DROP_BUFFER (a VecDeque), otherwise only the count is decremented
   * rvals/cycles.rs  RecursiveEqualityHandler::visit : two queues popped in lock step + `visited` set of
                      (left, right) identity pairs
   * rvals/cycles.rs  CycleCollector (visited set + Vec used as a stack) : first pass of the printer
   * values/closed.rs MarkAndSweepContext : marking with a queue
   Every loop below is a single tail-recursive function over an explicit queue plus fuel: no recursion on the
   depth of the value, which is what "native stack use independent of depth" means for the model.  Which arms of
   the implementation really push to a queue is a generated fact (gen/Gen_C18.v). *)
From Coq Require Import List Arith Lia Bool Permutation.
From Coq Require String.
Import ListNotations.

(* ---- A. unshared values: trees --------------------------------------------------------------------- *)
Inductive tree := Node (label : nat) (kids : list tree).

Fixpoint tsize (t : tree) : nat := match t with Node _ ks => S (list_sum (map tsize ks)) end.
Definition qsize (q : list tree) : nat := list_sum (map tsize q).

(* naive recursive specifications: what native recursion (compiler-generated drop glue, recursive Display) does *)
Fixpoint nodes (t : tree) : list nat := match t with Node a ks => a :: flat_map nodes ks end.

Inductive tok := TOpen (a : nat) | TClose | TRef (n : nat).
Fixpoint render (t : tree) : list tok := match t with Node a ks => TOpen a :: flat_map render ks ++ [TClose] end.

(* work-list drop: IterativeDropHandler::visit with pop_front / push_back *)
Fixpoint drop_wl (fuel : nat) (q : list tree) : list nat :=
  match fuel with
  | 0 => []
  | S f => match q with
           | [] => []
           | Node a ks :: q' => a :: drop_wl f (q' ++ ks)
           end
  end.

(* work-list count of the nodes (size) *)
Fixpoint size_wl (fuel : nat) (q : list tree) (acc : nat) : nat :=
  match fuel with
  | 0 => acc
  | S f => match q with
           | [] => acc
           | Node _ ks :: q' => size_wl f (ks ++ q') (S acc)
           end
  end.

(* work-list printer: explicit stack of work items instead of recursive calls *)
Inductive item := IVisit (t : tree) | IEmit (k : tok).
Definition denote (i : item) : list tok := match i with IVisit t => render t | IEmit k => [k] end.
Definition iwork (i : item) : nat := match i with IVisit t => 2 * tsize t | IEmit _ => 1 end.
Definition swork (s : list item) : nat := list_sum (map iwork s).

Fixpoint print_wl (fuel : nat) (s : list item) : list tok :=
  match fuel with
  | 0 => []
  | S f => match s with
           | [] => []
           | IEmit k :: s' => k :: print_wl f s'
           | IVisit (Node a ks) :: s' => TOpen a :: print_wl f (map IVisit ks ++ IEmit TClose :: s')
           end
  end.

(* ---- B. shared / cyclic values: graphs with reference counts ------------------------------------------ *)
Definition edges := list (nat * nat).                     (* multiset of references m -> n *)
Definition children (E : edges) (n : nat) : list nat := map snd (filter (fun e => fst e =? n) E).

Definition upd {A} (f : nat -> A) (n : nat) (x : A) : nat -> A := fun m => if m =? n then x else f m.

Record dstate := mkD { rc : nat -> nat; rel : nat -> bool }.   (* strong counts, released flags *)

(* the drop loop under a queue policy: FIFO (VecDeque push_back, the implementation) or LIFO (what native
   recursion does with its call stack) or anything in between *)
Definition policy_t := list nat -> list nat -> list nat.
Definition fifo : policy_t := fun q cs => q ++ cs.
Definition lifo : policy_t := fun q cs => cs ++ q.

Fixpoint drop_loop (policy : policy_t) (fuel : nat) (E : edges) (q : list nat) (s : dstate) : option dstate :=
  match q with
  | [] => Some s
  | n :: q' =>
    match fuel with
    | 0 => None
    | S f =>
      match rc s n with
      | 0 => None                                      (* a reference to a freed object *)
      | 1 => drop_loop policy f E (policy q' (children E n)) (mkD (upd (rc s) n 0) (upd (rel s) n true))
      | S (S k) => drop_loop policy f E q' (mkD (upd (rc s) n (S k)) (rel s))
      end
    end
  end.

Definition cnt (E : edges) (m n : nat) : nat := length (filter (fun e => (fst e =? m) && (snd e =? n)) E).
Definition indeg_live (E : edges) (s : dstate) (n : nat) : nat :=
  length (filter (fun e => (snd e =? n) && negb (rel s (fst e))) E).
Definition pending (q : list nat) (n : nat) : nat := count_occ Nat.eq_dec q n.
Definition live_edges (E : edges) (s : dstate) : nat := length (filter (fun e => negb (rel s (fst e))) E).

(* counts are exact: external references + references from live objects + references waiting in the queue *)
Definition DInv (V : list nat) (E : edges) (ext : nat -> nat) (q : list nat) (s : dstate) : Prop :=
  forall n,
    (rel s n = false -> rc s n = ext n + indeg_live E s n + pending q n) /\
    (rel s n = true -> rc s n = 0 /\ ext n = 0 /\ indeg_live E s n = 0 /\ pending q n = 0) /\
    (In n V -> rel s n = false -> 1 <= rc s n).

Inductive reach (E : edges) (ext : nat -> nat) : nat -> Prop :=
| reach_root : forall n, 0 < ext n -> reach E ext n
| reach_step : forall m n, reach E ext m -> In (m, n) E -> reach E ext n.

Definition closedV (V : list nat) (E : edges) : Prop := forall m n, In (m, n) E -> In m V /\ In n V.
Definition acyclic (E : edges) (rank : nat -> nat) : Prop := forall m n, In (m, n) E -> rank n < rank m.

(* the state before `drop(r)`: nothing released, counts exact, every object referenced *)
Definition start_ok (V : list nat) (E : edges) (ext0 : nat -> nat) (s : dstate) : Prop :=
  (forall n, rel s n = false) /\ (forall n, rc s n = ext0 n + length (filter (fun e => snd e =? n) E)) /\
  (forall n, In n V -> 1 <= rc s n).
Definition dec_ext (ext0 : nat -> nat) (r : nat) : nat -> nat := upd ext0 r (ext0 r - 1).

(* ---- C. marking with a visited set (cycles allowed), generic in the node type ---------------------------- *)
Section Mark.
  Context {A : Type} (eqb : A -> A -> bool).
  Definition mem (x : A) (l : list A) : bool := existsb (eqb x) l.

  (* CycleCollector / MarkAndSweepContext: pop; if already visited skip, else record and push the children *)
  Fixpoint mark_loop (fuel : nat) (succ : A -> list A) (q : list A) (vis : list A) : option (list A) :=
    match q with
    | [] => Some vis
    | n :: q' =>
      match fuel with
      | 0 => None
      | S f => if mem n vis then mark_loop f succ q' vis else mark_loop f succ (succ n ++ q') (n :: vis)
      end
    end.

  (* measure: queue length + out-degree of the nodes of the universe U not yet visited, + 1 for each *)
  Definition unvis_work (succ : A -> list A) (U : list A) (vis : list A) : nat :=
    list_sum (map (fun n => if mem n vis then 0 else S (length (succ n))) U).
End Mark.

(* equality of two graphs as marking of the product graph with a label check:
   RecursiveEqualityHandler::visit — pop a pair; already expanded -> continue; labels / arities differ -> false;
   else record the pair and push the pairs of children *)
Definition pair_eqb (p q : nat * nat) : bool := (fst p =? fst q) && (snd p =? snd q).

Fixpoint eq_loop (fuel : nat) (lab1 lab2 : nat -> nat) (ch1 ch2 : nat -> list nat)
         (q : list (nat * nat)) (vis : list (nat * nat)) : option bool :=
  match q with
  | [] => Some true
  | (a, b) :: q' =>
    match fuel with
    | 0 => None
    | S f =>
      if mem pair_eqb (a, b) vis then eq_loop f lab1 lab2 ch1 ch2 q' vis
      else if negb ((lab1 a =? lab2 b) && (length (ch1 a) =? length (ch2 b))) then Some false
      else eq_loop f lab1 lab2 ch1 ch2 (combine (ch1 a) (ch2 b) ++ q') ((a, b) :: vis)
    end
  end.

Definition pair_succ (ch1 ch2 : nat -> list nat) (p : nat * nat) : list (nat * nat) := combine (ch1 (fst p)) (ch2 (snd p)).

(* cycle-aware printer, second pass: a node already printed (or being printed) is emitted as a back reference *)
Inductive gitem := GVisit (n : nat) | GEmit (k : tok).

Fixpoint printc_loop (fuel : nat) (lab : nat -> nat) (ch : nat -> list nat) (s : list gitem) (vis : list nat)
  : option (list tok) :=
  match s with
  | [] => Some []
  | i :: s' =>
    match fuel with
    | 0 => None
    | S f =>
      match i with
      | GEmit k => option_map (cons k) (printc_loop f lab ch s' vis)
      | GVisit n =>
          if mem Nat.eqb n vis then option_map (cons (TRef n)) (printc_loop f lab ch s' vis)
          else option_map (cons (TOpen (lab n))) (printc_loop f lab ch (map GVisit (ch n) ++ GEmit TClose :: s') (n :: vis))
      end
    end
  end.

Definition gwork (ch : nat -> list nat) (U vis : list nat) (s : list gitem) : nat :=
  length s + 2 * unvis_work Nat.eqb ch U vis.

(* ---- D. which arms of the implementation recurse natively (expected; compared with gen/Gen_C18.v) ------- *)
Import String.
Open Scope string_scope.
(* (operation, kind) pairs whose visitor arm is an unbounded native recursion on the pinned tree:
   - hashing (impl Hash for SteelVal) recurses through every container kind;
   - format_with_cycles formats hash maps, hash sets and `Boxed` through Debug/Display of the nested value, which
     starts a fresh detector with depth 0 (the other container arms recurse under the depth > 128 guard);
   - the equality arms of transducers, reducers, syntax objects expand without the visited check (equal_guard). *)
Definition expected_rec : list (string * string) := [
  ("equal_guard", "IterV"); ("equal_guard", "ReducerV"); ("equal_guard", "SyntaxObject");
  ("print_format", "HashMapV"); ("print_format", "HashSetV"); ("print_format", "Boxed");
  ("hash", "VectorV"); ("hash", "HashMapV"); ("hash", "HashSetV"); ("hash", "CustomStruct");
  ("hash", "IterV"); ("hash", "ReducerV"); ("hash", "ListV"); ("hash", "Pair"); ("hash", "MutableVector");
  ("hash", "SyntaxObject"); ("hash", "Boxed"); ("hash", "HeapAllocated")
].
(* arms that must push to a queue (a `Missing` or `Leaf` here would mean nested values are not traversed) *)
Definition expected_queue_drop : list string :=
  ["Closure"; "VectorV"; "HashMapV"; "HashSetV"; "CustomStruct"; "IterV"; "ReducerV"; "StreamV"; "ContinuationFunction";
   "ListV"; "Pair"; "BoxedIterator"; "SyntaxObject"; "Boxed"].
Definition expected_drop_entry : list string := ["VectorV"; "HashMapV"; "CustomStruct"; "StreamV"; "Closure"; "Pair"].
Close Scope string_scope.
