(* Compiled on every run of the C18 check: pins each statement and prints its assumptions. *)
From Coq Require Import String List Arith Bool Permutation.
From SV Require Import c18.Model_C18 gen.Gen_C18 c18.Proofs_C18 c18.Properties_C18.
Import ListNotations.
Open Scope string_scope.

Check (C18_worklist_eq_recursive_drop : forall fuel q, qsize q <= fuel -> Permutation (drop_wl fuel q) (flat_map nodes q)).
Check (C18_worklist_eq_recursive_size : forall fuel q acc, qsize q <= fuel -> size_wl fuel q acc = acc + qsize q).
Check (C18_worklist_eq_recursive_print : forall fuel s, swork s <= fuel -> print_wl fuel s = flat_map denote s).
Check (C18_drop_all : forall policy, (forall q cs, Permutation (policy q cs) (cs ++ q)) ->
  forall V E ext0 s r rank B,
  closedV V E -> acyclic E rank -> (forall x, In x V -> rank x <= B) ->
  start_ok V E ext0 s -> 1 <= ext0 r ->
  exists s', drop_loop policy (S (length E)) E [r] s = Some s' /\
    forall n, In n V -> (rel s' n = true <-> ~ reach E (dec_ext ext0 r) n)).
Check (C18_worklist_eq_recursive_drop_shared : forall V E ext0 s r rank B,
  closedV V E -> acyclic E rank -> (forall x, In x V -> rank x <= B) ->
  start_ok V E ext0 s -> 1 <= ext0 r ->
  exists s1 s2, drop_loop fifo (S (length E)) E [r] s = Some s1 /\ drop_loop lifo (S (length E)) E [r] s = Some s2 /\
    forall n, In n V -> rel s1 n = rel s2 n).
Check (C18_drop_terminates_cyclic : forall policy, (forall q cs, Permutation (policy q cs) (cs ++ q)) ->
  forall V E ext0 s r, start_ok V E ext0 s -> 1 <= ext0 r ->
  exists s', drop_loop policy (S (length E)) E [r] s = Some s' /\
    (forall n, reach E (dec_ext ext0 r) n -> rel s' n = false)).
Check (C18_mark_terminates : forall (A : Type) (eqb : A -> A -> bool), (forall x y, eqb x y = true <-> x = y) ->
  forall succ U, (forall x y, In x U -> In y (succ x) -> In y U) ->
  forall fuel q vis, (forall x, In x q -> In x U) -> length q + unvis_work eqb succ U vis <= fuel ->
  exists r, mark_loop eqb fuel succ q vis = Some r).
Check (C18_mark_reachable : forall (A : Type) (eqb : A -> A -> bool), (forall x y, eqb x y = true <-> x = y) ->
  forall succ q0 fuel r, mark_loop eqb fuel succ q0 [] = Some r ->
  forall x, In x r <-> reachA succ q0 x).
Check (C18_eq_terminates : forall lab1 lab2 ch1 ch2 U,
  (forall x y, In x U -> In y (pair_succ ch1 ch2 x) -> In y U) ->
  forall q, (forall x, In x q -> In x U) ->
  exists b, eq_loop (length q + unvis_work pair_eqb (pair_succ ch1 ch2) U []) lab1 lab2 ch1 ch2 q [] = Some b).
Check (C18_print_terminates : forall lab ch U, (forall x y, In x U -> In y (ch x) -> In y U) ->
  forall fuel s vis, (forall n, In (GVisit n) s -> In n U) -> gwork ch U vis s <= fuel ->
  exists out, printc_loop fuel lab ch s vis = Some out).
Check (C18_recursive_arms_listed : rec_arms arm_table = expected_rec).
Check (C18_drop_arms_queue : all_queue arm_table "drop" expected_queue_drop = true /\ all_queue arm_table "drop_entry" expected_drop_entry = true /\
  format_depth_guarded = true).
Check (C18_nonvacuous :
  (* a shared DAG  0 -> 1, 0 -> 2, 1 -> 3, 2 -> 3, 4 -> 3 with external references to 0 and 4: dropping 0 releases
     0, 1, 2 and keeps 3 (still referenced by 4); a two-node cycle printed with a back reference; equal? of two
     one-node cycles *)
  (match drop_loop fifo 6 [(0,1); (0,2); (1,3); (2,3); (4,3)] [0]
           (mkD (fun n => match n with 0 => 1 | 1 => 1 | 2 => 1 | 3 => 3 | 4 => 1 | _ => 0 end) (fun _ => false)) with
   | Some s' => map (rel s') [0; 1; 2; 3; 4] = [true; true; true; false; false] /\ rc s' 3 = 1
   | None => False end) /\
  printc_loop 10 (fun n => n) (fun n => match n with 0 => [1] | 1 => [0] | _ => [] end) [GVisit 0] []
    = Some [TOpen 0; TOpen 1; TRef 0; TClose; TClose] /\
  eq_loop 5 (fun _ => 7) (fun _ => 7) (fun _ => [0]) (fun _ => [0]) [(0, 0)] [] = Some true).

Print Assumptions C18_worklist_eq_recursive_drop.
Print Assumptions C18_worklist_eq_recursive_size.
Print Assumptions C18_worklist_eq_recursive_print.
Print Assumptions C18_drop_all.
Print Assumptions C18_worklist_eq_recursive_drop_shared.
Print Assumptions C18_drop_terminates_cyclic.
Print Assumptions C18_mark_terminates.
Print Assumptions C18_mark_reachable.
Print Assumptions C18_eq_terminates.
Print Assumptions C18_print_terminates.
Print Assumptions C18_recursive_arms_listed.
Print Assumptions C18_drop_arms_queue.
Print Assumptions C18_nonvacuous.
