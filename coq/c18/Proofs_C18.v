(* C18 — lemmas: work list = naive recursion on trees; reference-count drop releases exactly the unreachable
   nodes under any queue policy; fuel bounds on cyclic graphs; the generated arm table. *)
From Coq Require Import List Arith Lia Bool Permutation.
From Coq Require String.
From SV Require Import c18.Model_C18 gen.Gen_C18.
Import ListNotations.

(* ==== A. trees ======================================================================================== *)
Lemma tsize_pos : forall t, 1 <= tsize t.
Proof. destruct t; cbn; lia. Qed.

Lemma qsize_app : forall a b, qsize (a ++ b) = qsize a + qsize b.
Proof. intros. unfold qsize. rewrite map_app, list_sum_app. reflexivity. Qed.

Lemma qsize_zero : forall q, qsize q = 0 -> q = [].
Proof. destruct q as [|t q]; auto. unfold qsize; cbn. pose proof (tsize_pos t). lia. Qed.

Lemma qsize_cons : forall a ks q, qsize (Node a ks :: q) = S (qsize ks + qsize q).
Proof. intros. unfold qsize, list_sum. cbn [map tsize fold_right]. unfold list_sum. lia. Qed.

Lemma drop_wl_perm : forall fuel q, qsize q <= fuel -> Permutation (drop_wl fuel q) (flat_map nodes q).
Proof.
  induction fuel as [|f IH]; intros q H.
  - assert (q = []) by (apply qsize_zero; lia). subst. constructor.
  - destruct q as [|[a ks] q']; [constructor|].
    cbn [drop_wl flat_map nodes]. cbn [app]. apply perm_skip.
    rewrite (IH (q' ++ ks)).
    + rewrite flat_map_app. apply Permutation_app_comm.
    + rewrite qsize_app. rewrite qsize_cons in H. lia.
Qed.

Lemma size_wl_correct : forall fuel q acc, qsize q <= fuel -> size_wl fuel q acc = acc + qsize q.
Proof.
  induction fuel as [|f IH]; intros q acc H.
  - assert (q = []) by (apply qsize_zero; lia). subst. cbn. unfold qsize; cbn; lia.
  - destruct q as [|[a ks] q']. { cbn. unfold qsize; cbn; lia. }
    cbn [size_wl]. rewrite qsize_cons in *. rewrite IH.
    + rewrite qsize_app. lia.
    + rewrite qsize_app. lia.
Qed.

Lemma denote_visits : forall ks, flat_map denote (map IVisit ks) = flat_map render ks.
Proof. induction ks; cbn; auto. rewrite IHks. reflexivity. Qed.

Lemma swork_app : forall a b, swork (a ++ b) = swork a + swork b.
Proof. intros. unfold swork. rewrite map_app, list_sum_app. reflexivity. Qed.

Lemma swork_cons : forall i s, swork (i :: s) = iwork i + swork s.
Proof. intros. unfold swork, list_sum. cbn [map fold_right]. reflexivity. Qed.

Lemma qsize_cons' : forall t q, qsize (t :: q) = tsize t + qsize q.
Proof. intros. unfold qsize, list_sum. cbn [map fold_right]. reflexivity. Qed.

Lemma swork_visits : forall ks, swork (map IVisit ks) = 2 * qsize ks.
Proof.
  induction ks as [|t ks IH]. { reflexivity. }
  cbn [map]. rewrite swork_cons, qsize_cons', IH. cbn [iwork]. lia.
Qed.

Lemma tsize_node : forall a ks, tsize (Node a ks) = S (qsize ks).
Proof. reflexivity. Qed.

Lemma print_wl_correct : forall fuel s, swork s <= fuel -> print_wl fuel s = flat_map denote s.
Proof.
  induction fuel as [|f IH]; intros s H.
  - destruct s as [|i s]; auto. exfalso. rewrite swork_cons in H.
    destruct i as [t|k]; cbn [iwork] in H; [pose proof (tsize_pos t)|]; lia.
  - destruct s as [|[[a ks]|k] s']; auto.
    + cbn [print_wl]. rewrite swork_cons in H. cbn [iwork] in H. rewrite tsize_node in H. rewrite IH.
      * rewrite flat_map_app, denote_visits. cbn. rewrite <- app_assoc. reflexivity.
      * rewrite swork_app, swork_visits, swork_cons. cbn [iwork]. lia.
    + cbn [print_wl]. rewrite swork_cons in H. cbn [iwork] in H. rewrite IH; auto. lia.
Qed.

(* ==== B. reference-count drop on graphs ================================================================ *)
Lemma filter_len_cons : forall {A} (f : A -> bool) x l,
  length (filter f (x :: l)) = (if f x then 1 else 0) + length (filter f l).
Proof. intros. cbn. destruct (f x); reflexivity. Qed.

Lemma count_children : forall E n m, count_occ Nat.eq_dec (children E n) m = cnt E n m.
Proof.
  induction E as [|[a b] E IH]; intros n m; [reflexivity|].
  unfold children, cnt in *. cbn [filter fst snd].
  destruct (a =? n) eqn:An; cbn [andb map].
  - cbn [count_occ snd]. destruct (Nat.eq_dec b m) as [->|Hne].
    + rewrite Nat.eqb_refl. cbn [length]. f_equal. apply IH.
    + apply Nat.eqb_neq in Hne. rewrite Hne. apply IH.
  - apply IH.
Qed.

Lemma indeg_release : forall E s s' n m,
  rel s n = false -> (forall x, rel s' x = upd (rel s) n true x) ->
  indeg_live E s m = indeg_live E s' m + cnt E n m.
Proof.
  induction E as [|[a b] E IH]; intros s s' n m Hn Hs; [reflexivity|].
  unfold indeg_live, cnt in *. rewrite !filter_len_cons. cbn [fst snd].
  rewrite (IH s s' n m Hn Hs). rewrite Hs. unfold upd.
  destruct (a =? n) eqn:An.
  - apply Nat.eqb_eq in An. subst a. rewrite Hn. cbn. destruct (b =? m); cbn; lia.
  - cbn. destruct ((b =? m) && negb (rel s a)); lia.
Qed.

Lemma live_edges_release : forall E s s' n,
  rel s n = false -> (forall x, rel s' x = upd (rel s) n true x) ->
  live_edges E s = live_edges E s' + length (children E n).
Proof.
  induction E as [|[a b] E IH]; intros s s' n Hn Hs; [reflexivity|].
  unfold live_edges, children in *. rewrite !filter_len_cons. cbn [fst snd filter].
  rewrite (IH s s' n Hn Hs). rewrite Hs. unfold upd.
  destruct (a =? n) eqn:An.
  - apply Nat.eqb_eq in An. subst a. rewrite Hn. cbn. lia.
  - cbn. destruct (negb (rel s a)); lia.
Qed.

Lemma pending_cons_ne : forall n q m, m <> n -> pending (n :: q) m = pending q m.
Proof. intros. unfold pending. cbn. destruct (Nat.eq_dec n m); [subst; contradiction|reflexivity]. Qed.

Lemma pending_cons_eq : forall n q, pending (n :: q) n = S (pending q n).
Proof. intros. unfold pending. cbn. destruct (Nat.eq_dec n n); [reflexivity|contradiction]. Qed.

Section Drop.
  Variable policy : policy_t.
  Hypothesis policy_perm : forall q cs, Permutation (policy q cs) (cs ++ q).
  Variables (V : list nat) (E : edges) (ext : nat -> nat).

  Lemma pending_policy : forall q cs m, pending (policy q cs) m = count_occ Nat.eq_dec cs m + pending q m.
  Proof.
    intros. unfold pending.
    rewrite (proj1 (Permutation_count_occ Nat.eq_dec _ _) (policy_perm q cs) m).
    apply count_occ_app.
  Qed.

  Lemma drop_loop_ok : forall fuel q s,
    DInv V E ext q s -> length q + live_edges E s <= fuel ->
    exists s', drop_loop policy fuel E q s = Some s' /\ DInv V E ext [] s'.
  Proof.
    induction fuel as [|f IH]; intros q s HI Hf.
    - destruct q; [|cbn in Hf; lia]. exists s; split; auto.
    - destruct q as [|n q']. { exists s; split; auto. }
      cbn [drop_loop].
      destruct (HI n) as (Hl & Hr & Hp).
      assert (Hlive : rel s n = false).
      { destruct (rel s n) eqn:R; auto. destruct (Hr eq_refl) as (_ & _ & _ & Hpn).
        rewrite pending_cons_eq in Hpn. discriminate. }
      specialize (Hl Hlive). rewrite pending_cons_eq in Hl.
      destruct (rc s n) as [|[|k]] eqn:Rc; [lia| |].
      + (* last reference: release, push the children *)
        set (s' := mkD (upd (rc s) n 0) (upd (rel s) n true)).
        assert (Hs' : forall x, rel s' x = upd (rel s) n true x) by reflexivity.
        apply IH.
        * intro m. destruct (Nat.eq_dec m n) as [->|Hne].
          -- assert (Hz : indeg_live E s' n = 0 /\ cnt E n n = 0).
             { pose proof (indeg_release E s s' n n Hlive Hs'). lia. }
             repeat split.
             ++ intro H. cbn in H. unfold upd in H. rewrite Nat.eqb_refl in H. discriminate.
             ++ cbn. unfold upd. rewrite Nat.eqb_refl. reflexivity.
             ++ lia.
             ++ tauto.
             ++ rewrite pending_policy, count_children. lia.
             ++ intros _ H. cbn in H. unfold upd in H. rewrite Nat.eqb_refl in H. discriminate.
          -- destruct (HI m) as (Hl' & Hr' & Hp').
             assert (Hrel : rel s' m = rel s m).
             { cbn. unfold upd. apply Nat.eqb_neq in Hne. rewrite Hne. reflexivity. }
             assert (Hrc : rc s' m = rc s m).
             { cbn. unfold upd. apply Nat.eqb_neq in Hne. rewrite Hne. reflexivity. }
             pose proof (indeg_release E s s' n m Hlive Hs') as Hd.
             rewrite pending_cons_ne in Hl', Hr' by auto.
             rewrite Hrel, Hrc, pending_policy, count_children.
             repeat split.
             ++ intro H. specialize (Hl' H). lia.
             ++ apply Hr'; auto.
             ++ apply Hr'; auto.
             ++ destruct (Hr' H) as (_ & _ & ? & _). lia.
             ++ destruct (Hr' H) as (_ & _ & ? & ?). lia.
             ++ auto.
        * rewrite (Permutation_length (policy_perm _ _)), app_length.
          rewrite (live_edges_release E s s' n Hlive Hs') in Hf. cbn [length] in Hf. lia.
      + (* other references remain: decrement only *)
        set (s' := mkD (upd (rc s) n (S k)) (rel s)).
        apply IH.
        * intro m. destruct (Nat.eq_dec m n) as [->|Hne].
          -- split; [|split].
             ++ intros _. change (rc s' n) with (upd (rc s) n (S k) n). unfold upd. rewrite Nat.eqb_refl.
                change (indeg_live E s' n) with (indeg_live E s n). lia.
             ++ intro H. change (rel s' n) with (rel s n) in H. rewrite Hlive in H. discriminate.
             ++ intros _ _. change (rc s' n) with (upd (rc s) n (S k) n). unfold upd. rewrite Nat.eqb_refl. lia.
          -- destruct (HI m) as (Hl' & Hr' & Hp').
             rewrite pending_cons_ne in Hl', Hr' by auto.
             assert (Hrc : rc s' m = rc s m).
             { cbn. unfold upd. apply Nat.eqb_neq in Hne. rewrite Hne. reflexivity. }
             change (rel s' m) with (rel s m). change (indeg_live E s' m) with (indeg_live E s m).
             rewrite Hrc. repeat split; auto; apply Hr'; auto.
        * change (live_edges E s') with (live_edges E s). cbn [length] in Hf. lia.
  Qed.
End Drop.

(* ---- what the final state looks like ------------------------------------------------------------------- *)
Lemma filter_pos : forall {A} (f : A -> bool) l x, In x l -> f x = true -> 1 <= length (filter f l).
Proof.
  intros A f l x Hin Hf. assert (In x (filter f l)) by (apply filter_In; auto).
  destruct (filter f l); [contradiction | cbn; lia].
Qed.

Lemma filter_nonempty : forall {A} (f : A -> bool) l, 1 <= length (filter f l) -> exists x, In x l /\ f x = true.
Proof.
  intros A f l H. destruct (filter f l) as [|x r] eqn:F; [cbn in H; lia|].
  assert (In x (filter f l)) by (rewrite F; left; reflexivity). apply filter_In in H0. eauto.
Qed.

Section Final.
  Variables (V : list nat) (E : edges) (ext : nat -> nat) (s : dstate).
  Hypothesis HI : DInv V E ext [] s.

  Lemma no_live_to_released : forall m n, In (m, n) E -> rel s n = true -> rel s m = true.
  Proof.
    intros m n Hin Hn. destruct (HI n) as (_ & Hr & _). destruct (Hr Hn) as (_ & _ & Hd & _).
    destruct (rel s m) eqn:Rm; auto. exfalso.
    unfold indeg_live in Hd.
    pose proof (filter_pos (fun e => (snd e =? n) && negb (rel s (fst e))) E (m, n) Hin) as P.
    cbn in P. rewrite Nat.eqb_refl, Rm in P. specialize (P eq_refl). lia.
  Qed.

  Lemma reach_live : forall n, reach E ext n -> rel s n = false.
  Proof.
    induction 1 as [n Hr | m n Hm IH Hin].
    - destruct (rel s n) eqn:R; auto. destruct (HI n) as (_ & Hx & _). destruct (Hx R) as (_ & He & _). lia.
    - destruct (rel s n) eqn:R; auto. rewrite (no_live_to_released m n Hin R) in IH. discriminate.
  Qed.

  Lemma live_reach : forall rank B, closedV V E -> acyclic E rank -> (forall x, In x V -> rank x <= B) ->
    forall k n, In n V -> rel s n = false -> B - rank n <= k -> reach E ext n.
  Proof.
    intros rank B HV Hac HB. induction k as [|k IH]; intros n Hn Hl Hk.
    - destruct (HI n) as (Hl' & _ & Hp). specialize (Hl' Hl). specialize (Hp Hn Hl).
      unfold pending in Hl'. cbn in Hl'.
      destruct (ext n) eqn:Ex; [|apply reach_root; lia].
      assert (Hd : 1 <= indeg_live E s n) by lia. apply filter_nonempty in Hd.
      destruct Hd as ([m n'] & Hin & Hf). cbn in Hf. apply andb_true_iff in Hf. destruct Hf as [Hf1 _].
      apply Nat.eqb_eq in Hf1. subst n'. pose proof (Hac m n Hin). destruct (HV m n Hin) as [Hm _].
      pose proof (HB m Hm). lia.
    - destruct (HI n) as (Hl' & _ & Hp). specialize (Hl' Hl). specialize (Hp Hn Hl).
      unfold pending in Hl'. cbn in Hl'.
      destruct (ext n) eqn:Ex; [|apply reach_root; lia].
      assert (Hd : 1 <= indeg_live E s n) by lia. apply filter_nonempty in Hd.
      destruct Hd as ([m n'] & Hin & Hf). cbn in Hf. apply andb_true_iff in Hf. destruct Hf as [Hf1 Hf2].
      apply Nat.eqb_eq in Hf1. subst n'. apply negb_true_iff in Hf2.
      pose proof (Hac m n Hin). destruct (HV m n Hin) as [Hm _]. pose proof (HB m Hm).
      apply reach_step with (m := m); auto. apply IH; auto. lia.
  Qed.
End Final.

Lemma start_inv : forall V E ext0 s r, start_ok V E ext0 s -> 1 <= ext0 r -> DInv V E (dec_ext ext0 r) [r] s.
Proof.
  intros V E ext0 s r (Hrel & Hrc & Hpos) Hr n.
  assert (Hind : indeg_live E s n = length (filter (fun e => snd e =? n) E)).
  { unfold indeg_live. f_equal. apply filter_ext. intros e. rewrite Hrel. cbn. apply andb_true_r. }
  split; [|split].
  - intros _. rewrite Hrc, Hind. unfold dec_ext, upd, pending. cbn.
    destruct (Nat.eq_dec r n) as [->|Hne].
    + rewrite Nat.eqb_refl. lia.
    + assert (n =? r = false) by (apply Nat.eqb_neq; auto). rewrite H. lia.
  - intro H. rewrite Hrel in H. discriminate.
  - intros Hin _. auto.
Qed.

Lemma filter_len_le : forall {A} (f : A -> bool) l, length (filter f l) <= length l.
Proof. induction l as [|x l IH]; cbn; auto. destruct (f x); cbn; lia. Qed.

Lemma live_edges_le : forall E s, live_edges E s <= length E.
Proof. intros. unfold live_edges. apply filter_len_le. Qed.

(* drop_all, for any queue policy *)
Lemma drop_all_l : forall policy, (forall q cs, Permutation (policy q cs) (cs ++ q)) ->
  forall V E ext0 s r rank B,
  closedV V E -> acyclic E rank -> (forall x, In x V -> rank x <= B) ->
  start_ok V E ext0 s -> 1 <= ext0 r ->
  exists s', drop_loop policy (S (length E)) E [r] s = Some s' /\
    forall n, In n V -> (rel s' n = true <-> ~ reach E (dec_ext ext0 r) n).
Proof.
  intros policy Hpol V E ext0 s r rank B HV Hac HB Hst Hr.
  destruct (drop_loop_ok policy Hpol V E (dec_ext ext0 r) (S (length E)) [r] s) as (s' & Hrun & HI).
  - apply start_inv; auto.
  - pose proof (live_edges_le E s). cbn. lia.
  - exists s'. split; auto. intros n Hn. split.
    + intros Hrel Hreach. rewrite (reach_live V E _ s' HI n Hreach) in Hrel. discriminate.
    + intros Hnr. destruct (rel s' n) eqn:R; auto. exfalso. apply Hnr.
      apply (live_reach V E _ s' HI rank B HV Hac HB (B - rank n) n Hn R). lia.
Qed.

Lemma fifo_perm : forall q cs, Permutation (fifo q cs) (cs ++ q).
Proof. intros. unfold fifo. apply Permutation_app_comm. Qed.
Lemma lifo_perm : forall q cs, Permutation (lifo q cs) (cs ++ q).
Proof. intros. unfold lifo. apply Permutation_refl. Qed.

(* the queue (implementation) and the stack (native recursion order) release the same objects *)
Lemma drop_fifo_lifo_l : forall V E ext0 s r rank B,
  closedV V E -> acyclic E rank -> (forall x, In x V -> rank x <= B) ->
  start_ok V E ext0 s -> 1 <= ext0 r ->
  exists s1 s2, drop_loop fifo (S (length E)) E [r] s = Some s1 /\ drop_loop lifo (S (length E)) E [r] s = Some s2 /\
    forall n, In n V -> rel s1 n = rel s2 n.
Proof.
  intros V E ext0 s r rank B HV Hac HB Hst Hr.
  destruct (drop_all_l fifo fifo_perm V E ext0 s r rank B HV Hac HB Hst Hr) as (s1 & R1 & C1).
  destruct (drop_all_l lifo lifo_perm V E ext0 s r rank B HV Hac HB Hst Hr) as (s2 & R2 & C2).
  exists s1, s2. repeat split; auto. intros n Hn.
  specialize (C1 n Hn). specialize (C2 n Hn).
  destruct (rel s1 n), (rel s2 n); auto; exfalso.
  - assert (true = true) as T by reflexivity. apply C1 in T. assert (false = true -> False) by discriminate.
    destruct C2 as [_ C2]. specialize (C2 T). discriminate.
  - assert (true = true) as T by reflexivity. apply C2 in T. destruct C1 as [_ C1]. specialize (C1 T). discriminate.
Qed.

(* termination and memory safety on ANY graph (cycles included): the loop ends within |queue| + |E| steps and
   never meets a freed object; objects on a cycle are simply not released *)
Lemma drop_terminates_l : forall policy, (forall q cs, Permutation (policy q cs) (cs ++ q)) ->
  forall V E ext0 s r, start_ok V E ext0 s -> 1 <= ext0 r ->
  exists s', drop_loop policy (S (length E)) E [r] s = Some s' /\
    (forall n, reach E (dec_ext ext0 r) n -> rel s' n = false).
Proof.
  intros policy Hpol V E ext0 s r Hst Hr.
  destruct (drop_loop_ok policy Hpol V E (dec_ext ext0 r) (S (length E)) [r] s) as (s' & Hrun & HI).
  - apply start_inv; auto.
  - pose proof (live_edges_le E s). cbn. lia.
  - exists s'. split; auto. intros n Hn. eapply reach_live; eauto.
Qed.

(* ==== C. visited-set loops on cyclic graphs ================================================================ *)
Section MarkProofs.
  Context {A : Type} (eqb : A -> A -> bool).
  Hypothesis eqb_spec : forall x y, eqb x y = true <-> x = y.

  Lemma mem_In : forall x l, mem eqb x l = true <-> In x l.
  Proof.
    intros x l. unfold mem. rewrite existsb_exists. split.
    - intros (y & Hy & E). apply eqb_spec in E. subst. auto.
    - intro H. exists x. split; auto. apply eqb_spec. reflexivity.
  Qed.

  Lemma mem_cons_mono : forall x n l, mem eqb x l = true -> mem eqb x (n :: l) = true.
  Proof. intros. apply mem_In. right. apply mem_In. auto. Qed.

  Definition term (succ : A -> list A) (vis : list A) (n : A) : nat :=
    if mem eqb n vis then 0 else S (length (succ n)).

  Lemma term_mono : forall succ vis n x, term succ (n :: vis) x <= term succ vis x.
  Proof.
    intros. unfold term. destruct (mem eqb x vis) eqn:M.
    - rewrite mem_cons_mono; auto.
    - destruct (mem eqb x (n :: vis)); lia.
  Qed.

  Lemma sum_term_mono : forall succ vis n U,
    fold_right plus 0 (map (term succ (n :: vis)) U) <= fold_right plus 0 (map (term succ vis) U).
  Proof. induction U as [|y U IHU]; cbn; auto. pose proof (term_mono succ vis n y). lia. Qed.

  Lemma unvis_mark : forall succ U vis n, In n U -> mem eqb n vis = false ->
    unvis_work eqb succ U (n :: vis) + S (length (succ n)) <= unvis_work eqb succ U vis.
  Proof.
    intros succ U vis n. unfold unvis_work. fold (term succ vis). fold (term succ (n :: vis)).
    induction U as [|x U IH]; intros Hin Hm; [contradiction|].
    cbn [map list_sum fold_right]. unfold list_sum in *. cbn [map fold_right].
    destruct Hin as [->|Hin].
    - assert (T1 : term succ (n :: vis) n = 0).
      { unfold term. assert (mem eqb n (n :: vis) = true) by (apply mem_In; left; reflexivity). rewrite H. reflexivity. }
      assert (T2 : term succ vis n = S (length (succ n))) by (unfold term; rewrite Hm; reflexivity).
      rewrite T1, T2.
      pose proof (sum_term_mono succ vis n U). lia.
    - specialize (IH Hin Hm). pose proof (term_mono succ vis n x). lia.
  Qed.

  (* mark_terminates: explicit fuel bound |queue| + sum over the universe of (1 + out-degree) *)
  Lemma mark_terminates_l : forall succ U, (forall x y, In x U -> In y (succ x) -> In y U) ->
    forall fuel q vis, (forall x, In x q -> In x U) -> length q + unvis_work eqb succ U vis <= fuel ->
    exists r, mark_loop eqb fuel succ q vis = Some r.
  Proof.
    intros succ U Hcl. induction fuel as [|f IH]; intros q vis Hq Hf.
    - destruct q; [eexists; reflexivity | cbn in Hf; lia].
    - destruct q as [|n q']; [eexists; reflexivity|]. cbn [mark_loop].
      destruct (mem eqb n vis) eqn:M.
      + apply IH. { intros; apply Hq; right; auto. } cbn in Hf. lia.
      + apply IH.
        * intros x Hx. apply in_app_or in Hx. destruct Hx as [Hx|Hx].
          -- apply Hcl with (x := n); auto. apply Hq. left; reflexivity.
          -- apply Hq. right; auto.
        * pose proof (unvis_mark succ U vis n (Hq n (or_introl eq_refl)) M). rewrite app_length. cbn in Hf. lia.
  Qed.

  (* what is marked: exactly what is reachable from the initial queue *)
  Inductive reachA (succ : A -> list A) (q0 : list A) : A -> Prop :=
  | ra_root : forall x, In x q0 -> reachA succ q0 x
  | ra_step : forall x y, reachA succ q0 x -> In y (succ x) -> reachA succ q0 y.

  Definition MInv (succ : A -> list A) (q0 q vis : list A) : Prop :=
    (forall x, In x vis \/ In x q -> reachA succ q0 x) /\
    (forall x, In x q0 -> In x vis \/ In x q) /\
    (forall x y, In x vis -> In y (succ x) -> In y vis \/ In y q).

  Lemma mark_inv : forall succ q0 fuel q vis r, MInv succ q0 q vis -> mark_loop eqb fuel succ q vis = Some r ->
    MInv succ q0 [] r.
  Proof.
    intros succ q0. induction fuel as [|f IH]; intros q vis r HI Hrun.
    - destruct q; [|discriminate]. inversion Hrun; subst. auto.
    - destruct q as [|n q']. { inversion Hrun; subst; auto. }
      cbn [mark_loop] in Hrun. destruct HI as (I1 & I2 & I3).
      destruct (mem eqb n vis) eqn:M.
      + apply (IH q' vis r); auto. apply mem_In in M. repeat split.
        * intros x [H|H]; apply I1; auto. right; right; auto.
        * intros x H. destruct (I2 x H) as [H1|[->|H1]]; auto.
        * intros x y Hx Hy. destruct (I3 x y Hx Hy) as [H1|[->|H1]]; auto.
      + apply (IH (succ n ++ q') (n :: vis) r); auto. repeat split.
        * intros x [[->|H]|H].
          -- apply I1. right; left; reflexivity.
          -- apply I1. left; auto.
          -- apply in_app_or in H. destruct H as [H|H].
             ++ apply ra_step with (x := n); auto. apply I1. right; left; reflexivity.
             ++ apply I1. right; right; auto.
        * intros x H. destruct (I2 x H) as [H1|[->|H1]].
          -- left; right; auto.
          -- left; left; reflexivity.
          -- right. apply in_or_app. right; auto.
        * intros x y [->|Hx] Hy.
          -- right. apply in_or_app. left; auto.
          -- destruct (I3 x y Hx Hy) as [H1|[->|H1]].
             ++ left; right; auto.
             ++ left; left; reflexivity.
             ++ right. apply in_or_app. right; auto.
  Qed.

  Lemma mark_reachable_l : forall succ q0 fuel r, mark_loop eqb fuel succ q0 [] = Some r ->
    forall x, In x r <-> reachA succ q0 x.
  Proof.
    intros succ q0 fuel r Hrun.
    assert (HI : MInv succ q0 q0 []).
    { split; [|split].
      - intros x [[]|H]. apply ra_root; auto.
      - intros x H. right; auto.
      - intros x y []. }
    destruct (mark_inv succ q0 fuel q0 [] r HI Hrun) as (I1 & I2 & I3).
    intro x. split. { intro H. apply I1. left; auto. }
    induction 1 as [x Hx | x y Hx IHx Hy].
    - destruct (I2 x Hx) as [H|[]]; auto.
    - destruct (I3 x y IHx Hy) as [H|[]]; auto.
  Qed.
End MarkProofs.

Lemma pair_eqb_spec : forall p q, pair_eqb p q = true <-> p = q.
Proof.
  intros [a b] [c d]. unfold pair_eqb. cbn. rewrite andb_true_iff, !Nat.eqb_eq. split.
  - intros [-> ->]; reflexivity.
  - intro H; inversion H; auto.
Qed.

(* eq_loop follows mark_loop on the product graph, or stops early with `false` *)
Lemma eq_follows_mark : forall lab1 lab2 ch1 ch2 fuel q vis r,
  mark_loop pair_eqb fuel (pair_succ ch1 ch2) q vis = Some r ->
  exists b, eq_loop fuel lab1 lab2 ch1 ch2 q vis = Some b.
Proof.
  intros lab1 lab2 ch1 ch2. induction fuel as [|f IH]; intros q vis r H.
  - destruct q; [|discriminate]. eexists; reflexivity.
  - destruct q as [|[a b] q']; [eexists; reflexivity|].
    cbn [mark_loop eq_loop] in *. destruct (mem pair_eqb (a, b) vis).
    + eapply IH; eauto.
    + destruct (negb ((lab1 a =? lab2 b) && (length (ch1 a) =? length (ch2 b)))); [eexists; reflexivity|].
      eapply IH. unfold pair_succ in H. cbn in H. eauto.
Qed.

Lemma eq_terminates_l : forall lab1 lab2 ch1 ch2 U,
  (forall x y, In x U -> In y (pair_succ ch1 ch2 x) -> In y U) ->
  forall q, (forall x, In x q -> In x U) ->
  exists b, eq_loop (length q + unvis_work pair_eqb (pair_succ ch1 ch2) U []) lab1 lab2 ch1 ch2 q [] = Some b.
Proof.
  intros lab1 lab2 ch1 ch2 U Hcl q Hq.
  destruct (mark_terminates_l pair_eqb pair_eqb_spec (pair_succ ch1 ch2) U Hcl
              (length q + unvis_work pair_eqb (pair_succ ch1 ch2) U []) q [] Hq (le_n _)) as (r & Hr).
  eapply eq_follows_mark; eauto.
Qed.

Lemma nat_eqb_spec : forall x y : nat, Nat.eqb x y = true <-> x = y.
Proof. intros. apply Nat.eqb_eq. Qed.

(* cycle-aware printing terminates: fuel bound |stack| + 2 * sum over the universe of (1 + out-degree) *)
Lemma printc_terminates_l : forall lab ch U, (forall x y, In x U -> In y (ch x) -> In y U) ->
  forall fuel s vis, (forall n, In (GVisit n) s -> In n U) -> gwork ch U vis s <= fuel ->
  exists out, printc_loop fuel lab ch s vis = Some out.
Proof.
  intros lab ch U Hcl. induction fuel as [|f IH]; intros s vis Hs Hf.
  - destruct s; [eexists; reflexivity | unfold gwork in Hf; cbn in Hf; lia].
  - destruct s as [|i s']; [eexists; reflexivity|]. cbn [printc_loop]. unfold gwork in *. cbn [length] in Hf.
    destruct i as [n|k].
    + destruct (mem Nat.eqb n vis) eqn:M.
      * destruct (IH s' vis) as (o & Ho). { intros; apply Hs; right; auto. } { lia. } rewrite Ho. eexists; reflexivity.
      * destruct (IH (map GVisit (ch n) ++ GEmit TClose :: s') (n :: vis)) as (o & Ho).
        -- intros m Hm. apply in_app_or in Hm. destruct Hm as [Hm|[Hm|Hm]].
           ++ apply in_map_iff in Hm. destruct Hm as (y & Hy & Hin). inversion Hy; subst.
              apply Hcl with (x := n); auto. apply Hs. left; reflexivity.
           ++ discriminate.
           ++ apply Hs. right; auto.
        -- pose proof (unvis_mark Nat.eqb nat_eqb_spec ch U vis n (Hs n (or_introl eq_refl)) M).
           rewrite app_length, map_length. cbn [length]. lia.
        -- rewrite Ho. eexists; reflexivity.
    + destruct (IH s' vis) as (o & Ho). { intros; apply Hs; right; auto. } { lia. } rewrite Ho. eexists; reflexivity.
Qed.

(* ==== D. the generated arm table =========================================================================== *)
Import String.
Definition rec_arms (t : list (string * string * arm)) : list (string * string) :=
  map (fun x => fst x) (filter (fun x => match snd x with Rec => true | _ => false end) t).

Definition arm_of (t : list (string * string * arm)) (op kind : string) : option arm :=
  match filter (fun x => String.eqb (fst (fst x)) op && String.eqb (snd (fst x)) kind) t with
  | x :: _ => Some (snd x)
  | [] => None
  end.

Definition all_queue (t : list (string * string * arm)) (op : string) (kinds : list string) : bool :=
  forallb (fun k => match arm_of t op k with Some Queue => true | _ => false end) kinds.

Lemma recursive_arms_listed_l : rec_arms arm_table = expected_rec.
Proof. vm_compute. reflexivity. Qed.

Lemma drop_arms_queue_l :
  all_queue arm_table "drop" expected_queue_drop = true /\ all_queue arm_table "drop_entry" expected_drop_entry = true /\
  format_depth_guarded = true.
Proof. vm_compute. repeat split; reflexivity. Qed.
