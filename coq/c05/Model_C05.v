(* C05 — biased reference counting of crates/steel-rc/src/lib.rs (DESIGN.md section 4 C05, Appendix A.1).

   ONE shared box, any number of threads.  Every atomic micro-step that the code performs at a
   yield site of hook H1 (`verif_yield!(SITE)` in lib.rs) is one [step]; thread-local values that
   live across yield sites (`old`, `new`, the queue key, the number of drained queue entries) are
   registers carried by the program counter.  Sequential consistency is the memory-model limit.

   The model is parameterised by a [config] so that both the code as it was (findings F1, F17) and
   the repaired code are expressible; the flags of the tree being checked are regenerated from
   lib.rs on every run into gen/Gen_C05.v.  Definitions only — proofs are in Proofs_C05*.v. *)
From Coq Require Import List ZArith Bool Lia String Ascii.
From Coq Require Import DecimalString.
Import ListNotations.
Open Scope Z_scope.

Definition tid := nat.

(* ------------------------------------------------------------------------------------------------ *)
(* The packed word  (lib.rs `Packed`, L105-210): 30-bit signed counter + merged + queued            *)
(* ------------------------------------------------------------------------------------------------ *)
Record word := { cnt : Z; merged : bool; queued : bool }.

Definition word_eqb (a b : word) : bool :=
  (cnt a =? cnt b) && Bool.eqb (merged a) (merged b) && Bool.eqb (queued a) (queued b).

(* pack / unpack over explicit bit positions; instantiated with the generated constants in
   Properties_C05.v (pack_roundtrip).  value(): sign-extend from bit VALUE_BITS-1 (L166-175);
   set_value(): asserts -(2^(vb-1)) <= v < 2^(vb-1) and stores v mod 2^vb (L181-185). *)
Definition pack (vb mbit qbit : Z) (w : word) : Z :=
  (cnt w) mod 2 ^ vb + (if merged w then 2 ^ mbit else 0) + (if queued w then 2 ^ qbit else 0).
Definition unpack (vb mbit qbit : Z) (bits : Z) : word :=
  let raw := bits mod 2 ^ vb in
  {| cnt := if Z.testbit raw (vb - 1) then raw - 2 ^ vb else raw;
     merged := Z.testbit bits mbit;
     queued := Z.testbit bits qbit |}.
Definition in_range (vb : Z) (w : word) : Prop := - 2 ^ (vb - 1) <= cnt w < 2 ^ (vb - 1).

(* ------------------------------------------------------------------------------------------------ *)
(* Configuration: which variant of the code                                                        *)
(* ------------------------------------------------------------------------------------------------ *)
Record config := {
  c_unq_cas        : bool;  (* has_unique_ref, owner==None branch, CASes the counter 1 -> 0 (F1)          *)
  c_fd_unown_first : bool;  (* fast_decrement clears thread_id BEFORE publishing `merged`                *)
  c_fd_guard       : bool;  (* fast_decrement deallocates only when !queued                              *)
  c_sd_guard       : bool;  (* slow_decrement deallocates only when !queued                              *)
  c_uwo_guard      : bool;  (* try_unwrap (owner) refuses a queued box                                   *)
  c_uwn_guard      : bool;  (* try_unwrap (no owner) requires merged && !queued                          *)
  c_mrg_two        : bool;  (* explicit merge: publish, clear thread_id, then clear `queued` and decide  *)
  c_enq_none       : bool   (* enqueue of a box that has no owner any more clears `queued` itself        *)
}.

Definition original_cfg : config :=
  {| c_unq_cas := true; c_fd_unown_first := false; c_fd_guard := false; c_sd_guard := false;
     c_uwo_guard := false; c_uwn_guard := false; c_mrg_two := false; c_enq_none := false |}.
Definition f1_fixed_cfg : config :=
  {| c_unq_cas := false; c_fd_unown_first := false; c_fd_guard := false; c_sd_guard := false;
     c_uwo_guard := false; c_uwn_guard := false; c_mrg_two := false; c_enq_none := false |}.
Definition fixed_cfg : config :=
  {| c_unq_cas := false; c_fd_unown_first := true; c_fd_guard := true; c_sd_guard := true;
     c_uwo_guard := true; c_uwn_guard := true; c_mrg_two := true; c_enq_none := true |}.

(* ------------------------------------------------------------------------------------------------ *)
(* Operations, program counters, state                                                             *)
(* ------------------------------------------------------------------------------------------------ *)
Inductive api :=
| Clone | Drop | Send (k : tid) | GetMut | Unwrap | Read | CountOp | Merge | Register
| Exit           (* drop everything held, finish_thread_merge, thread ends (with_explicit_merge) *)
| Die            (* drop everything held, thread ends without merging                              *)
| Await (k : nat)    (* harness-level: wait until the thread holds >= k references                *)
| MakeMut.          (* BiasedRc::make_mut: unique access, or replace this reference by a fresh copy *)

Inductive qmap := QReg | QUnreg.               (* QueueHandle.map / QueueHandle.unregistered       *)
Inductive mph := PUnreg | PReg | PFin.         (* run_explicit_merge phase 1 / 2, finish_thread_merge *)

Inductive pc :=
| Idle | Dead
| IncRdOwner | IncFast | IncLoad | IncCas (old : word)
| DecRdOwner | DecFast | DecFastUnown | DecFastLoad | DecFastCas (old : word) | DecFastFin (new : word)
| DecLoad | DecCas (old : word) | DecFin (old new : word)
| EnqRdOwner | EnqPush (key : option tid) | EnqLoad | EnqCas (old : word) | EnqFin (new : word)
| UnqRdOwner | UnqNoneLoad | UnqNoneCas (old : word) | UnqOwnRdBiased | UnqOwnLoad
| UnwRdOwner | UnwNoneLoad | UnwNoneCas (old : word) | UnwOwnRdBiased | UnwOwnLoad
| MrgBegin (ph : mph) | MrgLoad (ph : mph) (n : nat) | MrgCas (ph : mph) (n : nat) (old : word)
| MrgFin (ph : mph) (n : nat) (new : word) | MrgCas2 (ph : mph) (n : nat) (old : word)
| MrgFin2 (ph : mph) (n : nat) (new : word)
| CntLoad | CntRdOwner | CntRdBiased
| RegStep
| UmRdOwner | UmNoneLoad | UmNoneCas (old : word) | UmOwnRdBiased | UmOwnLoad.   (* has_unique_ref inside make_mut *)

(* yield-site numbers of crates/steel-rc/src/verif.rs `site` *)
Definition site_of (p : pc) : nat :=
  match p with
  | Idle => 1 | Dead => 0
  | IncRdOwner => 10 | IncFast => 11 | IncLoad => 12 | IncCas _ => 13
  | DecRdOwner => 20 | DecFast => 21 | DecFastLoad => 22 | DecFastCas _ => 23 | DecFastFin _ => 24
  | DecLoad => 25 | DecCas _ => 26 | DecFin _ _ => 27 | DecFastUnown => 28
  | EnqRdOwner => 30 | EnqPush _ => 31 | EnqLoad => 32 | EnqCas _ => 33 | EnqFin _ => 34
  | UnqRdOwner => 40 | UnqNoneLoad => 41 | UnqNoneCas _ => 42 | UnqOwnRdBiased => 43 | UnqOwnLoad => 44
  | UnwRdOwner => 50 | UnwNoneLoad => 51 | UnwNoneCas _ => 52 | UnwOwnRdBiased => 53 | UnwOwnLoad => 54
  | MrgBegin PUnreg => 60 | MrgBegin PReg => 61 | MrgBegin PFin => 62
  | MrgLoad _ _ => 63 | MrgCas _ _ _ => 64 | MrgFin _ _ _ => 65 | MrgCas2 _ _ _ => 67 | MrgFin2 _ _ _ => 68
  | CntLoad => 70 | CntRdOwner => 71 | CntRdBiased => 72
  | RegStep => 80
  | UmRdOwner => 40 | UmNoneLoad => 41 | UmNoneCas _ => 42 | UmOwnRdBiased => 43 | UmOwnLoad => 44
  end%nat.

(* per-operation results (the observables of the correspondence) *)
Inductive res :=
| RNa (o : api) | ROk (o : api) | RSome | RNone | RUnwOk | RUnwErr | RCount (z : Z) | RMerge (n : nat)
| RMmUnique | RMmCloned.

Record thr := { held : nat; pcv : pc; prog : list api; log : list res; macc : nat }.

Record st := {
  creator : tid;                   (* constant: the thread that created the value                     *)
  owner : option tid;              (* RcWord.thread_id                                                *)
  biased : Z;                      (* RcWord.biased_counter                                           *)
  shared : word;                   (* RcWord.shared                                                   *)
  freed : bool;                    (* RcBox::dealloc ran (quarantine)                                 *)
  destr : nat;                     (* payload destructor runs                                         *)
  qs : list (qmap * option tid);   (* queue entries that point to the box                             *)
  registered : list tid;           (* keys of QueueHandle.map                                         *)
  uaf : nat;                       (* monitor: accesses to the box after it was deallocated           *)
  exclbad : nat;                   (* monitor: exclusive access / unwrap granted with other refs live *)
  thrs : list thr
}.

Fixpoint upd (t : nat) (f : thr -> thr) (l : list thr) : list thr :=
  match l, t with
  | [], _ => []
  | x :: r, O => f x :: r
  | x :: r, S t' => x :: upd t' f r
  end.

Definition sumh (l : list thr) : nat := fold_right (fun x a => (held x + a)%nat) O l.

(* setters *)
Definition w_thrs (l : list thr) (s : st) : st :=
  {| creator := creator s; owner := owner s; biased := biased s; shared := shared s; freed := freed s;
     destr := destr s; qs := qs s; registered := registered s; uaf := uaf s; exclbad := exclbad s; thrs := l |}.
Definition w_owner (o : option tid) (s : st) : st :=
  {| creator := creator s; owner := o; biased := biased s; shared := shared s; freed := freed s;
     destr := destr s; qs := qs s; registered := registered s; uaf := uaf s; exclbad := exclbad s; thrs := thrs s |}.
Definition w_biased (b : Z) (s : st) : st :=
  {| creator := creator s; owner := owner s; biased := b; shared := shared s; freed := freed s;
     destr := destr s; qs := qs s; registered := registered s; uaf := uaf s; exclbad := exclbad s; thrs := thrs s |}.
Definition w_shared (w : word) (s : st) : st :=
  {| creator := creator s; owner := owner s; biased := biased s; shared := w; freed := freed s;
     destr := destr s; qs := qs s; registered := registered s; uaf := uaf s; exclbad := exclbad s; thrs := thrs s |}.
Definition w_qs (q : list (qmap * option tid)) (s : st) : st :=
  {| creator := creator s; owner := owner s; biased := biased s; shared := shared s; freed := freed s;
     destr := destr s; qs := q; registered := registered s; uaf := uaf s; exclbad := exclbad s; thrs := thrs s |}.
Definition w_reg (r : list tid) (s : st) : st :=
  {| creator := creator s; owner := owner s; biased := biased s; shared := shared s; freed := freed s;
     destr := destr s; qs := qs s; registered := r; uaf := uaf s; exclbad := exclbad s; thrs := thrs s |}.
(* deallocation (and the payload destructor, run by drop_contents_and_maybe_box or by the caller of
   try_unwrap) *)
Definition do_free (s : st) : st :=
  {| creator := creator s; owner := owner s; biased := biased s; shared := shared s; freed := true;
     destr := S (destr s); qs := qs s; registered := registered s; uaf := uaf s; exclbad := exclbad s; thrs := thrs s |}.
(* an access to the box: reported by the quarantine when the box is already deallocated *)
Definition acc (s : st) : st :=
  {| creator := creator s; owner := owner s; biased := biased s; shared := shared s; freed := freed s;
     destr := destr s; qs := qs s; registered := registered s;
     uaf := if freed s then S (uaf s) else uaf s; exclbad := exclbad s; thrs := thrs s |}.
(* exclusive access (get_mut = Some / try_unwrap = Ok) granted: must be the only live reference *)
Definition excl_check (s : st) : st :=
  {| creator := creator s; owner := owner s; biased := biased s; shared := shared s; freed := freed s;
     destr := destr s; qs := qs s; registered := registered s; uaf := uaf s;
     exclbad := if Nat.eqb (sumh (thrs s)) 1 then exclbad s else S (exclbad s); thrs := thrs s |}.

Definition set_pc (p : pc) (x : thr) : thr :=
  {| held := held x; pcv := p; prog := prog x; log := log x; macc := macc x |}.
Definition set_pc_log (p : pc) (r : res) (x : thr) : thr :=
  {| held := held x; pcv := p; prog := prog x; log := r :: log x; macc := macc x |}.
Definition add_held (x : thr) : thr :=
  {| held := S (held x); pcv := pcv x; prog := prog x; log := log x; macc := macc x |}.
Definition sub_held (x : thr) : thr :=
  {| held := pred (held x); pcv := pcv x; prog := prog x; log := log x; macc := macc x |}.
Definition set_prog (l : list api) (x : thr) : thr :=
  {| held := held x; pcv := pcv x; prog := l; log := log x; macc := macc x |}.
Definition set_macc (n : nat) (x : thr) : thr :=
  {| held := held x; pcv := pcv x; prog := prog x; log := log x; macc := n |}.

Definition go (t : tid) (p : pc) (s : st) : st := w_thrs (upd t (set_pc p) (thrs s)) s.
Definition go_log (t : tid) (p : pc) (r : res) (s : st) : st := w_thrs (upd t (set_pc_log p r) (thrs s)) s.
Definition on_thr (t : tid) (f : thr -> thr) (s : st) : st := w_thrs (upd t f (thrs s)) s.

Definition is_owner (s : st) (t : tid) : bool :=
  match owner s with Some o => Nat.eqb o t | None => false end.

Definition with_cnt (c : Z) (w : word) : word := {| cnt := c; merged := merged w; queued := queued w |}.
Definition with_merged (w : word) : word := {| cnt := cnt w; merged := true; queued := queued w |}.
Definition with_unqueued (w : word) : word := {| cnt := cnt w; merged := merged w; queued := false |}.

Definition key_eqb (a b : option tid) : bool :=
  match a, b with Some x, Some y => Nat.eqb x y | None, None => true | _, _ => false end.
Definition qmap_eqb (a b : qmap) : bool :=
  match a, b with QReg, QReg => true | QUnreg, QUnreg => true | _, _ => false end.
Definition ent_eqb (a b : qmap * option tid) : bool := qmap_eqb (fst a) (fst b) && key_eqb (snd a) (snd b).
Definition count_ent (e : qmap * option tid) (q : list (qmap * option tid)) : nat :=
  List.length (filter (ent_eqb e) q).
Definition remove_ent (e : qmap * option tid) (q : list (qmap * option tid)) :=
  filter (fun x => negb (ent_eqb e x)) q.
Definition is_reg (s : st) (t : tid) : bool := existsb (Nat.eqb t) (registered s).

(* the thread [a] is parked inside explicit_merge while holding the lock of queue map [m] *)
Definition holds_lock (s : st) (a : tid) (m : qmap) : bool :=
  match nth_error (thrs s) a with
  | Some y =>
      match pcv y with
      | MrgLoad ph _ | MrgCas ph _ _ | MrgFin ph _ _ | MrgCas2 ph _ _ | MrgFin2 ph _ _ =>
          match ph, m with PUnreg, QUnreg => true | PReg, QReg => true | _, _ => false end
      | _ => false
      end
  | None => false
  end.

Definition is_dead (s : st) (k : tid) : bool :=
  match nth_error (thrs s) k with
  | Some y => match pcv y with Dead => true | _ => false end
  | None => true
  end.

(* after one queue entry has been processed by explicit_merge *)
Definition mrg_next (t : tid) (ph : mph) (n : nat) (x : thr) (s : st) : st :=
  match n with
  | S (S m) => go t (MrgLoad ph (S m)) s
  | _ =>
      match ph with
      | PUnreg => go t (MrgBegin PReg) s
      | PReg => go_log t Idle (RMerge (macc x)) s
      | PFin => go_log t Dead (ROk Exit) s
      end
  end.

(* start of the next operation of thread t (harness yield site OP) *)
Definition start_op (t : tid) (x : thr) (s : st) : option st :=
  match prog x with
  | [] => None
  | op :: rest =>
    let pop := set_prog rest in
    let na := Some (on_thr t (fun y => set_pc_log Idle (RNa op) (pop y)) s) in
    match op with
    | Clone => if Nat.eqb (held x) 0 then na
               else Some (acc (on_thr t (fun y => set_pc_log IncRdOwner (ROk Clone) (pop y)) s))
    | Drop => if Nat.eqb (held x) 0 then na
              else Some (acc (on_thr t (fun y => set_pc_log DecRdOwner (ROk Drop) (pop y)) s))
    | Send k =>
        if Nat.eqb (held x) 0 || Nat.eqb k t || is_dead s k then na
        else Some (on_thr k add_held (on_thr t (fun y => set_pc_log Idle (ROk op) (sub_held (pop y))) s))
    | GetMut => if Nat.eqb (held x) 0 then na else Some (acc (on_thr t (fun y => set_pc UnqRdOwner (pop y)) s))
    | Unwrap => if Nat.eqb (held x) 0 then na else Some (acc (on_thr t (fun y => set_pc UnwRdOwner (pop y)) s))
    | Read => if Nat.eqb (held x) 0 then na else Some (acc (on_thr t (fun y => set_pc_log Idle (ROk Read) (pop y)) s))
    | CountOp => if Nat.eqb (held x) 0 then na else Some (acc (on_thr t (fun y => set_pc CntLoad (pop y)) s))
    | Merge => Some (on_thr t (fun y => set_macc 0 (set_pc (MrgBegin PUnreg) (pop y))) s)
    | Register => Some (on_thr t (fun y => set_pc_log RegStep (ROk Register) (pop y)) s)
    | Exit => if Nat.eqb (held x) 0 then Some (on_thr t (fun y => set_pc (MrgBegin PFin) (pop y)) s)
              else Some (acc (on_thr t (set_pc_log DecRdOwner (ROk Drop)) s))
    | Die => if Nat.eqb (held x) 0 then Some (on_thr t (fun y => set_pc_log Dead (ROk Die) (pop y)) s)
             else Some (acc (on_thr t (set_pc_log DecRdOwner (ROk Drop)) s))
    | Await k => if Nat.leb k (held x) then Some (on_thr t (fun y => set_pc_log Idle (ROk op) (pop y)) s)
                 else Some s
    | MakeMut => if Nat.eqb (held x) 0 then na else Some (acc (on_thr t (fun y => set_pc UmRdOwner (pop y)) s))
    end
  end.

Definition step (c : config) (t : tid) (s : st) : option st :=
  match nth_error (thrs s) t with
  | None => None
  | Some x =>
    match pcv x with
    | Dead => None
    | Idle => start_op t x s
    (* ---- increment (L309-378) *)
    | IncRdOwner => Some (acc (go t (if is_owner s t then IncFast else IncLoad) s))
    | IncFast => Some (acc (on_thr t (fun y => set_pc Idle (add_held y)) (w_biased (biased s + 1) s)))
    | IncLoad => Some (acc (go t (IncCas (shared s)) s))
    | IncCas old =>
        if word_eqb old (shared s)
        then Some (acc (on_thr t (fun y => set_pc Idle (add_held y)) (w_shared (with_cnt (cnt old + 1) old) s)))
        else Some (acc (go t (IncCas (shared s)) s))
    (* ---- decrement (L380-499) *)
    | DecRdOwner => Some (acc (go t (if is_owner s t then DecFast else DecLoad) s))
    | DecFast =>
        let b := biased s - 1 in
        let nxt := if 0 <? b then Idle else if c_fd_unown_first c then DecFastUnown else DecFastLoad in
        Some (acc (on_thr t (fun y => set_pc nxt (sub_held y)) (w_biased b s)))
    | DecFastUnown => Some (acc (go t DecFastLoad (w_owner None s)))
    | DecFastLoad => Some (acc (go t (DecFastCas (shared s)) s))
    | DecFastCas old =>
        if word_eqb old (shared s)
        then Some (acc (go t (DecFastFin (with_merged old)) (w_shared (with_merged old) s)))
        else Some (acc (go t (DecFastCas (shared s)) s))
    | DecFastFin new =>
        if (cnt new =? 0) && (negb (c_fd_guard c) || negb (queued new))
        then Some (do_free (acc (go t Idle s)))
        else if c_fd_unown_first c then Some (go t Idle s)
        else Some (acc (go t Idle (w_owner None s)))
    | DecLoad => Some (acc (go t (DecCas (shared s)) s))
    | DecCas old =>
        if word_eqb old (shared s)
        then let k := cnt old - 1 in
             let new := {| cnt := k; merged := merged old; queued := if k <? 0 then true else queued old |} in
             Some (acc (on_thr t (fun y => set_pc (DecFin old new) (sub_held y)) (w_shared new s)))
        else Some (acc (go t (DecCas (shared s)) s))
    | DecFin old new =>
        if negb (Bool.eqb (queued old) (queued new)) then Some (go t EnqRdOwner s)
        else if merged new && (cnt new =? 0) && (negb (c_sd_guard c) || negb (queued new))
        then Some (do_free (acc (go t Idle s)))
        else Some (go t Idle s)
    (* ---- QueueHandle::enqueue (L667-694) *)
    | EnqRdOwner =>
        match owner s with
        | None => if c_enq_none c then Some (acc (go t EnqLoad s)) else Some (acc (go t (EnqPush None) s))
        | Some o => Some (acc (go t (EnqPush (Some o)) s))
        end
    | EnqPush key =>
        let blocked := match key with
                       | Some a => if is_reg s a then holds_lock s a QReg else holds_lock s a QUnreg
                       | None => false
                       end in
        if blocked then Some s
        else let m := match key with Some a => if is_reg s a then QReg else QUnreg | None => QUnreg end in
             Some (go t Idle (w_qs ((m, key) :: qs s) s))
    | EnqLoad => Some (acc (go t (EnqCas (shared s)) s))
    | EnqCas old =>
        if word_eqb old (shared s)
        then Some (acc (go t (EnqFin (with_unqueued old)) (w_shared (with_unqueued old) s)))
        else Some (acc (go t (EnqCas (shared s)) s))
    | EnqFin new =>
        if merged new && (cnt new =? 0) then Some (do_free (acc (go t Idle s))) else Some (go t Idle s)
    (* ---- has_unique_ref via get_mut (L501-555, L1071) *)
    | UnqRdOwner =>
        match owner s with
        | None => Some (acc (go t UnqNoneLoad s))
        | Some o => if Nat.eqb o t then Some (acc (go t UnqOwnRdBiased s))
                    else Some (acc (go_log t Idle RNone s))
        end
    | UnqNoneLoad =>
        if c_unq_cas c then Some (acc (go t (UnqNoneCas (shared s)) s))
        else if cnt (shared s) =? 1 then Some (excl_check (acc (go_log t Idle RSome s)))
        else Some (acc (go_log t Idle RNone s))
    | UnqNoneCas old =>
        if word_eqb (with_cnt 1 old) (shared s)
        then Some (excl_check (acc (go_log t Idle RSome (w_shared (with_cnt 0 old) s))))
        else Some (acc (go_log t Idle RNone s))
    | UnqOwnRdBiased =>
        if biased s =? 1 then Some (acc (go t UnqOwnLoad s)) else Some (acc (go_log t Idle RNone s))
    | UnqOwnLoad =>
        if cnt (shared s) =? 0 then Some (excl_check (acc (go_log t Idle RSome s)))
        else Some (acc (go_log t Idle RNone s))
    (* ---- try_unwrap (L1219-1290) *)
    | UnwRdOwner =>
        match owner s with
        | None => Some (acc (go t UnwNoneLoad s))
        | Some o => if Nat.eqb o t then Some (acc (go t UnwOwnRdBiased s))
                    else Some (acc (go_log t Idle RUnwErr s))
        end
    | UnwNoneLoad =>
        if c_uwn_guard c && (negb (merged (shared s)) || queued (shared s))
        then Some (acc (go_log t Idle RUnwErr s))
        else Some (acc (go t (UnwNoneCas (shared s)) s))
    | UnwNoneCas old =>
        if word_eqb (with_cnt 1 old) (shared s)
        then Some (on_thr t sub_held (do_free (excl_check (acc
               (on_thr t (set_pc_log Idle RUnwOk) (w_shared (with_cnt 0 old) s))))))
        else Some (acc (go_log t Idle RUnwErr s))
    | UnwOwnRdBiased =>
        if biased s =? 1 then Some (acc (go t UnwOwnLoad s)) else Some (acc (go_log t Idle RUnwErr s))
    | UnwOwnLoad =>
        if negb (cnt (shared s) =? 0) || (c_uwo_guard c && queued (shared s))
        then Some (acc (go_log t Idle RUnwErr s))
        else Some (on_thr t sub_held (do_free (excl_check (acc (on_thr t (set_pc_log Idle RUnwOk) s)))))
    (* ---- run_explicit_merge / finish_thread_merge / explicit_merge (L696-785) *)
    | MrgBegin ph =>
        let m := match ph with PUnreg => QUnreg | _ => QReg end in
        let present := match ph with PUnreg => true | _ => is_reg s t end in
        let n := if present then count_ent (m, Some t) (qs s) else O in
        let s1 := if present then w_qs (remove_ent (m, Some t) (qs s)) s else s in
        let s2 := match ph with
                  | PFin => w_reg (filter (fun r => negb (Nat.eqb r t)) (registered s1)) s1
                  | _ => s1
                  end in
        let s3 := on_thr t (fun y => set_macc (macc y + n) y) s2 in
        match n with
        | O => Some (mrg_next t ph O (set_macc (macc x + n) x) s3)
        | S _ => Some (go t (MrgLoad ph n) s3)
        end
    | MrgLoad ph n => Some (acc (go t (MrgCas ph n (shared s)) s))
    | MrgCas ph n old =>
        if word_eqb old (shared s)
        then let new := with_merged (with_cnt (cnt old + biased s) old) in
             Some (acc (go t (MrgFin ph n new) (w_shared new s)))
        else Some (acc (go t (MrgCas ph n (shared s)) s))
    | MrgFin ph n new =>
        if c_mrg_two c then Some (acc (go t (MrgCas2 ph n new) (w_owner None s)))
        else if cnt new =? 0 then Some (mrg_next t ph n x (do_free (acc s)))
        else Some (mrg_next t ph n x (acc (w_owner None s)))
    | MrgCas2 ph n old =>
        if word_eqb old (shared s)
        then Some (acc (go t (MrgFin2 ph n (with_unqueued old)) (w_shared (with_unqueued old) s)))
        else Some (acc (go t (MrgCas2 ph n (shared s)) s))
    | MrgFin2 ph n new =>
        if cnt new =? 0 then Some (mrg_next t ph n x (do_free (acc s)))
        else Some (mrg_next t ph n x s)
    (* ---- strong_count (L1117-1139) *)
    | CntLoad =>
        if cnt (shared s) =? 0 then Some (acc (go t CntRdOwner s))
        else Some (acc (go_log t Idle (RCount (cnt (shared s))) s))
    | CntRdOwner =>
        match owner s with
        | None => Some (acc (go_log t Idle (RCount 0) s))
        | Some o => if Nat.eqb o t then Some (acc (go t CntRdBiased s))
                    else Some (acc (go_log t Idle (RCount 2) s))
        end
    | CntRdBiased => Some (acc (go_log t Idle (RCount (biased s)) s))
    (* ---- register_thread (L659-665) *)
    | RegStep => Some (go t Idle (if is_reg s t then s else w_reg (t :: registered s) s))
    (* ---- make_mut (L1132-1146): has_unique_ref; when not unique `*this = Self::new(T::clone(this.data()))`
            reads the payload and drops this reference (the fresh value is a different box) *)
    | UmRdOwner =>
        match owner s with
        | None => Some (acc (go t UmNoneLoad s))
        | Some o => if Nat.eqb o t then Some (acc (go t UmOwnRdBiased s))
                    else Some (acc (go_log t DecRdOwner RMmCloned s))
        end
    | UmNoneLoad =>
        if c_unq_cas c then Some (acc (go t (UmNoneCas (shared s)) s))
        else if cnt (shared s) =? 1 then Some (excl_check (acc (go_log t Idle RMmUnique s)))
        else Some (acc (go_log t DecRdOwner RMmCloned s))
    | UmNoneCas old =>
        if word_eqb (with_cnt 1 old) (shared s)
        then Some (excl_check (acc (go_log t Idle RMmUnique (w_shared (with_cnt 0 old) s))))
        else Some (acc (go_log t DecRdOwner RMmCloned s))
    | UmOwnRdBiased =>
        if biased s =? 1 then Some (acc (go t UmOwnLoad s)) else Some (acc (go_log t DecRdOwner RMmCloned s))
    | UmOwnLoad =>
        if cnt (shared s) =? 0 then Some (excl_check (acc (go_log t Idle RMmUnique s)))
        else Some (acc (go_log t DecRdOwner RMmCloned s))
    end
  end.

(* schedules *)
Fixpoint run (c : config) (sched : list tid) (s : st) : st :=
  match sched with
  | [] => s
  | t :: r => match step c t s with Some s' => run c r s' | None => run c r s end
  end.

Definition mk_thr (p : list api) : thr := {| held := 0; pcv := Idle; prog := p; log := []; macc := 0 |}.

(* initial state: thread [cr] has just created the value (RcWord::new, L287-297); [regs] are the
   threads registered with the queue collector *)
Definition init (cr : tid) (regs : list tid) (progs : list (list api)) : st :=
  {| creator := cr; owner := Some cr; biased := 1; shared := {| cnt := 0; merged := false; queued := false |};
     freed := false; destr := 0; qs := []; registered := regs; uaf := 0; exclbad := 0;
     thrs := upd cr add_held (map mk_thr progs) |}.

(* ------------------------------------------------------------------------------------------------ *)
(* Executable rendering for the correspondence                                                     *)
(* ------------------------------------------------------------------------------------------------ *)
Open Scope string_scope.
Definition nat_str (n : nat) : string := NilEmpty.string_of_uint (Nat.to_uint n).
Definition z_str (z : Z) : string :=
  match z with
  | Z0 => "0"
  | Zpos p => nat_str (Pos.to_nat p)
  | Zneg p => "-" ++ nat_str (Pos.to_nat p)
  end.
Definition api_str (o : api) : string :=
  match o with
  | Clone => "clone" | Drop => "drop" | Send _ => "send" | GetMut => "get_mut" | Unwrap => "unwrap"
  | Read => "read" | CountOp => "count" | Merge => "merge" | Register => "register" | Exit => "exit"
  | Die => "die" | Await _ => "await" | MakeMut => "make_mut"
  end.
Definition res_str (r : res) : string :=
  match r with
  | RNa o => api_str o ++ ":na"
  | ROk o => api_str o ++ ":ok"
  | RSome => "get_mut:some" | RNone => "get_mut:none"
  | RUnwOk => "unwrap:ok" | RUnwErr => "unwrap:err"
  | RCount z => "count:" ++ z_str z
  | RMerge n => "merge:" ++ nat_str n
  | RMmUnique => "make_mut:unique" | RMmCloned => "make_mut:cloned"
  end.
Fixpoint join (sep : string) (l : list string) : string :=
  match l with
  | [] => ""
  | [x] => x
  | x :: r => x ++ sep ++ join sep r
  end.

(* run a trace, recording the site of every step; a step that is not enabled is recorded as 0 *)
Fixpoint run_sites (c : config) (sched : list tid) (s : st) (acc_sites : list nat) : st * list nat :=
  match sched with
  | [] => (s, rev acc_sites)
  | t :: r =>
      let site := match nth_error (thrs s) t with Some x => site_of (pcv x) | None => O end in
      match step c t s with
      | Some s' => run_sites c r s' (site :: acc_sites)
      | None => run_sites c r s (O :: acc_sites)
      end
  end.

Definition finished (x : thr) : bool :=
  match pcv x with
  | Dead => true
  | Idle => match prog x with [] => true | _ => false end
  | _ => false
  end.

Definition render (c : config) (cr : tid) (regs : list tid) (progs : list (list api)) (sched : list tid) : string :=
  let '(s, sites) := run_sites c sched (init cr regs progs) [] in
  "res=" ++ join "|" (map (fun x => join "," (map res_str (rev (log x)))) (thrs s))
  ++ ";held=" ++ join "," (map (fun x => nat_str (held x)) (thrs s))
  ++ ";destr=" ++ nat_str (destr s)
  ++ ";freed=" ++ (if freed s then "1" else "0")
  ++ ";uaf=" ++ nat_str (uaf s)
  ++ ";excl=" ++ nat_str (exclbad s)
  ++ ";fin=" ++ (if forallb finished (thrs s) then "1" else "0")
  ++ ";q=" ++ nat_str (List.length (qs s))
  ++ ";sites=" ++ join "," (map nat_str sites).
