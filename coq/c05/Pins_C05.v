(* Compiled on every run of the C05 check: pins each statement and prints its assumptions. *)
From Coq Require Import List ZArith Bool.
From SV Require Import c05.Model_C05 c05.Proofs_C05 c05.Proofs_C05_inv c05.Proofs_C05_step c05.Proofs_C05_gen gen.Gen_C05 c05.Properties_C05.
Import ListNotations.

Check (C05_pack_roundtrip : forall w, in_range VALUE_BITS w ->
  unpack VALUE_BITS MERGED_BIT QUEUED_BIT (pack VALUE_BITS MERGED_BIT QUEUED_BIT w) = w).
Check (C05_assert_range : ASSERT_RANGE_BITS = (VALUE_BITS - 1)%Z).
Check (C05_repo_cfg_fixed : repo_cfg = fixed_cfg).
Check (C05_init_Inv : forall cr regs progs, (cr < List.length progs)%nat -> Inv (init cr regs progs)).
Check (C05_Inv_sound : forall s, Inv s ->
  uaf s = O /\ exclbad s = O /\ (destr s <= 1)%nat /\ (destr s = 1%nat <-> freed s = true) /\
  (freed s = true -> sumh (thrs s) = O /\ qs s = [])).
Check (C05_step_preserves_Inv_partial : forall t s s' x,
  Inv s -> nth_error (thrs s) t = Some x -> covered (pcv x) = true ->
  step fixed_cfg t s = Some s' -> Inv s').

Print Assumptions C05_pack_roundtrip.
Print Assumptions C05_assert_range.
Print Assumptions C05_repo_cfg_fixed.
Print Assumptions C05_init_Inv.
Print Assumptions C05_Inv_sound.
Print Assumptions C05_step_preserves_Inv_partial.
