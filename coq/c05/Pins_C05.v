(* Compiled on every run of the C05 check: pins each statement and prints its assumptions. *)
From Coq Require Import List ZArith Bool.
From SV Require Import c05.Model_C05 c05.Proofs_C05 c05.Proofs_C05_inv c05.Proofs_C05_step c05.Proofs_C05_step2 c05.Proofs_C05_reclaim c05.Proofs_C05_gen gen.Gen_C05 c05.Properties_C05.
Import ListNotations.

Check (C05_pack_roundtrip : forall w, in_range VALUE_BITS w ->
  unpack VALUE_BITS MERGED_BIT QUEUED_BIT (pack VALUE_BITS MERGED_BIT QUEUED_BIT w) = w).
Check (C05_assert_range : ASSERT_RANGE_BITS = (VALUE_BITS - 1)%Z).
Check (C05_repo_cfg_fixed : repo_cfg = fixed_cfg).
Check (C05_init_Inv : forall cr regs progs, (cr < List.length progs)%nat -> Inv (init cr regs progs)).
Check (C05_Inv_sound : forall s, Inv s ->
  uaf s = O /\ exclbad s = O /\ (destr s <= 1)%nat /\ (destr s = 1%nat <-> freed s = true) /\
  (freed s = true -> sumh (thrs s) = O /\ qs s = [])).
Check (C05_step_preserves_Inv : forall t s s', Inv s -> step fixed_cfg t s = Some s' -> Inv s').
Check (C05_schedule_preserves_Inv : forall cr regs progs sched, (cr < List.length progs)%nat ->
  Inv (run fixed_cfg sched (init cr regs progs))).
Check (C05_no_use_after_free : forall cr regs progs sched, (cr < List.length progs)%nat ->
  uaf (run repo_cfg sched (init cr regs progs)) = O).
Check (C05_destroyed_once : forall cr regs progs sched, (cr < List.length progs)%nat ->
  let s := run repo_cfg sched (init cr regs progs) in
  (destr s <= 1)%nat /\ (destr s = 1%nat <-> freed s = true) /\
  (freed s = true -> sumh (thrs s) = O /\ qs s = [])).
Check (C05_exclusive_sound : forall cr regs progs sched, (cr < List.length progs)%nat ->
  let s := run repo_cfg sched (init cr regs progs) in
  exclbad s = O /\
  (forall t x s', nth_error (thrs s) t = Some x ->
     match pcv x with UnqRdOwner | UnqNoneLoad | UnqOwnRdBiased | UnqOwnLoad
                  | UmRdOwner | UmNoneLoad | UmOwnRdBiased | UmOwnLoad => True | _ => False end ->
     step repo_cfg t s = Some s' ->
     owner s' = owner s /\ biased s' = biased s /\ shared s' = shared s /\ freed s' = freed s /\
     destr s' = destr s /\ qs s' = qs s /\ sumh (thrs s') = sumh (thrs s))).
Check (C05_reclaim : forall cr regs progs sched, (cr < List.length progs)%nat ->
  let s := run repo_cfg sched (init cr regs progs) in
  quiescent s -> sumh (thrs s) = O -> qs s = [] -> freed s = true /\ destr s = 1%nat).
Check (C05_exclusive_monitor_spec : forall s, exclbad (excl_check s) = exclbad s <-> sumh (thrs s) = 1%nat).
Check (C05_has_unique_ref_refuted : let s := run original_cfg f1_sched (init 0%nat [0; 1]%nat f1_progs) in
  freed s = true /\ (0 < sumh (thrs s))%nat /\ (0 < uaf s)%nat).
Check (C05_freed_while_queued_refuted : let s := run f1_fixed_cfg f17_sched (init 0%nat [0; 1]%nat f17_progs) in
  (0 < uaf s)%nat /\ destr s = 2%nat).
Check (C05_witnesses_repaired : (let s := run fixed_cfg f1_sched (init 0%nat [0; 1]%nat f1_progs) in
   freed s = false /\ sumh (thrs s) = 1%nat /\ uaf s = 0%nat) /\
  (let s := run fixed_cfg f17_sched (init 0%nat [0; 1]%nat f17_progs) in
   uaf s = 0%nat /\ destr s = 1%nat /\ freed s = true /\ sumh (thrs s) = 0%nat)).

Print Assumptions C05_pack_roundtrip.
Print Assumptions C05_assert_range.
Print Assumptions C05_repo_cfg_fixed.
Print Assumptions C05_init_Inv.
Print Assumptions C05_Inv_sound.
Print Assumptions C05_step_preserves_Inv.
Print Assumptions C05_schedule_preserves_Inv.
Print Assumptions C05_no_use_after_free.
Print Assumptions C05_destroyed_once.
Print Assumptions C05_exclusive_sound.
Print Assumptions C05_reclaim.
Print Assumptions C05_exclusive_monitor_spec.
Print Assumptions C05_has_unique_ref_refuted.
Print Assumptions C05_freed_while_queued_refuted.
Print Assumptions C05_witnesses_repaired.
