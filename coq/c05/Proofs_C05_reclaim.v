(* C05 — lemmas (part 5): the auxiliary invariant Inv2 and the reclamation theorem. *)
From Coq Require Import List ZArith Bool Lia Arith.
From SV Require Import c05.Model_C05 c05.Proofs_C05 c05.Proofs_C05_inv c05.Proofs_C05_step c05.Proofs_C05_step2.
Import ListNotations.
Open Scope Z_scope.

Definition is_fdpre (x : thr) : bool := match pcv x with DecFastLoad | DecFastCas _ => true | _ => false end.
Definition enq_ok (s : st) (x : thr) : Prop :=
  match pcv x with EnqLoad | EnqCas _ => owner s = None | _ => True end.

Record Inv2 (s : st) : Prop := {
  j_negq : freed s = false -> cnt (shared s) < 0 -> queued (shared s) = true;
  j_unown : freed s = false -> owner s = None -> merged (shared s) = false ->
            exists x, nth_error (thrs s) (creator s) = Some x /\ is_fdpre x = true;
  j_enq : forall u x, nth_error (thrs s) u = Some x -> enq_ok s x
}.

Lemma init_Inv2 cr regs progs : Inv2 (init cr regs progs).
Proof.
  constructor; unfold init; simpl.
  - intros _ Hc. lia.
  - discriminate.
  - intros u x Hx. apply nth_upd_inv in Hx as [[-> [y [Hy ->]]]|[Hne Hx]].
    + apply nth_map_mk in Hy as [p ->]. exact Logic.I.
    + apply nth_map_mk in Hx as [p ->]. exact Logic.I.
Qed.

(* wrappers that Inv2 does not look at *)
Lemma inv2_acc s : Inv2 s -> Inv2 (acc s).
Proof. intros [A B C]. constructor; auto. Qed.
Lemma inv2_excl s : Inv2 s -> Inv2 (excl_check s).
Proof. intros [A B C]. constructor; auto. Qed.
Lemma inv2_reg s r : Inv2 s -> Inv2 (w_reg r s).
Proof. intros [A B C]. constructor; auto. Qed.
Lemma inv2_qs s q : Inv2 s -> Inv2 (w_qs q s).
Proof. intros [A B C]. constructor; auto. Qed.
Lemma inv2_biased s b : Inv2 s -> Inv2 (w_biased b s).
Proof. intros [A B C]. constructor; auto. Qed.
Lemma inv2_free s : Inv2 s -> Inv2 (do_free s).
Proof. intros [A B C]. constructor; simpl; try discriminate. exact C. Qed.

Lemma inv2_gen s t x g w :
  Inv2 s -> nth_error (thrs s) t = Some x ->
  (freed s = false -> cnt w < 0 -> queued w = true) ->
  (merged w = false -> merged (shared s) = false /\ (is_fdpre x = true -> is_fdpre (g x) = true)) ->
  enq_ok s (g x) ->
  Inv2 (on_thr t g (w_shared w s)).
Proof.
  intros [A B C] Hx Hn Hm He. constructor; simp_st.
  - exact Hn.
  - intros F O M. destruct (Hm M) as [M0 Hf]. destruct (B F O M0) as [y [Hy Fy]].
    destruct (Nat.eq_dec (creator s) t) as [E|Hne].
    + rewrite E in *. rewrite Hx in Hy. inversion Hy; subst y. exists (g x). split; [apply nth_upd_same; auto|auto].
    + exists y. split; auto. rewrite nth_upd_other by congruence. exact Hy.
  - intros u y Hy. apply nth_upd_inv in Hy as [[-> [x' [Hx' ->]]]|[Hne Hy]].
    + rewrite Hx in Hx'. inversion Hx'; subst x'. exact He.
    + exact (C u y Hy).
Qed.

Lemma inv2_local s t x g :
  Inv2 s -> nth_error (thrs s) t = Some x ->
  (is_fdpre x = true -> is_fdpre (g x) = true) -> enq_ok s (g x) ->
  Inv2 (on_thr t g s).
Proof.
  intros [A B C] Hx Hf He. constructor; simp_st; auto.
  - intros F O M. destruct (B F O M) as [y [Hy Fy]].
    destruct (Nat.eq_dec (creator s) t) as [E|Hne].
    + rewrite E in *. rewrite Hx in Hy. inversion Hy; subst y. exists (g x). split; [apply nth_upd_same; auto|auto].
    + exists y. split; auto. rewrite nth_upd_other by congruence. exact Hy.
  - intros u y Hy. apply nth_upd_inv in Hy as [[-> [x' [Hx' ->]]]|[Hne Hy]].
    + rewrite Hx in Hx'. inversion Hx'; subst x'. exact He.
    + exact (C u y Hy).
Qed.

(* from Inv alone: a merged or owner-less word has a non-negative counter *)
Lemma cnt_nonneg s : Inv s -> freed s = false -> (merged (shared s) = true \/ owner s = None) -> 0 <= cnt (shared s).
Proof.
  intros I F Hm. pose proof (i_count s I F) as C. destruct (merged (shared s)) eqn:M; [lia|].
  destruct Hm as [Hm|Hm]; [discriminate|]. pose proof (i_onb s I Hm M). lia.
Qed.


Ltac split_conds Hs := repeat match type of Hs with
  | context[match owner ?s with _ => _ end] => destruct (owner s) eqn:?
  | context[if ?b then _ else _] => destruct b eqn:?
  end.
Ltac peel := repeat first [apply inv2_acc | apply inv2_excl | apply inv2_free].
Ltac side Hp := first
  [ solve [unfold is_fdpre; simp_thr; rewrite ?Hp; auto; discriminate]
  | solve [unfold enq_ok; simp_thr; auto] ].
Ltac L2 J Hx Hp := unfold go, go_log; peel; eapply inv2_local; [exact J | exact Hx | side Hp | side Hp].

Lemma step_Inv2_a t s s' x : Inv s -> Inv2 s -> nth_error (thrs s) t = Some x ->
  match pcv x with
  | IncRdOwner | IncLoad | DecRdOwner | DecLoad | DecFastLoad | EnqLoad | MrgLoad _ _
  | UnqRdOwner | UnqNoneLoad | UnqOwnRdBiased | UnqOwnLoad | UnwRdOwner | UnwNoneLoad | UnwOwnRdBiased
  | CntLoad | CntRdOwner | CntRdBiased | DecFastFin _ | DecFin _ _ | EnqRdOwner | EnqFin _ | RegStep
  | UmRdOwner | UmNoneLoad | UmOwnRdBiased | UmOwnLoad => True
  | _ => False
  end ->
  step fixed_cfg t s = Some s' -> Inv2 s'.
Proof.
  intros I J Hx Hsel Hs. unfold step in Hs. rewrite Hx in Hs.
  pose proof (j_enq s J t x Hx) as EQ. unfold enq_ok in EQ.
  destruct (pcv x) eqn:Hp; try contradiction; simp_st; split_conds Hs; injection Hs as <-;
    try solve [L2 J Hx Hp].
  all: try solve [unfold go; eapply inv2_local; [apply inv2_reg; exact J | exact Hx | side Hp | side Hp]].
Qed.


Lemma step_Inv2_b t s s' x : Inv s -> Inv2 s -> nth_error (thrs s) t = Some x ->
  match pcv x with
  | IncFast | DecFast | IncCas _ | DecCas _ | DecFastCas _ | EnqCas _ | MrgCas _ _ _ | MrgCas2 _ _ _
  | EnqPush _ | UnqNoneCas _ | UmNoneCas _ | DecFastUnown | MrgFin _ _ _ => True
  | _ => False
  end ->
  step fixed_cfg t s = Some s' -> Inv2 s'.
Proof.
  intros I J Hx Hsel Hs. pose proof (step_Inv t s s' I Hs) as I'.
  unfold step in Hs. rewrite Hx in Hs.
  pose proof (j_enq s J t x Hx) as EQ. unfold enq_ok in EQ.
  pose proof (i_tinv s I t x Hx) as T. unfold tinv in T.
  destruct (pcv x) eqn:Hp; try contradiction; simp_st.
  - (* IncFast *) injection Hs as <-. peel. eapply inv2_local; [apply inv2_biased; exact J|exact Hx|side Hp|side Hp].
  - (* IncCas *) destruct (word_eqb old (shared s)) eqn:E; injection Hs as <-; [|L2 J Hx Hp].
    apply word_eqb_eq in E. subst old. peel. eapply inv2_gen; [exact J|exact Hx| | |side Hp].
    + simp_thr. intros F C. apply (j_negq s J F). lia.
    + simp_thr. intros M. split; [exact M|side Hp].
  - (* DecFast *) injection Hs as <-. peel. eapply inv2_local; [apply inv2_biased; exact J|exact Hx| |].
    + unfold is_fdpre. rewrite Hp. discriminate.
    + unfold enq_ok. simp_thr. destruct (0 <? biased s - 1); exact Logic.I.
  - (* DecFastUnown *) injection Hs as <-. destruct T as [O B].
    assert (Cr : t = creator s) by (destruct (i_ownerc s I); congruence).
    apply inv2_acc. constructor; simp_st.
    + apply (j_negq s J).
    + intros _ _ _. exists (set_pc DecFastLoad x). split; [rewrite <- Cr; apply nth_upd_same; exact Hx|reflexivity].
    + intros u y Hy. unfold enq_ok. simp_st. destruct (pcv y); auto.
  - (* DecFastCas *) destruct (word_eqb old (shared s)) eqn:E; injection Hs as <-; [|L2 J Hx Hp].
    apply word_eqb_eq in E. subst old. peel. eapply inv2_gen; [exact J|exact Hx| | |side Hp].
    + simp_thr. apply (j_negq s J).
    + simp_thr. discriminate.
  - (* DecCas *) destruct (word_eqb old (shared s)) eqn:E; injection Hs as <-; [|L2 J Hx Hp].
    apply word_eqb_eq in E. subst old. peel. eapply inv2_gen; [exact J|exact Hx| | |side Hp].
    + simp_thr. intros F C. destruct (Z.ltb_spec (cnt (shared s) - 1) 0); [reflexivity|lia].
    + simp_thr. intros M. split; [exact M|side Hp].
  - (* EnqPush *) split_conds Hs; injection Hs as <-; try exact J;
      (unfold go; eapply inv2_local; [apply inv2_qs; exact J|exact Hx|side Hp|side Hp]).
  - (* EnqCas *) destruct (word_eqb old (shared s)) eqn:E; injection Hs as <-; [|L2 J Hx Hp].
    apply word_eqb_eq in E. subst old. peel. eapply inv2_gen; [exact J|exact Hx| | |side Hp].
    + simp_thr. intros F C. pose proof (cnt_nonneg s I F (or_intror EQ)). lia.
    + simp_thr. intros M. split; [exact M|side Hp].
  - (* MrgCas *) destruct (word_eqb old (shared s)) eqn:E; injection Hs as <-; [|L2 J Hx Hp].
    apply word_eqb_eq in E. subst old.
    assert (F : freed s = false) by (eapply not_freed; [exact I|exact Hx|unfold quiet; rewrite Hp; reflexivity]).
    pose proof (cnt_nonneg _ I') as NN. simp_st. simp_thr. specialize (NN F (or_introl eq_refl)).
    peel. eapply inv2_gen; [exact J|exact Hx| | |side Hp].
    + simp_thr. intros _ C. lia.
    + simp_thr. discriminate.
  - (* MrgFin *) injection Hs as <-. destruct T as [Tn [Cr M]].
    apply inv2_acc. constructor; simp_st.
    + apply (j_negq s J).
    + intros _ _ M'. congruence.
    + intros u y Hy. unfold enq_ok. simp_st. destruct (pcv y); auto.
  - (* MrgCas2 *) destruct (word_eqb old (shared s)) eqn:E; injection Hs as <-; [|L2 J Hx Hp].
    apply word_eqb_eq in E. subst old. destruct T as [Tn [Cr M]].
    assert (F : freed s = false) by (eapply not_freed; [exact I|exact Hx|unfold quiet; rewrite Hp; reflexivity]).
    pose proof (cnt_nonneg s I F (or_introl M)).
    peel. eapply inv2_gen; [exact J|exact Hx| | |side Hp].
    + simp_thr. intros _ C. lia.
    + simp_thr. intros M'. congruence.
Qed.


Lemma step_Inv2_c t s s' x : Inv s -> Inv2 s -> nth_error (thrs s) t = Some x ->
  match pcv x with
  | UnwNoneCas _ | UnwOwnLoad | MrgFin2 _ _ _ => True
  | _ => False
  end ->
  step fixed_cfg t s = Some s' -> Inv2 s'.
Proof.
  intros I J Hx Hsel Hs. unfold step in Hs. rewrite Hx in Hs.
  pose proof (i_tinv s I t x Hx) as T. unfold tinv in T.
  destruct (pcv x) eqn:Hp; try contradiction; simp_st.
  - (* UnwNoneCas *) destruct (word_eqb (with_cnt 1 old) (shared s)) eqn:E; injection Hs as <-; [|L2 J Hx Hp].
    destruct T as [T [Mo Qo]].
    eapply inv2_local with (x := set_pc_log Idle RUnwOk x).
    + peel. eapply inv2_gen; [exact J|exact Hx| | |side Hp].
      * simp_thr. intros _ C. lia.
      * simp_thr. intros M. congruence.
    + simp_st. apply nth_upd_same. exact Hx.
    + unfold is_fdpre. simp_thr. discriminate.
    + unfold enq_ok. simp_thr. exact Logic.I.
  - (* UnwOwnLoad *) split_conds Hs; injection Hs as <-; try solve [L2 J Hx Hp].
    eapply inv2_local with (x := set_pc_log Idle RUnwOk x).
    + peel. eapply inv2_local; [exact J|exact Hx|side Hp|side Hp].
    + simp_st. apply nth_upd_same. exact Hx.
    + unfold is_fdpre. simp_thr. discriminate.
    + unfold enq_ok. simp_thr. exact Logic.I.
  - (* MrgFin2 *) split_conds Hs; injection Hs as <-; unfold mrg_next; destruct n as [|[|m]]; destruct ph;
      unfold go, go_log; (eapply inv2_local; [peel; exact J|exact Hx|side Hp|side Hp]).
Qed.

Lemma step_Inv2_mrgbegin t s s' x ph : Inv s -> Inv2 s -> nth_error (thrs s) t = Some x -> pcv x = MrgBegin ph ->
  step fixed_cfg t s = Some s' -> Inv2 s'.
Proof.
  intros I J Hx Hp Hs. unfold step in Hs. rewrite Hx, Hp in Hs. simp_st. unfold tid in *.
  set (m := match ph with PUnreg => QUnreg | _ => QReg end) in *.
  set (present := match ph with PUnreg => true | _ => is_reg s t end) in *.
  match type of Hs with match ?e with O => _ | S _ => _ end = _ => remember e as n eqn:Dn in * end.
  set (s1 := if present then w_qs (remove_ent (m, Some t) (qs s)) s else s) in *.
  set (s2 := match ph with PFin => w_reg (filter (fun r => negb (Nat.eqb r t)) (registered s1)) s1 | _ => s1 end) in *.
  assert (J2 : Inv2 s2) by (subst s2 s1; destruct ph, present; repeat first [apply inv2_reg | apply inv2_qs]; exact J).
  assert (Hx2 : nth_error (thrs s2) t = Some x) by (subst s2 s1; destruct ph, present; exact Hx).
  set (g := fun y => set_macc (macc y + n) y).
  assert (J3 : Inv2 (on_thr t g s2)).
  { eapply inv2_local; [exact J2|exact Hx2|..]; subst g; [side Hp|unfold enq_ok; simp_thr; rewrite Hp; exact Logic.I]. }
  assert (Hx3 : nth_error (thrs (on_thr t g s2)) t = Some (g x)) by (apply nth_upd_same; exact Hx2).
  assert (Hp3 : pcv (g x) = MrgBegin ph) by exact Hp.
  destruct n as [|n']; cbv beta iota in Hs; injection Hs as <-.
  - unfold mrg_next. destruct ph; unfold go, go_log; (eapply inv2_local; [exact J3|exact Hx3|side Hp3|side Hp3]).
  - unfold go. eapply inv2_local; [exact J3|exact Hx3|side Hp3|side Hp3].
Qed.

Lemma step_Inv2_idle t s s' x : Inv s -> Inv2 s -> nth_error (thrs s) t = Some x -> pcv x = Idle ->
  step fixed_cfg t s = Some s' -> Inv2 s'.
Proof.
  intros I J Hx Hp Hs. unfold step in Hs. rewrite Hx, Hp in Hs. unfold start_op in Hs.
  destruct (prog x) as [|op rest] eqn:Pr; [discriminate|].
  destruct op; split_conds Hs; injection Hs as <-; try exact J;
    try solve [peel; eapply inv2_local; [exact J|exact Hx|side Hp|side Hp]].
  (* Send *)
  match goal with H : (_ || _ || is_dead s ?k) = false |- _ =>
    apply orb_false_iff in H as [H1 H3]; apply orb_false_iff in H1 as [H1 H2]; apply Nat.eqb_neq in H2;
    destruct (is_dead_false s k H3) as [y Hy] end.
  eapply inv2_local with (x := y).
  - eapply inv2_local; [exact J|exact Hx|side Hp|side Hp].
  - simp_st. rewrite nth_upd_other by congruence. exact Hy.
  - unfold is_fdpre. simp_thr. auto.
  - pose proof (j_enq s J _ y Hy) as EQ. unfold enq_ok in *. simp_thr. simp_st. exact EQ.
Qed.


Theorem step_Inv2 t s s' : Inv s -> Inv2 s -> step fixed_cfg t s = Some s' -> Inv2 s'.
Proof.
  intros I J Hs. destruct (nth_error (thrs s) t) as [x|] eqn:Hx;
    [|unfold step in Hs; rewrite Hx in Hs; discriminate].
  destruct (pcv x) eqn:Hp.
  all: try solve [eapply step_Inv2_a; [exact I|exact J|exact Hx|rewrite Hp; exact Logic.I|exact Hs]].
  all: try solve [eapply step_Inv2_b; [exact I|exact J|exact Hx|rewrite Hp; exact Logic.I|exact Hs]].
  all: try solve [eapply step_Inv2_c; [exact I|exact J|exact Hx|rewrite Hp; exact Logic.I|exact Hs]].
  - eapply step_Inv2_idle; eauto.
  - unfold step in Hs. rewrite Hx, Hp in Hs. discriminate.
  - eapply step_Inv2_mrgbegin; eauto.
Qed.

Theorem run_Inv12 : forall sched s, Inv s -> Inv2 s -> Inv (run fixed_cfg sched s) /\ Inv2 (run fixed_cfg sched s).
Proof.
  induction sched as [|t r IH]; intros s I J; simpl; auto.
  destruct (step fixed_cfg t s) as [s'|] eqn:E; auto. apply IH; [eapply step_Inv; eauto|eapply step_Inv2; eauto].
Qed.

Lemma sumf_all_zero f : forall l, (forall u x, nth_error l u = Some x -> f x = O) -> sumf f l = O.
Proof.
  induction l as [|a r IH]; intros Hall; simpl; auto.
  rewrite (Hall O a eq_refl). rewrite IH; auto. intros u x Hx. apply (Hall (S u) x Hx).
Qed.

(* every thread is between operations (or has ended) *)
Definition quiescent (s : st) : Prop :=
  forall u x, nth_error (thrs s) u = Some x -> pcv x = Idle \/ pcv x = Dead.

(* Reclamation: when no reference is left, no thread is inside an operation and nothing is left in a
   merge queue (i.e. the owner has run its merge after the last enqueue — the hypothesis under which
   the source, quoting the BRC paper, promises reclamation), the value has been destroyed. *)
Theorem reclaim_inv s : Inv s -> Inv2 s -> quiescent s -> sumh (thrs s) = O -> qs s = [] -> freed s = true.
Proof.
  intros I J Q H0 Q0. destruct (freed s) eqn:F; auto. exfalso.
  assert (T0 : sumf tok (thrs s) = O).
  { apply sumf_all_zero. intros u x Hx. unfold tok. destruct (Q u x Hx) as [E|E]; rewrite E; reflexivity. }
  assert (P0 : sumf pf (thrs s) = O).
  { apply sumf_all_zero. intros u x Hx. unfold pf. destruct (Q u x Hx) as [E|E]; rewrite E; reflexivity. }
  pose proof (i_qtok s I F) as QT. rewrite Q0, T0 in QT. simpl in QT.
  destruct (queued (shared s)) eqn:Qd; [discriminate|].
  pose proof (i_pend s I) as PE. rewrite F, P0 in PE.
  pose proof (i_count s I F) as C. unfold Proofs_C05_inv.H in C. rewrite <- sumh_sumf, H0 in C.
  unfold dead_word in PE. rewrite Qd in PE.
  destruct (merged (shared s)) eqn:M.
  - rewrite C in PE. simpl in PE. discriminate.
  - destruct (owner s) as [o|] eqn:O.
    + destruct (i_bpos s I o O) as [B|[x [Hx U]]].
      * pose proof (j_negq s J F ltac:(simpl in C; lia)). congruence.
      * unfold is_unown in U. destruct (Q o x Hx) as [E|E]; rewrite E in U; discriminate.
    + destruct (j_unown s J F O M) as [x [Hx U]].
      unfold is_fdpre in U. destruct (Q _ x Hx) as [E|E]; rewrite E in U; discriminate.
Qed.

Theorem reclaim cr regs progs sched : (cr < List.length progs)%nat ->
  let s := run fixed_cfg sched (init cr regs progs) in
  quiescent s -> sumh (thrs s) = O -> qs s = [] -> freed s = true /\ destr s = 1%nat.
Proof.
  intros Hc s Q H0 Q0.
  destruct (run_Inv12 sched (init cr regs progs) (init_Inv cr regs progs Hc) (init_Inv2 cr regs progs)) as [I J].
  assert (F : freed s = true) by (apply reclaim_inv; auto).
  split; auto. pose proof (i_once s I) as O1. fold s in O1. rewrite F in O1. exact O1.
Qed.
