(* C05 — lemmas (part 2): the invariants of the repaired step function [step fixed_cfg], for any
   number of threads, and their preservation by every micro-step. *)
From Coq Require Import List ZArith Bool Lia Arith.
From SV Require Import c05.Model_C05 c05.Proofs_C05.
Import ListNotations.
Open Scope Z_scope.

(* ------------------------------------------------------------------------------------------------ *)
(* lists of threads                                                                                  *)
(* ------------------------------------------------------------------------------------------------ *)
Definition sumf (f : thr -> nat) (l : list thr) : nat := fold_right (fun x a => (f x + a)%nat) O l.

Lemma sumh_sumf l : sumh l = sumf held l.
Proof. induction l; simpl; auto. Qed.

Lemma sumf_upd f : forall l t g x, nth_error l t = Some x ->
  (sumf f (upd t g l) + f x = sumf f l + f (g x))%nat.
Proof.
  induction l as [|y r IH]; intros [|t] g x H; simpl in *; try discriminate.
  - inversion H; subst. lia.
  - specialize (IH _ g _ H). lia.
Qed.

Lemma sumf_ge f : forall l t x, nth_error l t = Some x -> (f x <= sumf f l)%nat.
Proof.
  induction l as [|y r IH]; intros [|t] x H; simpl in *; try discriminate.
  - inversion H; subst. lia.
  - specialize (IH _ _ H). lia.
Qed.

Lemma sumf_ge2 f : forall l t u x y, t <> u -> nth_error l t = Some x -> nth_error l u = Some y ->
  (f x + f y <= sumf f l)%nat.
Proof.
  induction l as [|z r IH]; intros [|t] [|u] x y Hne Hx Hy; simpl in *; try discriminate; try congruence.
  - inversion Hx; subst. pose proof (sumf_ge f _ _ _ Hy). lia.
  - inversion Hy; subst. pose proof (sumf_ge f _ _ _ Hx). lia.
  - assert (t <> u) by congruence. specialize (IH _ _ _ _ H Hx Hy). lia.
Qed.

Lemma sumf_zero f : forall l, sumf f l = O -> forall t x, nth_error l t = Some x -> f x = O.
Proof. intros l H t x Hx. pose proof (sumf_ge f _ _ _ Hx). lia. Qed.

Lemma nth_upd_same : forall l t g x, nth_error l t = Some x -> nth_error (upd t g l) t = Some (g x).
Proof.
  induction l as [|y r IH]; intros [|t] g x H; simpl in *; try discriminate.
  - inversion H; subst; reflexivity.
  - eauto.
Qed.
Lemma nth_upd_other : forall l t u g, t <> u -> nth_error (upd t g l) u = nth_error l u.
Proof. induction l as [|y r IH]; intros [|t] [|u] g H; simpl; auto; try congruence. Qed.

Lemma nth_upd_inv : forall l t g u y, nth_error (upd t g l) u = Some y ->
  (u = t /\ exists x, nth_error l t = Some x /\ y = g x) \/ (u <> t /\ nth_error l u = Some y).
Proof.
  intros l t g u y H. destruct (Nat.eq_dec u t) as [->|Hne].
  - left. split; auto. destruct (nth_error l t) as [x|] eqn:E.
    + rewrite (nth_upd_same _ _ _ _ E) in H. inversion H. eauto.
    + exfalso. revert t H E. induction l as [|z r IH]; intros [|t] H E; simpl in *; try discriminate. eauto.
  - right. split; auto. rewrite nth_upd_other in H by congruence. exact H.
Qed.

Lemma upd_length : forall l t g, List.length (upd t g l) = List.length l.
Proof. induction l as [|y r IH]; intros [|t] g; simpl; auto. Qed.

(* queue entries *)
Lemma count_remove e q : (List.length (remove_ent e q) + count_ent e q = List.length q)%nat.
Proof.
  unfold remove_ent, count_ent. induction q as [|a r IH]; simpl; auto.
  destruct (ent_eqb e a); simpl; lia.
Qed.

Lemma key_eqb_eq a b : key_eqb a b = true -> a = b.
Proof. destruct a, b; simpl; try discriminate; auto. intros H. apply Nat.eqb_eq in H. congruence. Qed.

Lemma count_pos_key m k q : (0 < count_ent (m, k) q)%nat -> exists m', In (m', k) q.
Proof.
  unfold count_ent. induction q as [|a r IH]; simpl; [lia|].
  destruct (ent_eqb (m, k) a) eqn:E.
  - intros _. unfold ent_eqb in E. apply andb_true_iff in E as [_ E]. simpl in E.
    apply key_eqb_eq in E. destruct a as [m' k']. simpl in E. subst. eauto.
  - intros H. destruct (IH H) as [m' Hin]. eauto.
Qed.

Lemma remove_ent_In e q x : In x (remove_ent e q) -> In x q.
Proof. unfold remove_ent. intros H. apply filter_In in H. tauto. Qed.

(* ------------------------------------------------------------------------------------------------ *)
(* The invariants (for fixed_cfg)                                                                    *)
(* ------------------------------------------------------------------------------------------------ *)
Definition H (s : st) : nat := sumf held (thrs s).

(* queue tokens: who is responsible for the `queued` flag *)
Definition tok (x : thr) : nat :=
  match pcv x with
  | DecFin old new => if negb (Bool.eqb (queued old) (queued new)) then 1 else 0
  | EnqRdOwner | EnqPush _ | EnqLoad | EnqCas _ => 1
  | MrgLoad _ n | MrgCas _ n _ | MrgFin _ n _ | MrgCas2 _ n _ => n
  | MrgFin2 _ n _ => pred n
  | _ => 0
  end%nat.

(* pending deallocation: the thread has decided to deallocate *)
Definition dead_word (w : word) : bool := merged w && (cnt w =? 0) && negb (queued w).
Definition pf (x : thr) : nat :=
  match pcv x with
  | DecFastFin new => if (cnt new =? 0) && negb (queued new) then 1%nat else O
  | DecFin old new => if negb (Bool.eqb (queued old) (queued new)) then O
                      else if merged new && (cnt new =? 0) && negb (queued new) then 1%nat else O
  | EnqFin new => if merged new && (cnt new =? 0) then 1%nat else O
  | MrgFin2 _ _ new => if cnt new =? 0 then 1%nat else O
  | _ => O
  end.

(* program counters whose next step does not touch the box *)
Definition quiet (x : thr) : bool :=
  match pcv x with
  | Idle | Dead | MrgBegin _ | RegStep => true
  | DecFastFin _ | DecFin _ _ | EnqFin _ => Nat.eqb (tok x) 0 && Nat.eqb (pf x) 0
  | MrgFin2 _ n _ => Nat.eqb (tok x) 0 && Nat.eqb (pf x) 0
  | _ => false
  end.

Definition tinv (s : st) (u : tid) (x : thr) : Prop :=
  match pcv x with
  | IncRdOwner | IncLoad | IncCas _ | DecRdOwner | DecLoad | DecCas _
  | UnqRdOwner | UnwRdOwner | CntLoad | CntRdOwner | UmRdOwner => (1 <= held x)%nat
  | UnqNoneLoad | UnwNoneLoad | UmNoneLoad => (1 <= held x)%nat /\ owner s = None
  | UnqNoneCas _ | UmNoneCas _ => False
  | UnwNoneCas old => (1 <= held x)%nat /\ merged old = true /\ queued old = false
  | IncFast | DecFast | UnqOwnRdBiased | UnwOwnRdBiased | CntRdBiased | UmOwnRdBiased => (1 <= held x)%nat /\ owner s = Some u
  | UnqOwnLoad | UnwOwnLoad | UmOwnLoad => (1 <= held x)%nat /\ owner s = Some u /\ biased s = 1
  | DecFastUnown => owner s = Some u /\ biased s = 0
  | DecFastLoad | DecFastCas _ => owner s = None /\ biased s = 0 /\ merged (shared s) = false /\ u = creator s
  | DecFastFin w => merged w = true
  | EnqPush key => key = Some (creator s)
  | MrgLoad _ n | MrgCas _ n _ => (1 <= n)%nat /\ u = creator s
  | MrgFin _ n w => (1 <= n)%nat /\ u = creator s /\ merged (shared s) = true
  | MrgCas2 _ n w => (1 <= n)%nat /\ u = creator s /\ merged (shared s) = true
  | MrgFin2 _ n w => (1 <= n)%nat /\ u = creator s /\ merged w = true /\ queued w = false
  | _ => True
  end.

Definition is_mrgfin (x : thr) : bool := match pcv x with MrgFin _ _ _ => true | _ => false end.
Definition is_mrgpost (x : thr) : bool := match pcv x with MrgFin _ _ _ | MrgCas2 _ _ _ => true | _ => false end.
Definition is_unown (x : thr) : bool := match pcv x with DecFastUnown => true | _ => false end.

Record Inv (s : st) : Prop := {
  i_count : freed s = false ->
            if merged (shared s) then cnt (shared s) = Z.of_nat (H s)
            else biased s + cnt (shared s) = Z.of_nat (H s);
  i_qtok : freed s = false ->
           (List.length (qs s) + sumf tok (thrs s) = if queued (shared s) then 1 else 0)%nat;
  i_pend : sumf pf (thrs s) = if freed s then O else if dead_word (shared s) then 1%nat else O;
  i_alive : freed s = true ->
            H s = O /\ qs s = [] /\ forall u x, nth_error (thrs s) u = Some x -> quiet x = true;
  i_once : destr s = if freed s then 1%nat else O;
  i_merged : merged (shared s) = true -> forall o, owner s = Some o ->
             exists x, nth_error (thrs s) o = Some x /\ is_mrgfin x = true;
  i_ownerc : owner s = None \/ owner s = Some (creator s);
  i_onb : owner s = None -> merged (shared s) = false -> biased s = 0;
  i_keys : forall e, In e (qs s) -> snd e = Some (creator s);
  i_tinv : forall u x, nth_error (thrs s) u = Some x -> tinv s u x;
  i_uaf : uaf s = O;
  i_excl : exclbad s = O;
  i_bpos : forall o, owner s = Some o ->
           1 <= biased s \/ exists x, nth_error (thrs s) o = Some x /\ is_unown x = true;
  i_mb : merged (shared s) = true ->
         biased s = 0 \/ queued (shared s) = false \/
         exists u y, nth_error (thrs s) u = Some y /\ is_mrgpost y = true
}.

(* ------------------------------------------------------------------------------------------------ *)
(* Initial states                                                                                    *)
(* ------------------------------------------------------------------------------------------------ *)
Lemma sumf_map_mk f progs : (forall p, f (mk_thr p) = O) -> sumf f (map mk_thr progs) = O.
Proof. intros Hf. induction progs; simpl; auto. rewrite Hf, IHprogs. reflexivity. Qed.

Lemma nth_map_mk progs u x : nth_error (map mk_thr progs) u = Some x -> exists p, x = mk_thr p.
Proof.
  revert u. induction progs as [|p r IH]; intros [|u] Hx; simpl in *; try discriminate.
  - inversion Hx. eauto.
  - eauto.
Qed.

Lemma init_Inv cr regs progs : (cr < List.length progs)%nat -> Inv (init cr regs progs).
Proof.
  intros Hcr.
  assert (exists p, nth_error (map mk_thr progs) cr = Some (mk_thr p)) as [p Hp].
  { destruct (nth_error progs cr) as [p|] eqn:E.
    - exists p. rewrite nth_error_map, E. reflexivity.
    - apply nth_error_None in E. lia. }
  assert (Hall : forall f g, (forall p, f (mk_thr p) = O) -> (forall x, f (g x) = f x) ->
                 sumf f (upd cr g (map mk_thr progs)) = O).
  { intros f g Hf Hg. pose proof (sumf_upd f _ _ g _ Hp) as E. rewrite (sumf_map_mk f progs Hf), Hf, Hg, Hf in E. lia. }
  constructor; unfold init, H; simpl.
  - intros _. pose proof (sumf_upd held _ _ add_held _ Hp) as E.
    rewrite (sumf_map_mk held progs) in E by reflexivity. simpl in E. lia.
  - intros _. rewrite Hall; auto.
  - rewrite Hall; auto.
  - discriminate.
  - reflexivity.
  - discriminate.
  - auto.
  - discriminate.
  - intros e [].
  - intros u x Hx. apply nth_upd_inv in Hx as [[-> [y [Hy ->]]]|[Hne Hx]].
    + rewrite Hp in Hy. inversion Hy; subst. exact I.
    + apply nth_map_mk in Hx as [q ->]. exact I.
  - reflexivity.
  - reflexivity.
  - intros; left; lia.
  - discriminate.
Qed.
