(* C05 — property theorems only.  Statements are pinned in Pins_C05.v.

   STATUS (see also the evidence file): the invariant [Inv] of the repaired micro-step model is
   defined for ANY number of threads; it holds initially (C05_init_Inv), implies the property-level
   facts (C05_Inv_sound: no access after deallocation, exclusive access only with a single live
   reference, the destructor runs at most once and only when no reference is left, nothing queued
   points to a destroyed box), and is PRESERVED by the micro-steps listed in [covered]
   (C05_step_preserves_Inv_partial: 20 of the 41 program counters).  The remaining micro-steps
   (compare-exchange of the decrement / merge / enqueue paths, the deallocating steps, the
   operation starts) are not yet proved: for them the invariant is validated only by the
   correspondence on random and systematic schedules.  Hence the level claimed is `partial`. *)
From Coq Require Import List ZArith Bool.
From SV Require Import c05.Model_C05 c05.Proofs_C05 c05.Proofs_C05_inv c05.Proofs_C05_step c05.Proofs_C05_gen gen.Gen_C05.
Import ListNotations.

Theorem C05_pack_roundtrip : forall w, in_range VALUE_BITS w ->
  unpack VALUE_BITS MERGED_BIT QUEUED_BIT (pack VALUE_BITS MERGED_BIT QUEUED_BIT w) = w.
Proof. exact pack_roundtrip_repo. Qed.

Theorem C05_assert_range : ASSERT_RANGE_BITS = (VALUE_BITS - 1)%Z.
Proof. exact assert_range_repo. Qed.

(* the tree being checked is the repaired variant of the model *)
Theorem C05_repo_cfg_fixed : repo_cfg = fixed_cfg.
Proof. exact repo_cfg_fixed. Qed.

Theorem C05_init_Inv : forall cr regs progs, (cr < List.length progs)%nat -> Inv (init cr regs progs).
Proof. exact init_Inv. Qed.

Theorem C05_Inv_sound : forall s, Inv s ->
  uaf s = O /\ exclbad s = O /\ (destr s <= 1)%nat /\ (destr s = 1%nat <-> freed s = true) /\
  (freed s = true -> sumh (thrs s) = O /\ qs s = []).
Proof. exact Inv_sound. Qed.

Theorem C05_step_preserves_Inv_partial : forall t s s' x,
  Inv s -> nth_error (thrs s) t = Some x -> covered (pcv x) = true ->
  step fixed_cfg t s = Some s' -> Inv s'.
Proof. exact step_Inv_covered. Qed.

Theorem C05_has_unique_ref_refuted :
  let s := run original_cfg f1_sched (init 0%nat [0; 1]%nat f1_progs) in
  freed s = true /\ (0 < sumh (thrs s))%nat /\ (0 < uaf s)%nat.
Proof. exact has_unique_ref_refuted_w. Qed.

Theorem C05_freed_while_queued_refuted :
  let s := run f1_fixed_cfg f17_sched (init 0%nat [0; 1]%nat f17_progs) in
  (0 < uaf s)%nat /\ destr s = 2%nat.
Proof. exact freed_while_queued_refuted_w. Qed.

Theorem C05_witnesses_repaired :
  (let s := run fixed_cfg f1_sched (init 0%nat [0; 1]%nat f1_progs) in
   freed s = false /\ sumh (thrs s) = 1%nat /\ uaf s = 0%nat) /\
  (let s := run fixed_cfg f17_sched (init 0%nat [0; 1]%nat f17_progs) in
   uaf s = 0%nat /\ destr s = 1%nat /\ freed s = true /\ sumh (thrs s) = 0%nat).
Proof. exact (conj has_unique_ref_repaired_w freed_while_queued_repaired_w). Qed.
