(* C05 — property theorems only.  Statements are pinned in Pins_C05.v.

   The model has ONE shared value and ANY number of threads; a schedule is a `list tid`; every
   theorem below quantifies over all creators, registrations, per-thread operation lists and
   schedules.  [uaf] counts accesses to the box after its deallocation, [exclbad] counts grants of
   exclusive access (get_mut = Some, try_unwrap = Ok) made while the number of live references was
   not one (C05_exclusive_monitor_spec), [destr] counts destructor runs.  Memory model: sequential
   consistency. *)
From Coq Require Import List ZArith Bool.
From SV Require Import c05.Model_C05 c05.Proofs_C05 c05.Proofs_C05_inv c05.Proofs_C05_step c05.Proofs_C05_step2 c05.Proofs_C05_reclaim c05.Proofs_C05_gen gen.Gen_C05.
Import ListNotations.

Theorem C05_pack_roundtrip : forall w, in_range VALUE_BITS w ->
  unpack VALUE_BITS MERGED_BIT QUEUED_BIT (pack VALUE_BITS MERGED_BIT QUEUED_BIT w) = w.
Proof. exact pack_roundtrip_repo. Qed.

Theorem C05_assert_range : ASSERT_RANGE_BITS = (VALUE_BITS - 1)%Z.
Proof. exact assert_range_repo. Qed.

(* the tree being checked is the repaired variant of the model *)
Theorem C05_repo_cfg_fixed : repo_cfg = fixed_cfg.
Proof. exact repo_cfg_fixed. Qed.

Theorem C05_init_Inv : forall cr regs progs, (cr < List.length progs)%nat -> Inv (init cr regs progs).
Proof. exact init_Inv. Qed.

Theorem C05_Inv_sound : forall s, Inv s ->
  uaf s = O /\ exclbad s = O /\ (destr s <= 1)%nat /\ (destr s = 1%nat <-> freed s = true) /\
  (freed s = true -> sumh (thrs s) = O /\ qs s = []).
Proof. exact Inv_sound. Qed.

Theorem C05_step_preserves_Inv : forall t s s', Inv s -> step fixed_cfg t s = Some s' -> Inv s'.
Proof. exact step_Inv. Qed.

Theorem C05_schedule_preserves_Inv : forall cr regs progs sched, (cr < List.length progs)%nat ->
  Inv (run fixed_cfg sched (init cr regs progs)).
Proof. exact reachable_Inv. Qed.

(* no access to the value after it was destroyed, under every schedule *)
Theorem C05_no_use_after_free : forall cr regs progs sched, (cr < List.length progs)%nat ->
  uaf (run repo_cfg sched (init cr regs progs)) = O.
Proof. exact no_uaf_repo. Qed.

(* destroyed at most once, and only when no reference is left and nothing queued points to it *)
Theorem C05_destroyed_once : forall cr regs progs sched, (cr < List.length progs)%nat ->
  let s := run repo_cfg sched (init cr regs progs) in
  (destr s <= 1)%nat /\ (destr s = 1%nat <-> freed s = true) /\
  (freed s = true -> sumh (thrs s) = O /\ qs s = []).
Proof. exact destroyed_once_repo. Qed.

(* exclusive access is granted only to the holder of the only reference, and asking for it changes
   no count *)
Theorem C05_exclusive_sound : forall cr regs progs sched, (cr < List.length progs)%nat ->
  let s := run repo_cfg sched (init cr regs progs) in
  exclbad s = O /\
  (forall t x s', nth_error (thrs s) t = Some x ->
     match pcv x with UnqRdOwner | UnqNoneLoad | UnqOwnRdBiased | UnqOwnLoad
                  | UmRdOwner | UmNoneLoad | UmOwnRdBiased | UmOwnLoad => True | _ => False end ->
     step repo_cfg t s = Some s' ->
     owner s' = owner s /\ biased s' = biased s /\ shared s' = shared s /\ freed s' = freed s /\
     destr s' = destr s /\ qs s' = qs s /\ sumh (thrs s') = sumh (thrs s)).
Proof. exact exclusive_sound_repo. Qed.

(* reclamation, under the hypothesis that nothing is left in a merge queue (the owner has merged after
   the last enqueue; an owner that ended without merging is the limitation documented in lib.rs):
   once no reference is left and no thread is inside an operation, the value has been destroyed,
   exactly once *)
Theorem C05_reclaim : forall cr regs progs sched, (cr < List.length progs)%nat ->
  let s := run repo_cfg sched (init cr regs progs) in
  quiescent s -> sumh (thrs s) = O -> qs s = [] -> freed s = true /\ destr s = 1%nat.
Proof. exact reclaim_repo. Qed.

Theorem C05_exclusive_monitor_spec : forall s, exclbad (excl_check s) = exclbad s <-> sumh (thrs s) = 1%nat.
Proof. exact excl_check_spec. Qed.

Theorem C05_has_unique_ref_refuted :
  let s := run original_cfg f1_sched (init 0%nat [0; 1]%nat f1_progs) in
  freed s = true /\ (0 < sumh (thrs s))%nat /\ (0 < uaf s)%nat.
Proof. exact has_unique_ref_refuted_w. Qed.

Theorem C05_freed_while_queued_refuted :
  let s := run f1_fixed_cfg f17_sched (init 0%nat [0; 1]%nat f17_progs) in
  (0 < uaf s)%nat /\ destr s = 2%nat.
Proof. exact freed_while_queued_refuted_w. Qed.

Theorem C05_witnesses_repaired :
  (let s := run fixed_cfg f1_sched (init 0%nat [0; 1]%nat f1_progs) in
   freed s = false /\ sumh (thrs s) = 1%nat /\ uaf s = 0%nat) /\
  (let s := run fixed_cfg f17_sched (init 0%nat [0; 1]%nat f17_progs) in
   uaf s = 0%nat /\ destr s = 1%nat /\ freed s = true /\ sumh (thrs s) = 0%nat).
Proof. exact (conj has_unique_ref_repaired_w freed_while_queued_repaired_w). Qed.
