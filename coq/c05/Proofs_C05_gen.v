(* C05 — lemmas that depend on the constants / configuration regenerated from lib.rs (gen/Gen_C05.v),
   and the refutation witnesses for the code as it was. *)
From Coq Require Import List ZArith Bool Lia.
From SV Require Import c05.Model_C05 c05.Proofs_C05 gen.Gen_C05.
Import ListNotations.

Lemma pack_roundtrip_repo : forall w, in_range VALUE_BITS w ->
  unpack VALUE_BITS MERGED_BIT QUEUED_BIT (pack VALUE_BITS MERGED_BIT QUEUED_BIT w) = w.
Proof.
  intros w Hw.
  change MERGED_BIT with (VALUE_BITS + 1)%Z. change QUEUED_BIT with VALUE_BITS.
  apply pack_roundtrip_gen; [vm_compute; discriminate | exact Hw].
Qed.

Lemma assert_range_repo : ASSERT_RANGE_BITS = (VALUE_BITS - 1)%Z.
Proof. reflexivity. Qed.

Lemma repo_cfg_fixed : repo_cfg = fixed_cfg.
Proof. reflexivity. Qed.

(* F1 (has_unique_ref of a merged box CASes the counter 1 -> 0): thread 1 holds the only reference,
   get_mut succeeds and leaves the counter at 0; clone + drop then destroys the value while the
   reference is still held, and the next read touches the destroyed box. *)
Definition f1_progs : list (list api) :=
  [[Clone; Send 1; Await 2; Drop; Drop]; [Await 1; Clone; Send 0; GetMut; Clone; Drop; Read]]%nat.
Definition f1_sched : list tid := (repeat 0 8 ++ repeat 1 6 ++ repeat 0 30 ++ repeat 1 40)%nat.

Lemma has_unique_ref_refuted_w :
  let s := run original_cfg f1_sched (init 0%nat [0; 1]%nat f1_progs) in
  freed s = true /\ (0 < sumh (thrs s))%nat /\ (0 < uaf s)%nat.
Proof. vm_compute. repeat split; apply Nat.lt_0_succ || constructor. Qed.

Lemma has_unique_ref_repaired_w :
  let s := run fixed_cfg f1_sched (init 0%nat [0; 1]%nat f1_progs) in
  freed s = false /\ sumh (thrs s) = 1%nat /\ uaf s = 0%nat.
Proof. vm_compute. repeat split. Qed.

(* F17 (deallocation while the box sits in its owner's merge queue), on the code with F1 repaired:
   the owner's later explicit merge touches the destroyed box and runs the destructor again. *)
Definition f17_progs : list (list api) :=
  [[Clone; Clone; Send 1; Send 1; Await 3; Drop; Drop; Drop; Merge]; [Await 2; Drop; Clone; Send 0; Send 0]]%nat.
Definition f17_sched : list tid := (repeat 0 12 ++ repeat 1 40 ++ repeat 0 60)%nat.

Lemma freed_while_queued_refuted_w :
  let s := run f1_fixed_cfg f17_sched (init 0%nat [0; 1]%nat f17_progs) in
  (0 < uaf s)%nat /\ destr s = 2%nat.
Proof. vm_compute. split; [apply Nat.lt_0_succ | reflexivity]. Qed.

Lemma freed_while_queued_repaired_w :
  let s := run fixed_cfg f17_sched (init 0%nat [0; 1]%nat f17_progs) in
  uaf s = 0%nat /\ destr s = 1%nat /\ freed s = true /\ sumh (thrs s) = 0%nat.
Proof. vm_compute. repeat split. Qed.

(* ------------------------------------------------------------------------------------------------ *)
(* The property-level theorems, for the configuration read from the tree being checked               *)
(* ------------------------------------------------------------------------------------------------ *)
From SV Require Import c05.Proofs_C05_inv c05.Proofs_C05_step c05.Proofs_C05_step2 c05.Proofs_C05_reclaim.

Lemma no_uaf_repo : forall cr regs progs sched, (cr < List.length progs)%nat ->
  uaf (run repo_cfg sched (init cr regs progs)) = O.
Proof. rewrite repo_cfg_fixed. exact no_uaf. Qed.

Lemma destroyed_once_repo : forall cr regs progs sched, (cr < List.length progs)%nat ->
  let s := run repo_cfg sched (init cr regs progs) in
  (destr s <= 1)%nat /\ (destr s = 1%nat <-> freed s = true) /\
  (freed s = true -> sumh (thrs s) = O /\ qs s = []).
Proof. rewrite repo_cfg_fixed. exact destroyed_once. Qed.

Lemma exclusive_sound_repo : forall cr regs progs sched, (cr < List.length progs)%nat ->
  let s := run repo_cfg sched (init cr regs progs) in
  exclbad s = O /\
  (forall t x s', nth_error (thrs s) t = Some x ->
     match pcv x with UnqRdOwner | UnqNoneLoad | UnqOwnRdBiased | UnqOwnLoad
                  | UmRdOwner | UmNoneLoad | UmOwnRdBiased | UmOwnLoad => True | _ => False end ->
     step repo_cfg t s = Some s' ->
     owner s' = owner s /\ biased s' = biased s /\ shared s' = shared s /\ freed s' = freed s /\
     destr s' = destr s /\ qs s' = qs s /\ sumh (thrs s') = sumh (thrs s)).
Proof. rewrite repo_cfg_fixed. exact exclusive_sound. Qed.

Lemma reclaim_repo : forall cr regs progs sched, (cr < List.length progs)%nat ->
  let s := run repo_cfg sched (init cr regs progs) in
  quiescent s -> sumh (thrs s) = O -> qs s = [] -> freed s = true /\ destr s = 1%nat.
Proof. rewrite repo_cfg_fixed. exact reclaim. Qed.
