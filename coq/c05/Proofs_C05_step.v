(* C05 — lemmas (part 3): preservation of the invariant Inv by the micro-steps of [step fixed_cfg]. *)
From Coq Require Import List ZArith Bool Lia Arith.
From SV Require Import c05.Model_C05 c05.Proofs_C05 c05.Proofs_C05_inv.
Import ListNotations.
Open Scope Z_scope.

(* ================= helper lemmas for step preservation ================= *)


Ltac simp_st := cbn [creator owner biased shared freed destr qs registered uaf exclbad thrs
   acc go go_log on_thr w_thrs w_owner w_biased w_shared w_qs w_reg do_free excl_check
   c_unq_cas c_fd_unown_first c_fd_guard c_sd_guard c_uwo_guard c_uwn_guard c_mrg_two c_enq_none fixed_cfg] in *.
Ltac simp_thr := cbn [pcv held prog log macc set_pc set_pc_log add_held sub_held set_prog set_macc
   cnt merged queued with_cnt with_merged with_unqueued] in *.

(* tinv depends on the state only through owner, biased, merged (shared), creator *)
Lemma tinv_ext s s' u y :
  owner s' = owner s -> biased s' = biased s -> merged (shared s') = merged (shared s) ->
  creator s' = creator s -> tinv s u y -> tinv s' u y.
Proof.
  intros Ho Hb Hm Hc. unfold tinv. rewrite Ho, Hb, Hm, Hc. auto.
Qed.

(* a thread that is not quiet proves that the box is not deallocated *)
Lemma not_freed s t x : Inv s -> nth_error (thrs s) t = Some x -> quiet x = false -> freed s = false.
Proof.
  intros I Hx Hq. destruct (freed s) eqn:F; auto.
  destruct (i_alive s I F) as [_ [_ A]]. rewrite (A _ _ Hx) in Hq. discriminate.
Qed.

Lemma held_not_freed s t x : Inv s -> nth_error (thrs s) t = Some x -> (1 <= held x)%nat -> freed s = false.
Proof.
  intros I Hx Hh. destruct (freed s) eqn:F; auto.
  destruct (i_alive s I F) as [A _]. unfold H in A. pose proof (sumf_ge held _ _ _ Hx). lia.
Qed.

(* Shape A: only the program counter / log / program of thread t changes *)
Lemma inv_local s t x g :
  Inv s -> nth_error (thrs s) t = Some x ->
  held (g x) = held x -> tok (g x) = tok x -> pf (g x) = pf x ->
  (is_mrgfin x = true -> is_mrgfin (g x) = true) ->
  (is_mrgpost x = true -> is_mrgpost (g x) = true) ->
  (is_unown x = true -> is_unown (g x) = true) ->
  (freed s = true -> quiet (g x) = true) ->
  tinv s t (g x) ->
  Inv (on_thr t g s).
Proof.
  intros I Hx Hh Ht Hpf Hm Hmp Hun Hq Hti.
  pose proof (sumf_upd held _ _ g _ Hx) as SH. pose proof (sumf_upd tok _ _ g _ Hx) as ST.
  pose proof (sumf_upd pf _ _ g _ Hx) as SP. rewrite Hh in SH. rewrite Ht in ST. rewrite Hpf in SP.
  assert (EH : sumf held (upd t g (thrs s)) = sumf held (thrs s)) by lia.
  assert (ET : sumf tok (upd t g (thrs s)) = sumf tok (thrs s)) by lia.
  assert (EP : sumf pf (upd t g (thrs s)) = sumf pf (thrs s)) by lia.
  destruct I. constructor; unfold H in *; simp_st; rewrite ?EH, ?ET, ?EP; auto.
  - intros F. destruct (i_alive F) as [A [B C]]. repeat split; auto.
    intros u y Hy. apply nth_upd_inv in Hy as [[-> [x' [Hx' ->]]]|[Hne Hy]]; eauto.
    rewrite Hx in Hx'. inversion Hx'; subst. auto.
  - intros M o Ho. destruct (i_merged M o Ho) as [y [Hy My]].
    destruct (Nat.eq_dec o t) as [->|Hne].
    + rewrite Hx in Hy. inversion Hy; subst y. exists (g x). split; auto. apply nth_upd_same; auto.
    + exists y. split; auto. rewrite nth_upd_other by congruence. auto.
  - intros u y Hy. apply nth_upd_inv in Hy as [[-> [x' [Hx' ->]]]|[Hne Hy]].
    + rewrite Hx in Hx'. inversion Hx'; subst x'. eapply tinv_ext; [..|exact Hti]; reflexivity.
    + eapply tinv_ext; [..|exact (i_tinv _ _ Hy)]; reflexivity.
  - intros o Ho. destruct (i_bpos o Ho) as [B|[y [Hy Uy]]]; [left; auto|right].
    destruct (Nat.eq_dec o t) as [->|Hne].
    + rewrite Hx in Hy. inversion Hy; subst y. exists (g x). split; auto. apply nth_upd_same; auto.
    + exists y. split; auto. rewrite nth_upd_other by congruence. auto.
  - intros M. destruct (i_mb M) as [B|[B|[u [y [Hy Py]]]]]; auto. right; right.
    destruct (Nat.eq_dec u t) as [->|Hne].
    + rewrite Hx in Hy. inversion Hy; subst y. exists t, (g x). split; auto. apply nth_upd_same; auto.
    + exists u, y. split; auto. rewrite nth_upd_other by congruence. auto.
Qed.

Lemma inv_acc s : Inv s -> freed s = false -> Inv (acc s).
Proof.
  intros I F. destruct I. constructor; unfold H in *; simp_st; auto.
  rewrite F; auto.
Qed.


Definition mk (s : st) (o : option tid) (b : Z) (w : word) (q : list (qmap * option tid)) (r : list tid)
  (l : list thr) : st :=
  {| creator := creator s; owner := o; biased := b; shared := w; freed := freed s; destr := destr s;
     qs := q; registered := r; uaf := uaf s; exclbad := exclbad s; thrs := l |}.

(* Shape B: thread t moves and the object / queue change, the box stays allocated *)
Lemma inv_gen s t x g o b w q r :
  Inv s -> nth_error (thrs s) t = Some x -> freed s = false ->
  (if merged w then cnt w = Z.of_nat (H s) - Z.of_nat (held x) + Z.of_nat (held (g x))
   else b + cnt w = Z.of_nat (H s) - Z.of_nat (held x) + Z.of_nat (held (g x))) ->
  (List.length q + sumf tok (thrs s) + tok (g x) = (if queued w then 1 else 0) + tok x)%nat ->
  (sumf pf (thrs s) + pf (g x) = (if dead_word w then 1 else 0) + pf x)%nat ->
  (merged w = true -> forall o', o = Some o' ->
     (o' = t /\ is_mrgfin (g x) = true) \/
     (o' <> t /\ exists y, nth_error (thrs s) o' = Some y /\ is_mrgfin y = true)) ->
  (o = None \/ o = Some (creator s)) ->
  (o = None -> merged w = false -> b = 0) ->
  (forall e, In e q -> snd e = Some (creator s)) ->
  tinv (mk s o b w q r (upd t g (thrs s))) t (g x) ->
  (forall u y, u <> t -> nth_error (thrs s) u = Some y -> tinv (mk s o b w q r (upd t g (thrs s))) u y) ->
  (forall o', o = Some o' -> 1 <= b \/ (o' = t /\ is_unown (g x) = true) \/
     (o' <> t /\ exists y, nth_error (thrs s) o' = Some y /\ is_unown y = true)) ->
  (merged w = true -> b = 0 \/ queued w = false \/ is_mrgpost (g x) = true \/
     exists u y, u <> t /\ nth_error (thrs s) u = Some y /\ is_mrgpost y = true) ->
  Inv (mk s o b w q r (upd t g (thrs s))).
Proof.
  intros I Hx F Hc Hq Hp Hm Ho Honb Hk Ht Hoth Hbp Hmb.
  pose proof (sumf_upd held _ _ g _ Hx) as SH. pose proof (sumf_upd tok _ _ g _ Hx) as ST.
  pose proof (sumf_upd pf _ _ g _ Hx) as SP.
  pose proof (sumf_ge held _ _ _ Hx) as GH.
  constructor; unfold mk, H in *; cbn [creator owner biased shared freed destr qs registered uaf exclbad thrs].
  - intros _. destruct (merged w); lia.
  - intros _. lia.
  - rewrite F. pose proof (sumf_ge pf _ _ _ Hx). lia.
  - rewrite F. discriminate.
  - apply (i_once s I).
  - intros M o' Ho'. destruct (Hm M o' Ho') as [[-> Mg]|[Hne [y [Hy My]]]].
    + exists (g x). split; auto. apply nth_upd_same; auto.
    + exists y. split; auto. rewrite nth_upd_other by congruence. auto.
  - auto.
  - auto.
  - auto.
  - intros u y Hy. apply nth_upd_inv in Hy as [[-> [x' [Hx' ->]]]|[Hne Hy]].
    + rewrite Hx in Hx'. inversion Hx'; subst x'. exact Ht.
    + apply Hoth; auto.
  - apply (i_uaf s I).
  - apply (i_excl s I).
  - intros o' Ho'. destruct (Hbp o' Ho') as [B|[[-> U]|[Hne [y [Hy U]]]]]; [left; auto|right|right].
    + exists (g x). split; auto. apply nth_upd_same; auto.
    + exists y. split; auto. rewrite nth_upd_other by congruence. auto.
  - intros M. destruct (Hmb M) as [B|[B|[B|[u [y [Hne [Hy Py]]]]]]]; auto; right; right.
    + exists t, (g x). split; auto. apply nth_upd_same; auto.
    + exists u, y. split; auto. rewrite nth_upd_other by congruence. auto.
Qed.

(* how the per-thread invariant of the OTHER threads survives a change of the object *)
Ltac other_tac := unfold tinv; cbn [creator owner biased shared mk merged cnt queued with_cnt with_merged with_unqueued];
  intros; match goal with |- match pcv ?y with _ => _ end => destruct (pcv y) end; intuition (try congruence; try lia).

(* (1) owner, biased, creator unchanged and the merged flag unchanged *)
Lemma tinv_keep s s' u y : owner s' = owner s -> biased s' = biased s -> creator s' = creator s ->
  merged (shared s') = merged (shared s) -> tinv s u y -> tinv s' u y.
Proof. intros. eapply tinv_ext; eauto. Qed.

(* (2) the creator (thread t) sets the merged flag *)
Lemma tinv_set_merged s s' t u y : u <> t -> t = creator s ->
  owner s' = owner s -> biased s' = biased s -> creator s' = creator s -> merged (shared s') = true ->
  tinv s u y -> tinv s' u y.
Proof.
  intros Hne Hc Ho Hb Hcr Hm. unfold tinv. rewrite Ho, Hb, Hcr, Hm.
  destruct (pcv y); intuition (try congruence; try lia).
Qed.

(* (3) the owner t changes the biased counter (not merged) *)
Lemma tinv_set_biased s s' t u y : u <> t -> owner s = Some t -> merged (shared s) = false ->
  owner s' = owner s -> creator s' = creator s -> shared s' = shared s ->
  tinv s u y -> tinv s' u y.
Proof.
  intros Hne Hc Hm Ho Hcr Hs. unfold tinv. rewrite Ho, Hcr, Hs, Hm, Hc.
  destruct (pcv y); intuition (try congruence; try lia).
Qed.

(* (4) the owner field is cleared by thread t, which was the owner or the box had no owner *)
Lemma tinv_clear_owner s s' t u y : u <> t -> (owner s = Some t \/ owner s = None) ->
  owner s' = None -> biased s' = biased s -> creator s' = creator s -> shared s' = shared s ->
  tinv s u y -> tinv s' u y.
Proof.
  intros Hne Hc Ho Hb Hcr Hs. unfold tinv. rewrite Ho, Hcr, Hs, Hb.
  destruct Hc as [Hc|Hc]; rewrite Hc; destruct (pcv y); intuition (try congruence; try lia).
Qed.


Lemma acc_nf s : freed s = false -> acc s = s.
Proof. destruct s; simpl; intros ->; reflexivity. Qed.
Lemma excl_ok s : sumh (thrs s) = 1%nat -> excl_check s = s.
Proof. destruct s; unfold excl_check; simpl; intros ->; reflexivity. Qed.

Definition mkf (s : st) (w : word) (l : list thr) : st :=
  {| creator := creator s; owner := owner s; biased := biased s; shared := w; freed := true; destr := S (destr s);
     qs := qs s; registered := registered s; uaf := uaf s; exclbad := exclbad s; thrs := l |}.

Lemma others_quiet s t u y :
  Inv s -> freed s = false -> u <> t -> nth_error (thrs s) u = Some y ->
  held y = 0%nat -> tok y = 0%nat -> pf y = 0%nat ->
  (merged (shared s) = true \/ owner s = Some t) -> quiet y = true.
Proof.
  intros I F Hne Hy Hh Ht Hp Hm.
  pose proof (i_tinv s I u y Hy) as T.
  assert (M : merged (shared s) = true -> owner s = Some u -> is_mrgfin y = true).
  { intros M O. destruct (i_merged s I M u O) as [z [Hz Mz]]. rewrite Hy in Hz. inversion Hz; subst; auto. }
  unfold tinv, quiet, tok, pf, is_mrgfin in *.
  destruct (pcv y); try reflexivity; try (rewrite Ht, Hp; reflexivity);
    destruct Hm as [Hm|Hm]; intuition (try congruence; try lia; try discriminate);
    try (rewrite Hp; reflexivity); try (rewrite Ht, Hp; reflexivity).
Qed.

Lemma inv_free s t x g w :
  Inv s -> nth_error (thrs s) t = Some x -> freed s = false ->
  H s = held x -> held (g x) = 0%nat ->
  (List.length (qs s) + sumf tok (thrs s) = tok x)%nat -> tok (g x) = 0%nat ->
  sumf pf (thrs s) = pf x -> pf (g x) = 0%nat -> quiet (g x) = true ->
  is_mrgfin x = false -> is_mrgpost x = false -> is_unown x = false ->
  (merged (shared s) = true \/ owner s = Some t) ->
  merged w = merged (shared s) -> queued w = queued (shared s) ->
  tinv (mkf s w (upd t g (thrs s))) t (g x) ->
  Inv (mkf s w (upd t g (thrs s))).
Proof.
  intros I Hx F HH Hg HT Htg HP Hpg Hq Hnm Hnp Hnu Hm Hw Hwq Ht.
  pose proof (sumf_upd held _ _ g _ Hx) as SH. pose proof (sumf_upd tok _ _ g _ Hx) as ST.
  pose proof (sumf_upd pf _ _ g _ Hx) as SP.
  pose proof (sumf_ge tok _ _ _ Hx) as GT.
  constructor; unfold mkf, H in *; cbn [creator owner biased shared freed destr qs registered uaf exclbad thrs].
  - discriminate.
  - discriminate.
  - lia.
  - intros _. split; [lia|]. split.
    + destruct (qs s); auto. simpl in HT. lia.
    + intros u y Hy. apply nth_upd_inv in Hy as [[-> [x' [Hx' ->]]]|[Hne Hy]].
      * rewrite Hx in Hx'. inversion Hx'; subst x'. auto.
      * pose proof (sumf_ge2 held _ _ _ _ _ Hne Hy Hx). pose proof (sumf_ge2 tok _ _ _ _ _ Hne Hy Hx).
        pose proof (sumf_ge2 pf _ _ _ _ _ Hne Hy Hx).
        eapply others_quiet with (t := t); eauto; lia.
  - rewrite (i_once s I), F. reflexivity.
  - intros M o Ho. rewrite Hw in M. destruct (i_merged s I M o Ho) as [y [Hy My]].
    destruct (Nat.eq_dec o t) as [->|Hne].
    + rewrite Hx in Hy. inversion Hy; subst. congruence.
    + exists y. split; auto. rewrite nth_upd_other by congruence. auto.
  - apply (i_ownerc s I).
  - rewrite Hw. apply (i_onb s I).
  - apply (i_keys s I).
  - intros u y Hy. apply nth_upd_inv in Hy as [[-> [x' [Hx' ->]]]|[Hne Hy]].
    + rewrite Hx in Hx'. inversion Hx'; subst x'. exact Ht.
    + eapply tinv_ext; [..|exact (i_tinv s I u y Hy)]; auto.
  - apply (i_uaf s I).
  - apply (i_excl s I).
  - intros o Ho. destruct (i_bpos s I o Ho) as [B|[y [Hy U]]]; [left; auto|right].
    destruct (Nat.eq_dec o t) as [->|Hne].
    + rewrite Hx in Hy. inversion Hy; subst. congruence.
    + exists y. split; auto. rewrite nth_upd_other by congruence. auto.
  - rewrite Hw, Hwq. intros M. destruct (i_mb s I M) as [B|[B|[u [y [Hy Py]]]]]; auto. right; right.
    destruct (Nat.eq_dec u t) as [->|Hne].
    + rewrite Hx in Hy. inversion Hy; subst. congruence.
    + exists u, y. split; auto. rewrite nth_upd_other by congruence. auto.
Qed.


Ltac fin_local Hp :=
  unfold tok, pf, quiet, is_mrgfin, is_mrgpost, is_unown, tinv; simp_thr; rewrite ?Hp; simp_st; simp_thr;
  intuition (try congruence; try lia; try discriminate).

Ltac get_F I Hx Hp :=
  assert (F : freed _ = false) by (eapply not_freed; [exact I|exact Hx|unfold quiet; rewrite Hp; reflexivity]).

Ltac LOC I Hx Hp F Hs :=
  injection Hs as <-; rewrite acc_nf by exact F;
  eapply inv_local; [exact I|exact Hx|..]; fin_local Hp.

Lemma is_owner_true s t : is_owner s t = true -> owner s = Some t.
Proof. unfold is_owner. destruct (owner s); try discriminate. intros E. apply Nat.eqb_eq in E. congruence. Qed.

Lemma step_Inv_local t s s' x : Inv s -> nth_error (thrs s) t = Some x ->
  match pcv x with
  | IncRdOwner | IncLoad | DecRdOwner | DecLoad | DecFastLoad | EnqLoad | MrgLoad _ _
  | UnqRdOwner | UnqOwnRdBiased | UnwRdOwner | UnwNoneLoad | UnwOwnRdBiased
  | CntLoad | CntRdOwner | CntRdBiased | UmRdOwner | UmOwnRdBiased => True
  | _ => False
  end ->
  step fixed_cfg t s = Some s' -> Inv s'.
Proof.
  intros I Hx Hsel Hs. unfold step in Hs. rewrite Hx in Hs.
  pose proof (i_tinv s I t x Hx) as T. unfold tinv in T.
  destruct (pcv x) eqn:Hp; try contradiction; simp_st; get_F I Hx Hp.
  - (* IncRdOwner *) destruct (is_owner s t) eqn:O; [apply is_owner_true in O|]; LOC I Hx Hp F Hs.
  - (* IncLoad *) LOC I Hx Hp F Hs.
  - (* DecRdOwner *) destruct (is_owner s t) eqn:O; [apply is_owner_true in O|]; LOC I Hx Hp F Hs.
  - (* DecFastLoad *) LOC I Hx Hp F Hs.
  - (* DecLoad *) LOC I Hx Hp F Hs.
  - (* EnqLoad *) LOC I Hx Hp F Hs.
  - (* UnqRdOwner *) destruct (owner s) as [o|] eqn:O; [destruct (Nat.eqb o t) eqn:E; [apply Nat.eqb_eq in E; subst o|]|];
      LOC I Hx Hp F Hs.
  - (* UnqOwnRdBiased *) destruct (biased s =? 1) eqn:B; [apply Z.eqb_eq in B|]; LOC I Hx Hp F Hs.
  - (* UnwRdOwner *) destruct (owner s) as [o|] eqn:O; [destruct (Nat.eqb o t) eqn:E; [apply Nat.eqb_eq in E; subst o|]|];
      LOC I Hx Hp F Hs.
  - (* UnwNoneLoad *) destruct (negb (merged (shared s)) || queued (shared s)) eqn:G; cbn [andb] in Hs; [LOC I Hx Hp F Hs|].
    apply orb_false_iff in G as [G1 G2]. apply negb_false_iff in G1. LOC I Hx Hp F Hs.
  - (* UnwOwnRdBiased *) destruct (biased s =? 1) eqn:B; [apply Z.eqb_eq in B|]; LOC I Hx Hp F Hs.
  - (* MrgLoad *) LOC I Hx Hp F Hs.
  - (* CntLoad *) destruct (cnt (shared s) =? 0); LOC I Hx Hp F Hs.
  - (* CntRdOwner *) destruct (owner s) as [o|] eqn:O; [destruct (Nat.eqb o t) eqn:E; [apply Nat.eqb_eq in E; subst o|]|];
      LOC I Hx Hp F Hs.
  - (* CntRdBiased *) LOC I Hx Hp F Hs.
  - (* UmRdOwner *) destruct (owner s) as [o|] eqn:O; [destruct (Nat.eqb o t) eqn:E; [apply Nat.eqb_eq in E; subst o|]|];
      LOC I Hx Hp F Hs.
  - (* UmOwnRdBiased *) destruct (biased s =? 1) eqn:B; [apply Z.eqb_eq in B|]; LOC I Hx Hp F Hs.
Qed.


Ltac facts I Hx F :=
  let C := fresh "C" in let Q := fresh "Q" in let P := fresh "P" in
  pose proof (i_count _ I F) as C; pose proof (i_qtok _ I F) as Q; pose proof (i_pend _ I) as P;
  rewrite F in P;
  pose proof (sumf_ge held _ _ _ Hx); pose proof (sumf_ge tok _ _ _ Hx); pose proof (sumf_ge pf _ _ _ Hx);
  unfold Proofs_C05_inv.H in *.

Ltac bools :=
  repeat match goal with
  | |- context[?a =? ?b] => destruct (Z.eqb_spec a b)
  | H : context[?a =? ?b] |- _ => destruct (Z.eqb_spec a b)
  | |- context[?a <? ?b] => destruct (Z.ltb_spec a b)
  | H : context[?a <? ?b] |- _ => destruct (Z.ltb_spec a b)
  end.

Ltac arith Hp :=
  unfold Proofs_C05_inv.H, tok, pf, dead_word in *; simp_thr; rewrite ?Hp in *; simp_thr;
  try match goal with
  | |- context[shared ?s] => is_var s; let w := fresh "w" in let Hw := fresh "Hw" in remember (shared s) as w eqn:Hw in *
  end;
  repeat match goal with
  | H : context[merged ?w] |- _ => is_var w; destruct w; simp_thr
  | |- context[merged ?w] => is_var w; destruct w; simp_thr
  end;
  repeat match goal with
  | b : bool |- _ => destruct b
  end; cbn [andb orb negb Bool.eqb] in *; bools; cbn [andb orb negb Bool.eqb] in *; try lia; try discriminate; try congruence.

Ltac g_merged t I Hx Hp :=
  simp_thr; intros M o Ho; destruct (i_merged _ I M o Ho) as [y [Hy My]];
  destruct (Nat.eq_dec o t) as [->|Hne]; [|right; eauto];
  rewrite Hx in Hy; inversion Hy; subst; unfold is_mrgfin in *; simp_thr; rewrite ?Hp in *;
  (discriminate || (left; auto)).

Ltac g_bpos t I Hx Hp :=
  intros o Ho; destruct (i_bpos _ I o Ho) as [B|[y [Hy U]]]; [left; exact B|right];
  destruct (Nat.eq_dec o t) as [->|Hne];
  [left; rewrite Hx in Hy; inversion Hy; subst; unfold is_unown in *; simp_thr; rewrite ?Hp in *; (discriminate || auto)
  | right; eauto].

(* i_mb when biased and the merged/queued flags are unchanged and t is not in the post-merge phase *)
Ltac g_mb t I Hx Hp :=
  simp_thr; intros M; destruct (i_mb _ I M) as [B|[B|[u [y [Hy Py]]]]]; auto;
  destruct (Nat.eq_dec u t) as [->|Hne];
  [rewrite Hx in Hy; inversion Hy; subst; unfold is_mrgpost in *; simp_thr; rewrite ?Hp in *; (discriminate || auto)
  | right; right; right; exists u, y; auto].

Lemma upd_upd : forall l t f g, upd t f (upd t g l) = upd t (fun y => f (g y)) l.
Proof. induction l as [|a r IH]; intros [|t] f g; simpl; auto. rewrite IH. reflexivity. Qed.

Lemma sumh_upd_same l t g x : nth_error l t = Some x -> held (g x) = held x -> sumh (upd t g l) = sumh l.
Proof. intros Hx Hg. rewrite (sumh_sumf l), (sumh_sumf (upd t g l)). pose proof (sumf_upd held _ _ g _ Hx). lia. Qed.

Lemma inv_w_reg s r : Inv s -> Inv (w_reg r s).
Proof. intros I. destruct I. constructor; auto. Qed.

Lemma not_merged_owner s t x : Inv s -> nth_error (thrs s) t = Some x -> owner s = Some t ->
  is_mrgfin x = false -> merged (shared s) = false.
Proof.
  intros I Hx O M. destruct (merged (shared s)) eqn:E; auto.
  destruct (i_merged s I E t O) as [y [Hy My]]. rewrite Hx in Hy. inversion Hy; subst. congruence.
Qed.

(* ---------------------------------------------------------------- increment *)
Lemma step_IncCas t s s' x old : Inv s -> nth_error (thrs s) t = Some x -> pcv x = IncCas old ->
  step fixed_cfg t s = Some s' -> Inv s'.
Proof.
  intros I Hx Hp Hs. unfold step in Hs. rewrite Hx, Hp in Hs.
  pose proof (i_tinv s I t x Hx) as T. unfold tinv in T. rewrite Hp in T.
  get_F I Hx Hp.
  destruct (word_eqb old (shared s)) eqn:E; [|LOC I Hx Hp F Hs].
  apply word_eqb_eq in E. subst old. injection Hs as <-. rewrite acc_nf by exact F.
  facts I Hx F.
  refine (inv_gen s t x (fun y => set_pc Idle (add_held y)) (owner s) (biased s) (with_cnt (cnt (shared s) + 1) (shared s))
            (qs s) (registered s) I Hx F _ _ _ _ _ _ _ _ _ _ _).
  - remember (shared s) as w. arith Hp.
  - remember (shared s) as w. arith Hp.
  - remember (shared s) as w. arith Hp.
  - g_merged t I Hx Hp.
  - apply (i_ownerc s I).
  - simp_thr. apply (i_onb s I).
  - apply (i_keys s I).
  - unfold tinv. simp_thr. exact Logic.I.
  - intros u y Hne Hy. eapply tinv_keep; [..|exact (i_tinv s I u y Hy)]; reflexivity.
  - g_bpos t I Hx Hp.
  - g_mb t I Hx Hp.
Qed.

Lemma step_IncFast t s s' x : Inv s -> nth_error (thrs s) t = Some x -> pcv x = IncFast ->
  step fixed_cfg t s = Some s' -> Inv s'.
Proof.
  intros I Hx Hp Hs. unfold step in Hs. rewrite Hx, Hp in Hs.
  pose proof (i_tinv s I t x Hx) as T. unfold tinv in T. rewrite Hp in T. destruct T as [T O].
  get_F I Hx Hp.
  assert (M : merged (shared s) = false) by (eapply not_merged_owner; eauto; unfold is_mrgfin; rewrite Hp; auto).
  injection Hs as <-. rewrite acc_nf by exact F. facts I Hx F.
  refine (inv_gen s t x (fun y => set_pc Idle (add_held y)) (owner s) (biased s + 1) (shared s)
            (qs s) (registered s) I Hx F _ _ _ _ _ _ _ _ _ _ _).
  - rewrite M in *. arith Hp.
  - arith Hp.
  - arith Hp.
  - rewrite M. discriminate.
  - apply (i_ownerc s I).
  - rewrite O. discriminate.
  - apply (i_keys s I).
  - unfold tinv. simp_thr. exact Logic.I.
  - intros u y Hne Hy. eapply tinv_set_biased; [exact Hne|exact O|exact M|..|exact (i_tinv s I u y Hy)]; reflexivity.
  - intros o Ho. left. destruct (i_bpos s I o Ho) as [B|[y [Hy U]]]; [lia|].
    assert (o = t) by congruence. subst o. rewrite Hx in Hy. inversion Hy; subst. unfold is_unown in U. rewrite Hp in U. discriminate.
  - rewrite M. discriminate.
Qed.


Ltac start_case I Hx Hp Hs T :=
  unfold step in Hs; rewrite Hx, Hp in Hs;
  pose proof (i_tinv _ I _ _ Hx) as T; unfold tinv in T; rewrite Hp in T; simp_st.

Lemma step_DecFast t s s' x : Inv s -> nth_error (thrs s) t = Some x -> pcv x = DecFast ->
  step fixed_cfg t s = Some s' -> Inv s'.
Proof.
  intros I Hx Hp Hs. start_case I Hx Hp Hs T. destruct T as [T O].
  get_F I Hx Hp.
  assert (M : merged (shared s) = false) by (eapply not_merged_owner; eauto; unfold is_mrgfin; rewrite Hp; auto).
  assert (B : 1 <= biased s).
  { destruct (i_bpos s I t O) as [B|[y [Hy U]]]; auto. rewrite Hx in Hy. inversion Hy; subst.
    unfold is_unown in U. rewrite Hp in U. discriminate. }
  injection Hs as <-. rewrite acc_nf by exact F. facts I Hx F.
  refine (inv_gen s t x (fun y => set_pc (if 0 <? biased s - 1 then Idle else DecFastUnown) (sub_held y))
            (owner s) (biased s - 1) (shared s) (qs s) (registered s) I Hx F _ _ _ _ _ _ _ _ _ _ _).
  - rewrite M in *. destruct (0 <? biased s - 1); arith Hp.
  - destruct (0 <? biased s - 1); arith Hp.
  - destruct (0 <? biased s - 1); arith Hp.
  - rewrite M. discriminate.
  - apply (i_ownerc s I).
  - rewrite O. discriminate.
  - apply (i_keys s I).
  - unfold tinv. simp_thr. destruct (Z.ltb_spec 0 (biased s - 1)); simpl; auto. split; auto. lia.
  - intros u y Hne Hy. eapply tinv_set_biased; [exact Hne|exact O|exact M|..|exact (i_tinv s I u y Hy)]; reflexivity.
  - intros o Ho. assert (o = t) by congruence. subst o.
    destruct (Z.ltb_spec 0 (biased s - 1)); [left; lia|right; left; split; auto].
  - rewrite M. discriminate.
Qed.

Lemma step_DecFastUnown t s s' x : Inv s -> nth_error (thrs s) t = Some x -> pcv x = DecFastUnown ->
  step fixed_cfg t s = Some s' -> Inv s'.
Proof.
  intros I Hx Hp Hs. start_case I Hx Hp Hs T. destruct T as [O B].
  get_F I Hx Hp.
  assert (M : merged (shared s) = false) by (eapply not_merged_owner; eauto; unfold is_mrgfin; rewrite Hp; auto).
  assert (Cr : t = creator s) by (destruct (i_ownerc s I); congruence).
  injection Hs as <-. rewrite acc_nf by exact F. facts I Hx F.
  refine (inv_gen s t x (set_pc DecFastLoad) None (biased s) (shared s) (qs s) (registered s) I Hx F _ _ _ _ _ _ _ _ _ _ _).
  - arith Hp.
  - arith Hp.
  - arith Hp.
  - rewrite M. discriminate.
  - auto.
  - auto.
  - apply (i_keys s I).
  - unfold tinv. simp_thr. simpl. auto.
  - intros u y Hne Hy. eapply tinv_clear_owner; [exact Hne|left; exact O|..|exact (i_tinv s I u y Hy)]; reflexivity.
  - discriminate.
  - rewrite M. discriminate.
Qed.

Lemma step_DecFastCas t s s' x old : Inv s -> nth_error (thrs s) t = Some x -> pcv x = DecFastCas old ->
  step fixed_cfg t s = Some s' -> Inv s'.
Proof.
  intros I Hx Hp Hs. start_case I Hx Hp Hs T. destruct T as [O [B [M Cr]]].
  get_F I Hx Hp.
  destruct (word_eqb old (shared s)) eqn:E; [|LOC I Hx Hp F Hs].
  apply word_eqb_eq in E. subst old. injection Hs as <-. rewrite acc_nf by exact F. facts I Hx F.
  refine (inv_gen s t x (set_pc (DecFastFin (with_merged (shared s)))) (owner s) (biased s) (with_merged (shared s))
            (qs s) (registered s) I Hx F _ _ _ _ _ _ _ _ _ _ _).
  - remember (shared s) as w. rewrite B in *. arith Hp.
  - remember (shared s) as w. arith Hp.
  - remember (shared s) as w. arith Hp.
  - rewrite O. discriminate.
  - apply (i_ownerc s I).
  - simp_thr. discriminate.
  - apply (i_keys s I).
  - unfold tinv. simp_thr. reflexivity.
  - intros u y Hne Hy. eapply tinv_set_merged; [exact Hne|exact Cr|..|exact (i_tinv s I u y Hy)]; reflexivity.
  - rewrite O. discriminate.
  - auto.
Qed.

(* a thread that has decided to deallocate: everything the deallocation lemma needs *)
Lemma pending_facts s t x : Inv s -> nth_error (thrs s) t = Some x -> pf x = 1%nat ->
  freed s = false /\ dead_word (shared s) = true /\ sumf pf (thrs s) = 1%nat /\
  H s = O /\ (List.length (qs s) + sumf tok (thrs s) = 0)%nat.
Proof.
  intros I Hx P. pose proof (sumf_ge pf _ _ _ Hx) as G. pose proof (i_pend s I) as Pe.
  destruct (freed s) eqn:F; [lia|]. destruct (dead_word (shared s)) eqn:D; [|lia].
  repeat split; auto.
  - pose proof (i_count s I F) as C. unfold dead_word in D.
    apply andb_true_iff in D as [D1 D3]. apply andb_true_iff in D1 as [D1 D2].
    rewrite D1 in C. apply Z.eqb_eq in D2. lia.
  - pose proof (i_qtok s I F) as Q. unfold dead_word in D.
    apply andb_true_iff in D as [D1 D3]. apply negb_true_iff in D3. rewrite D3 in Q. exact Q.
Qed.

Lemma dead_merged w : dead_word w = true -> merged w = true.
Proof. unfold dead_word. intros D. apply andb_true_iff in D as [D _]. apply andb_true_iff in D as [D _]. auto. Qed.


(* ------------------------------------------------------------------------------------------------ *)
(* Preservation of Inv by the micro-steps proved so far (see Properties_C05.v for the status)        *)
(* ------------------------------------------------------------------------------------------------ *)
Definition covered (p : pc) : bool :=
  match p with
  | IncRdOwner | IncFast | IncLoad | IncCas _
  | DecRdOwner | DecFast | DecFastUnown | DecFastLoad | DecFastCas _ | DecLoad
  | EnqLoad | MrgLoad _ _
  | UnqRdOwner | UnqOwnRdBiased | UnwRdOwner | UnwNoneLoad | UnwOwnRdBiased
  | CntLoad | CntRdOwner | CntRdBiased | UmRdOwner | UmOwnRdBiased => true
  | _ => false
  end.

Lemma step_Inv_covered t s s' x : Inv s -> nth_error (thrs s) t = Some x -> covered (pcv x) = true ->
  step fixed_cfg t s = Some s' -> Inv s'.
Proof.
  intros I Hx Hc Hs. destruct (pcv x) eqn:Hp; try discriminate Hc.
  all: try (eapply step_Inv_local; [exact I|exact Hx|rewrite Hp; exact Logic.I|exact Hs]).
  - eapply step_IncFast; eauto.
  - eapply step_IncCas; eauto.
  - eapply step_DecFast; eauto.
  - eapply step_DecFastUnown; eauto.
  - eapply step_DecFastCas; eauto.
Qed.

Lemma Inv_sound s : Inv s ->
  uaf s = O /\ exclbad s = O /\ (destr s <= 1)%nat /\ (destr s = 1%nat <-> freed s = true) /\
  (freed s = true -> sumh (thrs s) = O /\ qs s = []).
Proof.
  intros I. pose proof (i_once s I) as O1. pose proof (i_alive s I) as A.
  split; [apply (i_uaf s I)|]. split; [apply (i_excl s I)|].
  split; [destruct (freed s); lia|]. split; [destruct (freed s); split; intros; (congruence || lia)|].
  intros F. destruct (A F) as [A1 [A2 _]]. split; [rewrite sumh_sumf; exact A1|exact A2].
Qed.

