(* C05 — lemmas (part 4): the remaining micro-steps, preservation of Inv by every step and by every
   schedule, and the property-level corollaries. *)
From Coq Require Import List ZArith Bool Lia Arith.
From SV Require Import c05.Model_C05 c05.Proofs_C05 c05.Proofs_C05_inv c05.Proofs_C05_step.
Import ListNotations.
Open Scope Z_scope.


Ltac arith Hp ::=
  unfold Proofs_C05_inv.H, tok, pf, dead_word in *; simp_thr; rewrite ?Hp in *; simp_thr;
  try match goal with
  | |- context[shared ?s] => is_var s; let w := fresh "w" in let Hw := fresh "Hw" in remember (shared s) as w eqn:Hw in *
  | H : context[shared ?s] |- _ => is_var s; let w := fresh "w" in let Hw := fresh "Hw" in remember (shared s) as w eqn:Hw in *
  end;
  repeat match goal with
  | H : context[merged ?w] |- _ => is_var w; destruct w; simp_thr
  | |- context[merged ?w] => is_var w; destruct w; simp_thr
  end;
  repeat match goal with
  | b : bool |- _ => destruct b
  end; cbn [andb orb negb Bool.eqb] in *; bools; cbn [andb orb negb Bool.eqb] in *; try lia; try discriminate; try congruence.

(* closes the side conditions of inv_free for a thread whose pending deallocation is established by pending_facts *)
Ltac free_fin Hp D :=
  first
   [ solve [unfold Proofs_C05_inv.H in *; lia]
   | solve [simp_thr; unfold Proofs_C05_inv.H in *; lia]
   | solve [unfold tok; simp_thr; reflexivity]
   | solve [unfold pf; simp_thr; reflexivity]
   | solve [unfold quiet; simp_thr; reflexivity]
   | solve [unfold is_mrgfin; rewrite Hp; reflexivity]
   | solve [unfold is_mrgpost; rewrite Hp; reflexivity]
   | solve [unfold is_unown; rewrite Hp; reflexivity]
   | solve [left; apply dead_merged; exact D]
   | solve [reflexivity]
   | solve [unfold tinv; simp_thr; exact Logic.I] ].

Ltac pend_setup I Hx PFx :=
  let F := fresh "F" in let D := fresh "D" in let SP := fresh "SP" in let HH := fresh "HH" in let ST := fresh "ST" in
  destruct (pending_facts _ _ _ I Hx PFx) as [F [D [SP [HH ST]]]];
  pose proof (sumf_ge held _ _ _ Hx); pose proof (sumf_ge tok _ _ _ Hx).

Lemma step_DecFastFin t s s' x new : Inv s -> nth_error (thrs s) t = Some x -> pcv x = DecFastFin new ->
  step fixed_cfg t s = Some s' -> Inv s'.
Proof.
  intros I Hx Hp Hs. start_case I Hx Hp Hs T.
  destruct ((cnt new =? 0) && (negb true || negb (queued new))) eqn:E; injection Hs as <-; cbn [negb orb] in E.
  - assert (PFx : pf x = 1%nat) by (unfold pf; rewrite Hp, E; reflexivity).
    destruct (pending_facts _ _ _ I Hx PFx) as [F [D [SP [HH ST]]]].
    pose proof (sumf_ge held _ _ _ Hx). pose proof (sumf_ge tok _ _ _ Hx).
    rewrite acc_nf by exact F.
    refine (inv_free s t x (set_pc Idle) (shared s) I Hx F _ _ _ _ _ _ _ _ _ _ _ _ _ _); free_fin Hp D.
  - eapply inv_local; [exact I|exact Hx|..]; fin_local Hp; rewrite E in *; auto.
Qed.

Lemma step_DecCas t s s' x old : Inv s -> nth_error (thrs s) t = Some x -> pcv x = DecCas old ->
  step fixed_cfg t s = Some s' -> Inv s'.
Proof.
  intros I Hx Hp Hs. start_case I Hx Hp Hs T.
  get_F I Hx Hp.
  destruct (word_eqb old (shared s)) eqn:E; [|LOC I Hx Hp F Hs].
  apply word_eqb_eq in E. subst old. injection Hs as <-. rewrite acc_nf by exact F. facts I Hx F.
  set (k := cnt (shared s) - 1).
  set (new := {| cnt := k; merged := merged (shared s); queued := if k <? 0 then true else queued (shared s) |}).
  refine (inv_gen s t x (fun y => set_pc (DecFin (shared s) new) (sub_held y)) (owner s) (biased s) new
            (qs s) (registered s) I Hx F _ _ _ _ _ _ _ _ _ _ _); subst new k.
  - arith Hp.
  - arith Hp.
  - arith Hp.
  - g_merged t I Hx Hp.
  - apply (i_ownerc s I).
  - simp_thr. apply (i_onb s I).
  - apply (i_keys s I).
  - unfold tinv. simp_thr. exact Logic.I.
  - intros u y Hne Hy. eapply tinv_keep; [..|exact (i_tinv s I u y Hy)]; reflexivity.
  - g_bpos t I Hx Hp.
  - simp_thr. intros M. pose proof (i_mb s I M) as MB. rewrite M in *.
    assert (Hk : (cnt (shared s) - 1 <? 0) = false) by (apply Z.ltb_ge; lia).
    rewrite Hk. destruct MB as [B|[B|[u [y [Hy Py]]]]]; auto.
    destruct (Nat.eq_dec u t) as [->|Hne];
    [rewrite Hx in Hy; inversion Hy; subst; unfold is_mrgpost in *; rewrite Hp in *; discriminate
    | right; right; right; exists u, y; auto].
Qed.

Lemma step_DecFin t s s' x old new : Inv s -> nth_error (thrs s) t = Some x -> pcv x = DecFin old new ->
  step fixed_cfg t s = Some s' -> Inv s'.
Proof.
  intros I Hx Hp Hs. start_case I Hx Hp Hs T.
  destruct (negb (Bool.eqb (queued old) (queued new))) eqn:E1.
  - injection Hs as <-.
    eapply inv_local; [exact I|exact Hx|..]; fin_local Hp; rewrite ?E1 in *; auto.
    exfalso. assert (Q : quiet x = false) by (unfold quiet, tok; rewrite Hp, E1; reflexivity).
    pose proof (not_freed s t x I Hx Q). congruence.
  - destruct (merged new && (cnt new =? 0) && (negb true || negb (queued new))) eqn:E2; injection Hs as <-;
      cbn [negb orb] in E2.
    + assert (PFx : pf x = 1%nat) by (unfold pf; rewrite Hp, E1, E2; reflexivity).
      destruct (pending_facts _ _ _ I Hx PFx) as [F [D [SP [HH ST]]]].
      pose proof (sumf_ge held _ _ _ Hx). pose proof (sumf_ge tok _ _ _ Hx).
      rewrite acc_nf by exact F.
      refine (inv_free s t x (set_pc Idle) (shared s) I Hx F _ _ _ _ _ _ _ _ _ _ _ _ _ _); free_fin Hp D.
    + eapply inv_local; [exact I|exact Hx|..]; fin_local Hp; rewrite ?E1, ?E2 in *; auto.
Qed.

Lemma step_EnqRdOwner t s s' x : Inv s -> nth_error (thrs s) t = Some x -> pcv x = EnqRdOwner ->
  step fixed_cfg t s = Some s' -> Inv s'.
Proof.
  intros I Hx Hp Hs. start_case I Hx Hp Hs T. get_F I Hx Hp.
  destruct (owner s) as [o|] eqn:O.
  - assert (o = creator s) by (destruct (i_ownerc s I); congruence). subst o. LOC I Hx Hp F Hs.
  - LOC I Hx Hp F Hs.
Qed.

Lemma step_EnqPush t s s' x key : Inv s -> nth_error (thrs s) t = Some x -> pcv x = EnqPush key ->
  step fixed_cfg t s = Some s' -> Inv s'.
Proof.
  intros I Hx Hp Hs. start_case I Hx Hp Hs T. get_F I Hx Hp. subst key.
  destruct (if is_reg s (creator s) then holds_lock s (creator s) QReg else holds_lock s (creator s) QUnreg);
    injection Hs as <-; [exact I|].
  facts I Hx F.
  refine (inv_gen s t x (set_pc Idle) (owner s) (biased s) (shared s)
            ((if is_reg s (creator s) then QReg else QUnreg, Some (creator s)) :: qs s) (registered s) I Hx F _ _ _ _ _ _ _ _ _ _ _).
  - arith Hp.
  - cbn [List.length]. arith Hp.
  - arith Hp.
  - g_merged t I Hx Hp.
  - apply (i_ownerc s I).
  - apply (i_onb s I).
  - intros e [<-|Hin]; [reflexivity|apply (i_keys s I); auto].
  - unfold tinv. simp_thr. exact Logic.I.
  - intros u y Hne Hy. eapply tinv_keep; [..|exact (i_tinv s I u y Hy)]; reflexivity.
  - g_bpos t I Hx Hp.
  - g_mb t I Hx Hp.
Qed.

Lemma step_EnqCas t s s' x old : Inv s -> nth_error (thrs s) t = Some x -> pcv x = EnqCas old ->
  step fixed_cfg t s = Some s' -> Inv s'.
Proof.
  intros I Hx Hp Hs. start_case I Hx Hp Hs T. get_F I Hx Hp.
  destruct (word_eqb old (shared s)) eqn:E; [|LOC I Hx Hp F Hs].
  apply word_eqb_eq in E. subst old. injection Hs as <-. rewrite acc_nf by exact F. facts I Hx F.
  refine (inv_gen s t x (set_pc (EnqFin (with_unqueued (shared s)))) (owner s) (biased s) (with_unqueued (shared s))
            (qs s) (registered s) I Hx F _ _ _ _ _ _ _ _ _ _ _).
  - arith Hp.
  - arith Hp.
  - arith Hp.
  - g_merged t I Hx Hp.
  - apply (i_ownerc s I).
  - simp_thr. apply (i_onb s I).
  - apply (i_keys s I).
  - unfold tinv. simp_thr. exact Logic.I.
  - intros u y Hne Hy. eapply tinv_keep; [..|exact (i_tinv s I u y Hy)]; reflexivity.
  - g_bpos t I Hx Hp.
  - simp_thr. auto.
Qed.

Lemma step_EnqFin t s s' x new : Inv s -> nth_error (thrs s) t = Some x -> pcv x = EnqFin new ->
  step fixed_cfg t s = Some s' -> Inv s'.
Proof.
  intros I Hx Hp Hs. start_case I Hx Hp Hs T.
  destruct (merged new && (cnt new =? 0)) eqn:E; injection Hs as <-.
  - assert (PFx : pf x = 1%nat) by (unfold pf; rewrite Hp, E; reflexivity).
    destruct (pending_facts _ _ _ I Hx PFx) as [F [D [SP [HH ST]]]].
    pose proof (sumf_ge held _ _ _ Hx). pose proof (sumf_ge tok _ _ _ Hx).
    rewrite acc_nf by exact F.
    refine (inv_free s t x (set_pc Idle) (shared s) I Hx F _ _ _ _ _ _ _ _ _ _ _ _ _ _); free_fin Hp D.
  - eapply inv_local; [exact I|exact Hx|..]; fin_local Hp; rewrite ?E in *; auto.
Qed.

Lemma H_is_one_none s t x : Inv s -> nth_error (thrs s) t = Some x -> freed s = false ->
  owner s = None -> cnt (shared s) = 1 -> sumh (thrs s) = 1%nat.
Proof.
  intros I Hx F O C1. pose proof (i_count s I F) as C. rewrite sumh_sumf. unfold Proofs_C05_inv.H in C.
  destruct (merged (shared s)) eqn:M; [lia|]. pose proof (i_onb s I O M). lia.
Qed.

Lemma step_UnqNoneLoad t s s' x : Inv s -> nth_error (thrs s) t = Some x -> pcv x = UnqNoneLoad ->
  step fixed_cfg t s = Some s' -> Inv s'.
Proof.
  intros I Hx Hp Hs. start_case I Hx Hp Hs T. destruct T as [T O]. get_F I Hx Hp.
  destruct (cnt (shared s) =? 1) eqn:E; [|LOC I Hx Hp F Hs].
  apply Z.eqb_eq in E. injection Hs as <-. rewrite acc_nf by exact F.
  rewrite excl_ok by (simp_st; erewrite sumh_upd_same; [eapply H_is_one_none; eauto|exact Hx|reflexivity]).
  eapply inv_local; [exact I|exact Hx|..]; fin_local Hp.
Qed.

Lemma step_UnqNoneCas t s s' x old : Inv s -> nth_error (thrs s) t = Some x -> pcv x = UnqNoneCas old ->
  step fixed_cfg t s = Some s' -> Inv s'.
Proof. intros I Hx Hp Hs. pose proof (i_tinv s I t x Hx) as T. unfold tinv in T. rewrite Hp in T. contradiction. Qed.

Lemma step_UnqOwnLoad t s s' x : Inv s -> nth_error (thrs s) t = Some x -> pcv x = UnqOwnLoad ->
  step fixed_cfg t s = Some s' -> Inv s'.
Proof.
  intros I Hx Hp Hs. start_case I Hx Hp Hs T. destruct T as [T [O B]]. get_F I Hx Hp.
  destruct (cnt (shared s) =? 0) eqn:E; [|LOC I Hx Hp F Hs].
  apply Z.eqb_eq in E. injection Hs as <-. rewrite acc_nf by exact F.
  assert (M : merged (shared s) = false) by (eapply not_merged_owner; eauto; unfold is_mrgfin; rewrite Hp; auto).
  rewrite excl_ok.
  - eapply inv_local; [exact I|exact Hx|..]; fin_local Hp.
  - simp_st. erewrite sumh_upd_same; [|exact Hx|reflexivity]. rewrite sumh_sumf.
    pose proof (i_count s I F) as C. rewrite M in C. unfold Proofs_C05_inv.H in C. lia.
Qed.

Ltac free_fin2 Hp :=
  first
   [ solve [unfold Proofs_C05_inv.H in *; lia]
   | solve [simp_thr; unfold Proofs_C05_inv.H in *; lia]
   | solve [unfold tok; simp_thr; reflexivity]
   | solve [unfold pf; simp_thr; reflexivity]
   | solve [unfold quiet; simp_thr; reflexivity]
   | solve [unfold is_mrgfin; rewrite Hp; reflexivity]
   | solve [unfold is_mrgpost; rewrite Hp; reflexivity]
   | solve [unfold is_unown; rewrite Hp; reflexivity]
   | solve [reflexivity]
   | solve [auto]
   | solve [simp_thr; congruence]
   | solve [unfold tinv; simp_thr; exact Logic.I] ].

Lemma step_UmNoneLoad t s s' x : Inv s -> nth_error (thrs s) t = Some x -> pcv x = UmNoneLoad ->
  step fixed_cfg t s = Some s' -> Inv s'.
Proof.
  intros I Hx Hp Hs. start_case I Hx Hp Hs T. destruct T as [T O]. get_F I Hx Hp.
  destruct (cnt (shared s) =? 1) eqn:E; [|LOC I Hx Hp F Hs].
  apply Z.eqb_eq in E. injection Hs as <-. rewrite acc_nf by exact F.
  rewrite excl_ok by (simp_st; erewrite sumh_upd_same; [eapply H_is_one_none; eauto|exact Hx|reflexivity]).
  eapply inv_local; [exact I|exact Hx|..]; fin_local Hp.
Qed.

Lemma step_UmNoneCas t s s' x old : Inv s -> nth_error (thrs s) t = Some x -> pcv x = UmNoneCas old ->
  step fixed_cfg t s = Some s' -> Inv s'.
Proof. intros I Hx Hp Hs. pose proof (i_tinv s I t x Hx) as T. unfold tinv in T. rewrite Hp in T. contradiction. Qed.

Lemma step_UmOwnLoad t s s' x : Inv s -> nth_error (thrs s) t = Some x -> pcv x = UmOwnLoad ->
  step fixed_cfg t s = Some s' -> Inv s'.
Proof.
  intros I Hx Hp Hs. start_case I Hx Hp Hs T. destruct T as [T [O B]]. get_F I Hx Hp.
  destruct (cnt (shared s) =? 0) eqn:E; [|LOC I Hx Hp F Hs].
  apply Z.eqb_eq in E. injection Hs as <-. rewrite acc_nf by exact F.
  assert (M : merged (shared s) = false) by (eapply not_merged_owner; eauto; unfold is_mrgfin; rewrite Hp; auto).
  rewrite excl_ok.
  - eapply inv_local; [exact I|exact Hx|..]; fin_local Hp.
  - simp_st. erewrite sumh_upd_same; [|exact Hx|reflexivity]. rewrite sumh_sumf.
    pose proof (i_count s I F) as C. rewrite M in C. unfold Proofs_C05_inv.H in C. lia.
Qed.

Lemma step_UnwNoneCas t s s' x old : Inv s -> nth_error (thrs s) t = Some x -> pcv x = UnwNoneCas old ->
  step fixed_cfg t s = Some s' -> Inv s'.
Proof.
  intros I Hx Hp Hs. start_case I Hx Hp Hs T. destruct T as [T [Mo Qo]]. get_F I Hx Hp.
  destruct (word_eqb (with_cnt 1 old) (shared s)) eqn:E; [|LOC I Hx Hp F Hs].
  apply word_eqb_eq in E. injection Hs as <-.
  assert (Ms : merged (shared s) = true) by (rewrite <- E; exact Mo).
  assert (Qs : queued (shared s) = false) by (rewrite <- E; exact Qo).
  assert (Cs : cnt (shared s) = 1) by (rewrite <- E; reflexivity).
  facts I Hx F. rewrite Ms in *. rewrite Qs in *.
  assert (HS : sumf held (thrs s) = 1%nat) by lia.
  rewrite acc_nf by exact F.
  rewrite excl_ok by (simp_st; erewrite sumh_upd_same; [rewrite sumh_sumf; exact HS|exact Hx|reflexivity]).
  match goal with |- Inv ?e =>
    change e with (mkf s (with_cnt 0 old) (upd t sub_held (upd t (set_pc_log Idle RUnwOk) (thrs s)))) end.
  rewrite upd_upd.
  assert (DW : dead_word (shared s) = false) by (unfold dead_word; rewrite Ms, Qs, Cs; reflexivity).
  rewrite DW in *.
  assert (TX : tok x = 0%nat) by (unfold tok; rewrite Hp; reflexivity).
  assert (PX : pf x = 0%nat) by (unfold pf; rewrite Hp; reflexivity).
  refine (inv_free s t x (fun y => sub_held (set_pc_log Idle RUnwOk y)) (with_cnt 0 old) I Hx F _ _ _ _ _ _ _ _ _ _ _ _ _ _);
    free_fin2 Hp.
Qed.

Lemma step_UnwOwnLoad t s s' x : Inv s -> nth_error (thrs s) t = Some x -> pcv x = UnwOwnLoad ->
  step fixed_cfg t s = Some s' -> Inv s'.
Proof.
  intros I Hx Hp Hs. start_case I Hx Hp Hs T. destruct T as [T [O B]]. get_F I Hx Hp.
  destruct (negb (cnt (shared s) =? 0) || true && queued (shared s)) eqn:E; [LOC I Hx Hp F Hs|].
  apply orb_false_iff in E as [E1 E2]. apply negb_false_iff in E1. apply Z.eqb_eq in E1. cbn [andb] in E2.
  injection Hs as <-.
  assert (M : merged (shared s) = false) by (eapply not_merged_owner; eauto; unfold is_mrgfin; rewrite Hp; auto).
  facts I Hx F. rewrite M in *. rewrite E2 in *.
  assert (HS : sumf held (thrs s) = 1%nat) by lia.
  rewrite acc_nf by exact F.
  rewrite excl_ok by (simp_st; erewrite sumh_upd_same; [rewrite sumh_sumf; exact HS|exact Hx|reflexivity]).
  match goal with |- Inv ?e =>
    change e with (mkf s (shared s) (upd t sub_held (upd t (set_pc_log Idle RUnwOk) (thrs s)))) end.
  rewrite upd_upd.
  assert (DW : dead_word (shared s) = false) by (unfold dead_word; rewrite M; reflexivity).
  rewrite DW in *.
  assert (TX : tok x = 0%nat) by (unfold tok; rewrite Hp; reflexivity).
  assert (PX : pf x = 0%nat) by (unfold pf; rewrite Hp; reflexivity).
  refine (inv_free s t x (fun y => sub_held (set_pc_log Idle RUnwOk y)) (shared s) I Hx F _ _ _ _ _ _ _ _ _ _ _ _ _ _);
    free_fin2 Hp.
Qed.


(* the token holder in the pre-merge phase: if the word is already merged then the biased counter is 0 *)
Lemma premerge_biased s t x : Inv s -> nth_error (thrs s) t = Some x -> freed s = false ->
  (1 <= tok x)%nat -> is_mrgpost x = false -> merged (shared s) = true -> biased s = 0.
Proof.
  intros I Hx F Tk NP M. pose proof (i_qtok s I F) as Q. pose proof (sumf_ge tok _ _ _ Hx) as G.
  destruct (i_mb s I M) as [B|[B|[u [y [Hy Py]]]]]; auto.
  - rewrite B in Q. lia.
  - destruct (Nat.eq_dec u t) as [->|Hne]; [rewrite Hx in Hy; inversion Hy; subst; congruence|].
    pose proof (sumf_ge2 tok _ _ _ _ _ Hne Hy Hx) as G2.
    pose proof (i_tinv s I u y Hy) as Ty. unfold tinv in Ty. unfold is_mrgpost in Py. unfold tok in G2 at 1.
    destruct (pcv y); try discriminate; destruct (queued (shared s)); lia.
Qed.

Lemma step_MrgCas t s s' x ph n old : Inv s -> nth_error (thrs s) t = Some x -> pcv x = MrgCas ph n old ->
  step fixed_cfg t s = Some s' -> Inv s'.
Proof.
  intros I Hx Hp Hs. start_case I Hx Hp Hs T. destruct T as [Tn Cr]. get_F I Hx Hp.
  destruct (word_eqb old (shared s)) eqn:E; [|LOC I Hx Hp F Hs].
  apply word_eqb_eq in E. subst old. injection Hs as <-. rewrite acc_nf by exact F.
  assert (B0 : merged (shared s) = true -> biased s = 0).
  { apply (premerge_biased s t x I Hx F); [unfold tok; rewrite Hp; exact Tn|unfold is_mrgpost; rewrite Hp; reflexivity]. }
  facts I Hx F.
  refine (inv_gen s t x (set_pc (MrgFin ph n (with_merged (with_cnt (cnt (shared s) + biased s) (shared s)))))
            (owner s) (biased s) (with_merged (with_cnt (cnt (shared s) + biased s) (shared s)))
            (qs s) (registered s) I Hx F _ _ _ _ _ _ _ _ _ _ _).
  - destruct (merged (shared s)) eqn:M; [rewrite (B0 eq_refl) in *|]; arith Hp.
  - arith Hp.
  - arith Hp.
  - intros _ o' Ho'. left. split; [destruct (i_ownerc s I); congruence|reflexivity].
  - apply (i_ownerc s I).
  - simp_thr. discriminate.
  - apply (i_keys s I).
  - unfold tinv. simp_thr. auto.
  - intros u y Hne Hy. eapply tinv_set_merged; [exact Hne|exact Cr|..|exact (i_tinv s I u y Hy)]; reflexivity.
  - g_bpos t I Hx Hp.
  - intros _. right; right; left. reflexivity.
Qed.

Lemma step_MrgFin t s s' x ph n new : Inv s -> nth_error (thrs s) t = Some x -> pcv x = MrgFin ph n new ->
  step fixed_cfg t s = Some s' -> Inv s'.
Proof.
  intros I Hx Hp Hs. start_case I Hx Hp Hs T. destruct T as [Tn [Cr M]]. get_F I Hx Hp.
  injection Hs as <-. rewrite acc_nf by exact F. facts I Hx F.
  refine (inv_gen s t x (set_pc (MrgCas2 ph n new)) None (biased s) (shared s)
            (qs s) (registered s) I Hx F _ _ _ _ _ _ _ _ _ _ _).
  - arith Hp.
  - arith Hp.
  - arith Hp.
  - intros _ o' Ho'. discriminate.
  - auto.
  - intros _ M'. congruence.
  - apply (i_keys s I).
  - unfold tinv. simp_thr. auto.
  - intros u y Hne Hy. eapply tinv_clear_owner; [exact Hne| |..|exact (i_tinv s I u y Hy)]; try reflexivity.
    destruct (i_ownerc s I) as [O|O]; [right; exact O|left; congruence].
  - discriminate.
  - intros _. right; right; left. reflexivity.
Qed.

Lemma step_MrgCas2 t s s' x ph n old : Inv s -> nth_error (thrs s) t = Some x -> pcv x = MrgCas2 ph n old ->
  step fixed_cfg t s = Some s' -> Inv s'.
Proof.
  intros I Hx Hp Hs. start_case I Hx Hp Hs T. destruct T as [Tn [Cr Msh]]. get_F I Hx Hp.
  destruct (word_eqb old (shared s)) eqn:E; [|LOC I Hx Hp F Hs].
  apply word_eqb_eq in E. subst old. injection Hs as <-. rewrite acc_nf by exact F. facts I Hx F.
  refine (inv_gen s t x (set_pc (MrgFin2 ph n (with_unqueued (shared s)))) (owner s) (biased s) (with_unqueued (shared s))
            (qs s) (registered s) I Hx F _ _ _ _ _ _ _ _ _ _ _).
  - arith Hp.
  - arith Hp.
  - arith Hp.
  - g_merged t I Hx Hp.
  - apply (i_ownerc s I).
  - simp_thr. apply (i_onb s I).
  - apply (i_keys s I).
  - unfold tinv. simp_thr. auto.
  - intros u y Hne Hy. eapply tinv_keep; [..|exact (i_tinv s I u y Hy)]; reflexivity.
  - g_bpos t I Hx Hp.
  - simp_thr. auto.
Qed.


Lemma step_MrgFin2 t s s' x ph n new : Inv s -> nth_error (thrs s) t = Some x -> pcv x = MrgFin2 ph n new ->
  step fixed_cfg t s = Some s' -> Inv s'.
Proof.
  intros I Hx Hp Hs. start_case I Hx Hp Hs T. destruct T as [Tn [Cr [Mn Qn]]].
  destruct (cnt new =? 0) eqn:E; injection Hs as <-.
  - assert (PFx : pf x = 1%nat) by (unfold pf; rewrite Hp, E; reflexivity).
    destruct (pending_facts _ _ _ I Hx PFx) as [F [D [SP [HH ST]]]].
    pose proof (sumf_ge held _ _ _ Hx). pose proof (sumf_ge tok _ _ _ Hx) as G.
    destruct n as [|[|m]]; [lia| |exfalso; unfold tok in G at 1; rewrite Hp in G; simpl in G; lia].
    rewrite acc_nf by exact F. unfold mrg_next.
    destruct ph.
    + refine (inv_free s t x (set_pc (MrgBegin PReg)) (shared s) I Hx F _ _ _ _ _ _ _ _ _ _ _ _ _ _); free_fin Hp D.
    + refine (inv_free s t x (set_pc_log Idle (RMerge (macc x))) (shared s) I Hx F _ _ _ _ _ _ _ _ _ _ _ _ _ _); free_fin Hp D.
    + refine (inv_free s t x (set_pc_log Dead (ROk Exit)) (shared s) I Hx F _ _ _ _ _ _ _ _ _ _ _ _ _ _); free_fin Hp D.
  - unfold mrg_next. destruct n as [|[|m]]; [lia| |].
    + destruct ph; (eapply inv_local; [exact I|exact Hx|..]; fin_local Hp; rewrite ?E in *; auto).
    + eapply inv_local; [exact I|exact Hx|..]; fin_local Hp; rewrite ?E in *; auto.
      exfalso. assert (Q : quiet x = false) by (unfold quiet, tok; rewrite Hp; reflexivity).
      pose proof (not_freed s t x I Hx Q). congruence.
Qed.

(* the queue may be replaced by one of the same length with entries taken from the old one; the set
   of registered threads is not constrained by Inv *)
Lemma inv_qs_reg s q r : Inv s -> (forall e, In e q -> In e (qs s)) -> List.length q = List.length (qs s) ->
  Inv (w_reg r (w_qs q s)).
Proof.
  intros I Hin Hl. destruct I. constructor; simp_st; auto.
  - rewrite Hl. auto.
  - intros F. destruct (i_alive F) as [A [B C]]. repeat split; auto. rewrite B in Hl. destruct q; auto; discriminate.
Qed.

Lemma step_RegStep t s s' x : Inv s -> nth_error (thrs s) t = Some x -> pcv x = RegStep ->
  step fixed_cfg t s = Some s' -> Inv s'.
Proof.
  intros I Hx Hp Hs. start_case I Hx Hp Hs T. injection Hs as <-.
  destruct (is_reg s t).
  - eapply inv_local; [exact I|exact Hx|..]; fin_local Hp.
  - change (go t Idle (w_reg (t :: registered s) s)) with (on_thr t (set_pc Idle) (w_reg (t :: registered s) s)).
    eapply inv_local; [apply inv_w_reg; exact I|exact Hx|..]; fin_local Hp.
Qed.


Lemma inv_same s s2 : Inv s ->
  creator s2 = creator s -> owner s2 = owner s -> biased s2 = biased s -> shared s2 = shared s ->
  freed s2 = freed s -> destr s2 = destr s ->
  (forall e, In e (qs s2) -> In e (qs s)) -> List.length (qs s2) = List.length (qs s) ->
  uaf s2 = uaf s -> exclbad s2 = exclbad s -> thrs s2 = thrs s -> Inv s2.
Proof.
  intros I Hc Ho Hb Hs Hf Hd Hin Hl Hu He Ht. destruct I.
  constructor; unfold Proofs_C05_inv.H in *; rewrite ?Hc, ?Ho, ?Hb, ?Hs, ?Hf, ?Hd, ?Hl, ?Hu, ?He, ?Ht; auto.
  - intros F. destruct (i_alive F) as [A [B C]]. repeat split; auto. rewrite B in Hl. destruct (qs s2); auto; discriminate.
  - intros u y Hy. eapply tinv_ext; [..|exact (i_tinv u y Hy)]; congruence.
Qed.

Lemma step_MrgBegin t s s' x ph : Inv s -> nth_error (thrs s) t = Some x -> pcv x = MrgBegin ph ->
  step fixed_cfg t s = Some s' -> Inv s'.
Proof.
  intros I Hx Hp Hs. start_case I Hx Hp Hs T. unfold tid in *.
  set (m := match ph with PUnreg => QUnreg | _ => QReg end) in *.
  set (present := match ph with PUnreg => true | _ => is_reg s t end) in *.
  match type of Hs with match ?e with O => _ | S _ => _ end = _ => remember e as n eqn:Dn in * end.
  set (s1 := if present then w_qs (remove_ent (m, Some t) (qs s)) s else s) in *.
  set (s2 := match ph with PFin => w_reg (filter (fun r => negb (Nat.eqb r t)) (registered s1)) s1 | _ => s1 end) in *.
  destruct n as [|n'].
  - (* nothing queued for this thread *)
    assert (I2 : Inv s2).
    { apply (inv_same s s2 I); subst s2 s1; destruct ph, present; simpl; auto;
        try (intros e He; eapply remove_ent_In; exact He);
        try (pose proof (count_remove (m, Some t) (qs s)) as CR; try rewrite <- Dn in CR; lia). }
    assert (Hx2 : nth_error (thrs s2) t = Some x) by (subst s2 s1; destruct ph, present; exact Hx).
    assert (F2 : freed s2 = freed s) by (subst s2 s1; destruct ph, present; reflexivity).
    cbv beta iota in Hs. injection Hs as <-.
    set (g := fun y => set_macc (macc y + 0) y).
    assert (I3 : Inv (on_thr t g s2)).
    { eapply inv_local; [exact I2|exact Hx2|..]; subst g; fin_local Hp. }
    assert (Hx3 : nth_error (thrs (on_thr t g s2)) t = Some (g x)) by (apply nth_upd_same; exact Hx2).
    assert (Hp3 : pcv (g x) = MrgBegin ph) by exact Hp.
    unfold mrg_next. destruct ph; (eapply inv_local; [exact I3|exact Hx3|..]; fin_local Hp3).
  - (* n' + 1 entries are drained *)
    assert (Pr : present = true) by (destruct present; auto; discriminate).
    assert (Hn : count_ent (m, Some t) (qs s) = S n') by (rewrite Pr in Dn; auto).
    assert (F : freed s = false).
    { destruct (freed s) eqn:F; auto. destruct (i_alive s I F) as [_ [B _]]. rewrite B in Hn. discriminate. }
    assert (Cr : t = creator s).
    { assert (P0 : (0 < count_ent (m, Some t) (qs s))%nat) by (rewrite Hn; lia).
      destruct (count_pos_key m (Some t) (qs s) P0) as [m' Hin].
      pose proof (i_keys s I _ Hin) as K. simpl in K. congruence. }
    cbv beta iota in Hs. injection Hs as <-. facts I Hx F. pose proof (count_remove (m, Some t) (qs s)) as CR.
    set (g := fun y => set_pc (MrgLoad ph (S n')) (set_macc (macc y + S n') y)).
    assert (E : go t (MrgLoad ph (S n')) (on_thr t (fun y => set_macc (macc y + S n') y) s2) =
                mk s (owner s) (biased s) (shared s) (remove_ent (m, Some t) (qs s)) (registered s2) (upd t g (thrs s))).
    { subst s2 s1 g. rewrite Pr. unfold go, on_thr, mk. destruct ph; simpl; rewrite upd_upd; reflexivity. }
    rewrite E.
    refine (inv_gen s t x g (owner s) (biased s) (shared s) (remove_ent (m, Some t) (qs s)) (registered s2) I Hx F
              _ _ _ _ _ _ _ _ _ _ _); subst g.
    + arith Hp.
    + arith Hp.
    + arith Hp.
    + g_merged t I Hx Hp.
    + apply (i_ownerc s I).
    + apply (i_onb s I).
    + intros e He. apply (i_keys s I). eapply remove_ent_In; exact He.
    + unfold tinv. simp_thr. split; [lia|exact Cr].
    + intros u y Hne Hy. eapply tinv_keep; [..|exact (i_tinv s I u y Hy)]; reflexivity.
    + g_bpos t I Hx Hp.
    + g_mb t I Hx Hp.
Qed.


Lemma tinv_add_held s u y : tinv s u y -> tinv s u (add_held y).
Proof. unfold tinv. simp_thr. destruct (pcv y); intuition lia. Qed.

(* moving one reference from thread t (idle) to thread k *)
Lemma inv_send s t k x y g :
  Inv s -> nth_error (thrs s) t = Some x -> nth_error (thrs s) k = Some y -> k <> t ->
  (1 <= held x)%nat -> pcv x = Idle -> pcv (g x) = Idle -> held (g x) = pred (held x) ->
  Inv (on_thr k add_held (on_thr t g s)).
Proof.
  intros I Hx Hy Hne Hh Hp Hg Hhg.
  assert (F : freed s = false) by (apply (held_not_freed s t x I Hx Hh)).
  assert (Hy' : nth_error (upd t g (thrs s)) k = Some y) by (rewrite nth_upd_other by congruence; exact Hy).
  pose proof (sumf_upd held _ _ g _ Hx) as SH1. pose proof (sumf_upd held _ _ add_held _ Hy') as SH2.
  pose proof (sumf_upd tok _ _ g _ Hx) as ST1. pose proof (sumf_upd tok _ _ add_held _ Hy') as ST2.
  pose proof (sumf_upd pf _ _ g _ Hx) as SP1. pose proof (sumf_upd pf _ _ add_held _ Hy') as SP2.
  assert (tok (g x) = tok x /\ pf (g x) = pf x) as [Tg Pg] by (unfold tok, pf; rewrite Hg, Hp; auto).
  assert (tok (add_held y) = tok y /\ pf (add_held y) = pf y) as [Ty Py] by (unfold tok, pf; simp_thr; auto).
  assert (Hha : held (add_held y) = S (held y)) by reflexivity.
  assert (EH : sumf held (upd k add_held (upd t g (thrs s))) = sumf held (thrs s)) by lia.
  assert (ET : sumf tok (upd k add_held (upd t g (thrs s))) = sumf tok (thrs s)) by lia.
  assert (EP : sumf pf (upd k add_held (upd t g (thrs s))) = sumf pf (thrs s)) by lia.
  assert (NTH : forall u z, nth_error (upd k add_held (upd t g (thrs s))) u = Some z ->
            exists z0, nth_error (thrs s) u = Some z0 /\ (pcv z = pcv z0 \/ u = t) /\
                       (u = t -> z = g x) /\ (u = k -> z = add_held y) /\ (u <> t -> u <> k -> z = z0)).
  { intros u z Hz. apply nth_upd_inv in Hz as [[-> [z1 [Hz1 ->]]]|[Hnk Hz]].
    - rewrite Hy' in Hz1. inversion Hz1; subst z1. exists y. repeat split; auto; intros; congruence.
    - apply nth_upd_inv in Hz as [[-> [z1 [Hz1 ->]]]|[Hnt Hz]].
      + rewrite Hx in Hz1. inversion Hz1; subst z1. exists x. repeat split; auto; intros; congruence.
      + exists z. repeat split; auto; intros; congruence. }
  assert (EX : forall (P : thr -> bool) u z0, nth_error (thrs s) u = Some z0 -> P z0 = true ->
            (forall a b, pcv a = pcv b -> P a = P b) -> P x = false ->
            exists z, nth_error (upd k add_held (upd t g (thrs s))) u = Some z /\ P z = true).
  { intros P u z0 Hz0 Pz Pext Px.
    destruct (Nat.eq_dec u t) as [->|Hnt]; [rewrite Hx in Hz0; inversion Hz0; subst; congruence|].
    destruct (Nat.eq_dec u k) as [->|Hnk].
    - rewrite Hy in Hz0. inversion Hz0; subst z0. exists (add_held y). split; [apply nth_upd_same; exact Hy'|].
      rewrite <- Pz. apply Pext. reflexivity.
    - exists z0. split; auto. rewrite nth_upd_other by congruence. rewrite nth_upd_other by congruence. exact Hz0. }
  destruct I. constructor; unfold Proofs_C05_inv.H in *; simp_st; rewrite ?EH, ?ET, ?EP; auto.
  - intros F'. congruence.
  - intros M o Ho. destruct (i_merged M o Ho) as [z0 [Hz0 Mz]].
    apply (EX is_mrgfin o z0 Hz0 Mz); [intros a b E; unfold is_mrgfin; rewrite E; reflexivity|unfold is_mrgfin; rewrite Hp; reflexivity].
  - intros u z Hz. destruct (NTH u z Hz) as [z0 [Hz0 [_ [A [B C]]]]].
    destruct (Nat.eq_dec u t) as [->|Hnt].
    + rewrite (A eq_refl). unfold tinv. rewrite Hg. exact Logic.I.
    + destruct (Nat.eq_dec u k) as [->|Hnk].
      * rewrite (B eq_refl). rewrite Hy in Hz0. inversion Hz0; subst z0.
        apply tinv_add_held. eapply tinv_ext; [..|exact (i_tinv k y Hy)]; reflexivity.
      * rewrite (C Hnt Hnk). eapply tinv_ext; [..|exact (i_tinv u z0 Hz0)]; reflexivity.
  - intros o Ho. destruct (i_bpos o Ho) as [B|[z0 [Hz0 U]]]; [left; auto|right].
    apply (EX is_unown o z0 Hz0 U); [intros a b E; unfold is_unown; rewrite E; reflexivity|unfold is_unown; rewrite Hp; reflexivity].
  - intros M. destruct (i_mb M) as [B|[B|[u [z0 [Hz0 Pz]]]]]; auto. right; right. exists u.
    apply (EX is_mrgpost u z0 Hz0 Pz); [intros a b E; unfold is_mrgpost; rewrite E; reflexivity|unfold is_mrgpost; rewrite Hp; reflexivity].
Qed.

Lemma is_dead_false s k : is_dead s k = false -> exists y, nth_error (thrs s) k = Some y.
Proof. unfold is_dead. destruct (nth_error (thrs s) k); [eauto|discriminate]. Qed.

Ltac LOCQ I Hx Hp := eapply inv_local; [exact I|exact Hx|..]; fin_local Hp.
Ltac LOCA I Hx Hp F := rewrite acc_nf by exact F; eapply inv_local; [exact I|exact Hx|..]; fin_local Hp.

Lemma step_Idle t s s' x : Inv s -> nth_error (thrs s) t = Some x -> pcv x = Idle ->
  step fixed_cfg t s = Some s' -> Inv s'.
Proof.
  intros I Hx Hp Hs. unfold step in Hs. rewrite Hx, Hp in Hs. unfold start_op in Hs.
  destruct (prog x) as [|op rest] eqn:Pr; [discriminate|].
  destruct op.
  - (* Clone *) destruct (Nat.eqb (held x) 0) eqn:E; injection Hs as <-; [LOCQ I Hx Hp|].
    apply Nat.eqb_neq in E. assert (F : freed s = false) by (apply (held_not_freed s t x I Hx); lia). LOCA I Hx Hp F.
  - (* Drop *) destruct (Nat.eqb (held x) 0) eqn:E; injection Hs as <-; [LOCQ I Hx Hp|].
    apply Nat.eqb_neq in E. assert (F : freed s = false) by (apply (held_not_freed s t x I Hx); lia). LOCA I Hx Hp F.
  - (* Send *) destruct (Nat.eqb (held x) 0 || Nat.eqb k t || is_dead s k) eqn:E; injection Hs as <-; [LOCQ I Hx Hp|].
    apply orb_false_iff in E as [E E3]. apply orb_false_iff in E as [E1 E2].
    apply Nat.eqb_neq in E1. apply Nat.eqb_neq in E2. destruct (is_dead_false s k E3) as [y Hy].
    eapply inv_send; eauto; try reflexivity. lia.
  - (* GetMut *) destruct (Nat.eqb (held x) 0) eqn:E; injection Hs as <-; [LOCQ I Hx Hp|].
    apply Nat.eqb_neq in E. assert (F : freed s = false) by (apply (held_not_freed s t x I Hx); lia). LOCA I Hx Hp F.
  - (* Unwrap *) destruct (Nat.eqb (held x) 0) eqn:E; injection Hs as <-; [LOCQ I Hx Hp|].
    apply Nat.eqb_neq in E. assert (F : freed s = false) by (apply (held_not_freed s t x I Hx); lia). LOCA I Hx Hp F.
  - (* Read *) destruct (Nat.eqb (held x) 0) eqn:E; injection Hs as <-; [LOCQ I Hx Hp|].
    apply Nat.eqb_neq in E. assert (F : freed s = false) by (apply (held_not_freed s t x I Hx); lia). LOCA I Hx Hp F.
  - (* CountOp *) destruct (Nat.eqb (held x) 0) eqn:E; injection Hs as <-; [LOCQ I Hx Hp|].
    apply Nat.eqb_neq in E. assert (F : freed s = false) by (apply (held_not_freed s t x I Hx); lia). LOCA I Hx Hp F.
  - (* Merge *) injection Hs as <-. LOCQ I Hx Hp.
  - (* Register *) injection Hs as <-. LOCQ I Hx Hp.
  - (* Exit *) destruct (Nat.eqb (held x) 0) eqn:E; injection Hs as <-; [LOCQ I Hx Hp|].
    apply Nat.eqb_neq in E. assert (F : freed s = false) by (apply (held_not_freed s t x I Hx); lia). LOCA I Hx Hp F.
  - (* Die *) destruct (Nat.eqb (held x) 0) eqn:E; injection Hs as <-; [LOCQ I Hx Hp|].
    apply Nat.eqb_neq in E. assert (F : freed s = false) by (apply (held_not_freed s t x I Hx); lia). LOCA I Hx Hp F.
  - (* Await *) destruct (Nat.leb k (held x)); injection Hs as <-; [LOCQ I Hx Hp|exact I].
  - (* MakeMut *) destruct (Nat.eqb (held x) 0) eqn:E; injection Hs as <-; [LOCQ I Hx Hp|].
    apply Nat.eqb_neq in E. assert (F : freed s = false) by (apply (held_not_freed s t x I Hx); lia). LOCA I Hx Hp F.
Qed.

(* ------------------------------------------------------------------------------------------------ *)
(* Every micro-step of every thread preserves Inv; so does every schedule                            *)
(* ------------------------------------------------------------------------------------------------ *)
Theorem step_Inv t s s' : Inv s -> step fixed_cfg t s = Some s' -> Inv s'.
Proof.
  intros I Hs. destruct (nth_error (thrs s) t) as [x|] eqn:Hx;
    [|unfold step in Hs; rewrite Hx in Hs; discriminate].
  destruct (covered (pcv x)) eqn:Cv; [eapply step_Inv_covered; eauto|].
  destruct (pcv x) eqn:Hp; try discriminate Cv.
  - eapply step_Idle; eauto.
  - unfold step in Hs. rewrite Hx, Hp in Hs. discriminate.
  - eapply step_DecFastFin; eauto.
  - eapply step_DecCas; eauto.
  - eapply step_DecFin; eauto.
  - eapply step_EnqRdOwner; eauto.
  - eapply step_EnqPush; eauto.
  - eapply step_EnqCas; eauto.
  - eapply step_EnqFin; eauto.
  - eapply step_UnqNoneLoad; eauto.
  - eapply step_UnqNoneCas; eauto.
  - eapply step_UnqOwnLoad; eauto.
  - eapply step_UnwNoneCas; eauto.
  - eapply step_UnwOwnLoad; eauto.
  - eapply step_MrgBegin; eauto.
  - eapply step_MrgCas; eauto.
  - eapply step_MrgFin; eauto.
  - eapply step_MrgCas2; eauto.
  - eapply step_MrgFin2; eauto.
  - eapply step_RegStep; eauto.
  - eapply step_UmNoneLoad; eauto.
  - eapply step_UmNoneCas; eauto.
  - eapply step_UmOwnLoad; eauto.
Qed.

Theorem run_Inv : forall sched s, Inv s -> Inv (run fixed_cfg sched s).
Proof.
  induction sched as [|t r IH]; intros s I; simpl; auto.
  destruct (step fixed_cfg t s) as [s'|] eqn:E; auto. apply IH. eapply step_Inv; eauto.
Qed.

Theorem reachable_Inv cr regs progs sched : (cr < List.length progs)%nat ->
  Inv (run fixed_cfg sched (init cr regs progs)).
Proof. intros Hc. apply run_Inv. apply init_Inv. exact Hc. Qed.

(* the exclusivity monitor fires exactly when the number of live references is not one *)
Lemma excl_check_spec s : exclbad (excl_check s) = exclbad s <-> sumh (thrs s) = 1%nat.
Proof.
  unfold excl_check; simpl. destruct (Nat.eqb (sumh (thrs s)) 1) eqn:E.
  - apply Nat.eqb_eq in E. tauto.
  - apply Nat.eqb_neq in E. split; [lia|tauto].
Qed.

(* get_mut / has_unique_ref never writes the count word, never deallocates *)
Lemma unq_reads_only t s s' x : nth_error (thrs s) t = Some x ->
  match pcv x with UnqRdOwner | UnqNoneLoad | UnqOwnRdBiased | UnqOwnLoad
                  | UmRdOwner | UmNoneLoad | UmOwnRdBiased | UmOwnLoad => True | _ => False end ->
  step fixed_cfg t s = Some s' ->
  owner s' = owner s /\ biased s' = biased s /\ shared s' = shared s /\ freed s' = freed s /\
  destr s' = destr s /\ qs s' = qs s /\ sumh (thrs s') = sumh (thrs s).
Proof.
  intros Hx Hsel Hs. unfold step in Hs. rewrite Hx in Hs.
  destruct (pcv x) eqn:Hp; try contradiction; simp_st;
  repeat match type of Hs with
  | context[match owner ?s with _ => _ end] => destruct (owner s) eqn:?
  | context[if ?b then _ else _] => destruct b eqn:?
  end; injection Hs as <-; simp_st; repeat split; auto;
  apply sumh_upd_same with (x := x); auto.
Qed.

Lemma no_uaf cr regs progs sched : (cr < List.length progs)%nat ->
  uaf (run fixed_cfg sched (init cr regs progs)) = O.
Proof. intros Hc. apply (i_uaf _ (reachable_Inv cr regs progs sched Hc)). Qed.

Lemma destroyed_once cr regs progs sched : (cr < List.length progs)%nat ->
  let s := run fixed_cfg sched (init cr regs progs) in
  (destr s <= 1)%nat /\ (destr s = 1%nat <-> freed s = true) /\
  (freed s = true -> sumh (thrs s) = O /\ qs s = []).
Proof.
  intros Hc s. destruct (Inv_sound s (reachable_Inv cr regs progs sched Hc)) as [_ [_ [A [B C]]]]. auto.
Qed.

Lemma exclusive_sound cr regs progs sched : (cr < List.length progs)%nat ->
  let s := run fixed_cfg sched (init cr regs progs) in
  exclbad s = O /\
  (forall t x s', nth_error (thrs s) t = Some x ->
     match pcv x with UnqRdOwner | UnqNoneLoad | UnqOwnRdBiased | UnqOwnLoad
                  | UmRdOwner | UmNoneLoad | UmOwnRdBiased | UmOwnLoad => True | _ => False end ->
     step fixed_cfg t s = Some s' ->
     owner s' = owner s /\ biased s' = biased s /\ shared s' = shared s /\ freed s' = freed s /\
     destr s' = destr s /\ qs s' = qs s /\ sumh (thrs s') = sumh (thrs s)).
Proof.
  intros Hc s. split; [apply (i_excl _ (reachable_Inv cr regs progs sched Hc))|].
  intros t x s' Hx Hsel Hs. eapply unq_reads_only; eauto.
Qed.
