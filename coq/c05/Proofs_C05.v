(* C05 — lemmas (part 1): the packed word. *)
From Coq Require Import List ZArith Bool Lia.
From SV Require Import c05.Model_C05.
Import ListNotations.
Open Scope Z_scope.

Lemma word_eqb_eq a b : word_eqb a b = true -> a = b.
Proof.
  destruct a, b; unfold word_eqb; simpl. intros H.
  apply andb_true_iff in H as [H H3]. apply andb_true_iff in H as [H1 H2].
  apply Z.eqb_eq in H1. apply Bool.eqb_prop in H2, H3. subst. reflexivity.
Qed.

Lemma word_eqb_refl a : word_eqb a a = true.
Proof. destruct a; unfold word_eqb; cbn. rewrite Z.eqb_refl, !Bool.eqb_reflx. reflexivity. Qed.

(* ------------------------------------------------------------------------------------------------ *)
(* pack / unpack round trip, for any VALUE_BITS >= 1 with QUEUED at bit VALUE_BITS and MERGED at    *)
(* bit VALUE_BITS + 1 (the layout of lib.rs L105-110)                                               *)
(* ------------------------------------------------------------------------------------------------ *)
Lemma testbit_div (a n : Z) : 0 <= n -> Z.testbit a n = Z.odd (a / 2 ^ n).
Proof. intros Hn. rewrite Z.testbit_odd, Z.shiftr_div_pow2 by lia. reflexivity. Qed.

Lemma pack_roundtrip_gen (vb : Z) (w : word) : 1 <= vb -> in_range vb w ->
  unpack vb (vb + 1) vb (pack vb (vb + 1) vb w) = w.
Proof.
  intros Hvb [Hlo Hhi]. destruct w as [c m q]. unfold pack, unpack, in_range in *; simpl in Hlo, Hhi |- *.
  assert (HP : 2 ^ vb = 2 * 2 ^ (vb - 1)) by (rewrite <- Z.pow_succ_r by lia; f_equal; lia).
  assert (HP2 : 2 ^ (vb + 1) = 2 * 2 ^ vb) by (rewrite <- Z.pow_succ_r by lia; f_equal).
  assert (Hpos : 0 < 2 ^ (vb - 1)) by (apply Z.pow_pos_nonneg; lia).
  set (P := 2 ^ vb) in *. set (h := 2 ^ (vb - 1)) in *.
  pose proof (Z.mod_pos_bound c P ltac:(lia)) as Hr.
  set (r := c mod P) in *.
  set (mz := if m then 1 else 0). set (qz := if q then 1 else 0).
  assert (Hbits : r + (if m then 2 ^ (vb + 1) else 0) + (if q then P else 0) = r + (2 * mz + qz) * P)
    by (rewrite HP2; subst mz qz; destruct m, q; lia).
  rewrite Hbits.
  assert (Hraw : (r + (2 * mz + qz) * P) mod P = r) by (rewrite Z.mod_add by lia; apply Z.mod_small; lia).
  rewrite Hraw.
  f_equal.
  - (* counter *)
    rewrite testbit_div by lia. fold h.
    destruct (Z_lt_le_dec c 0) as [Hneg|Hnn].
    + assert (r = c + P) by (subst r; symmetry; apply Z.mod_unique with (q := -1); lia).
      assert (r / h = 1) by (symmetry; apply Z.div_unique with (r := r - h); lia).
      replace (r / h) with 1 by assumption. cbn. lia.
    + assert (r = c) by (subst r; apply Z.mod_small; lia).
      assert (r / h = 0) by (apply Z.div_small; lia).
      replace (r / h) with 0 by (symmetry; assumption). cbn. lia.
  - (* merged: bit vb + 1 *)
    rewrite testbit_div by lia. rewrite HP2.
    assert ((r + (2 * mz + qz) * P) / (2 * P) = mz).
    { symmetry. apply Z.div_unique with (r := r + qz * P); subst mz qz; destruct m, q; lia. }
    replace ((r + (2 * mz + qz) * P) / (2 * P)) with mz by (symmetry; assumption).
    subst mz; destruct m; reflexivity.
  - (* queued: bit vb *)
    rewrite testbit_div by lia. fold P.
    rewrite Z.div_add by lia. rewrite (Z.div_small r P) by lia.
    subst mz qz; destruct m, q; reflexivity.
Qed.
