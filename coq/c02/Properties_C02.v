(* C02 — property theorems only. *)
From Coq Require Import ZArith List Bool String.
From SV Require Import c02.Model_C02 c02.Proofs_C02.
Import ListNotations.
Open Scope string_scope.

(* Call inlining — one round followed by any number k of further rounds (STEEL_INLINE,
   STEEL_INLINE_RECURSIVE, and the always-on first round), at any subset of call sites — preserves the
   configuration-free meaning [eval] of every expression, for every fuel, global state and local
   environment, PROVIDED the evaluation never assigns an inlined global (results related by [rrel]:
   equal numbers/booleans, closures with related code).  The definitions must be closed lambdas bound
   in the global state (Gok). *)
Theorem C02_inline_preserves :
  forall (D : defs), closed_defs D ->
  forall k n G G' ρ ρ' e r G1,
    Gok D G G' -> erel D ρ ρ' ->
    eval (prot D) n G ρ e = Some (r, G1) -> r <> Viol ->
    exists r' G1', eval [] n G' ρ' (inline_rec k D (inline D e)) = Some (r', G1') /\
                   rrel D r r' /\ Gok D G1 G1'.
Proof. exact inline_preserves. Qed.

(* The side condition is exactly what is needed: if an inlined global is assigned later, the inlined
   program and the reference differ (this is what the engine does across evaluation units:
   finding C02-F28). *)
Theorem C02_inline_unsound_if_assigned :
  fst_opt (eval [] 20 (wit_G (Call (Glob "f") ENil)) [] wit_prog) = Some (Val (VNum 2)) /\
  fst_opt (eval [] 20 (wit_G (inline wit_D (Call (Glob "f") ENil))) [] wit_prog) = Some (Val (VNum 1)) /\
  fst_opt (eval (map fst wit_D) 20 (wit_G (Call (Glob "f") ENil)) [] wit_prog) = Some Viol.
Proof. exact inline_unsound_if_assigned. Qed.

(* non-vacuity: a global state satisfying Gok and a program whose protected evaluation succeeds *)
Example C02_nonvacuous :
  closed_defs wit_D /\
  Gok wit_D (wit_G (Call (Glob "f") ENil)) (wit_G (Call (Glob "f") ENil)) /\
  fst_opt (eval (prot wit_D) 20 (wit_G (Call (Glob "f") ENil)) [] (Add (Call (Glob "g") ENil) (Num 41)))
    = Some (Val (VNum 42)).
Proof.
  split; [|split].
  - intros g xs b0 H. unfold wit_D in H. cbn [lookup] in H.
    destruct (String.eqb g "f"); inversion H; subst; reflexivity.
  - split.
    + repeat constructor; apply irel_refl.
    + intros g xs b0 H. unfold wit_D in H. cbn [lookup] in H.
      destruct (String.eqb g "f") eqn:E; inversion H; subst.
      apply String.eqb_eq in E. subst. reflexivity.
  - vm_compute. reflexivity.
Qed.

(* ------------------------------------------------------------------ the other optional passes (Lift_C02.v) *)
From SV Require Import c02.Lift_C02.

(* One simulation for every rewrite of the optional passes: e' is e with call sites of inlinable globals replaced by
   lambda literals, closed lambdas replaced by lifted globals, aliases replaced by their originals, in any combination
   and nesting (xrel).  For every fuel, global state and environment the target evaluates to a related result,
   provided the source evaluation never assigns an inlined global, an alias or an aliased original. *)
Theorem C02_rewrites_preserve :
  forall (D : defs) (L : ldefs) (M : amap), closed_defs D ->
  forall n G G' ρ ρ' e e' r G1,
    GX D L M G G' -> erel D L M ρ ρ' -> xrel D L M e e' ->
    eval (xprot D M) n G ρ e = Some (r, G1) -> r <> Viol ->
    exists r' G1', eval [] n G' ρ' e' = Some (r', G1') /\ rrel D L M r r' /\ GX D L M G1 G1'.
Proof. exact xrel_preserves. Qed.

(* Closure lifting: any set of closed lambdas moved to fresh global definitions L (lift_spec: the program itself never
   mentions a lifted name; a lifted lambda has no free local variable; nested lifting allowed).  The lifted program,
   run in a global state that additionally binds the lifted names to their closures (GX), computes related results. *)
Theorem C02_lift_preserves :
  forall L n G G' ρ ρ' e e' r G1,
  lift_spec L e e' -> GX [] L [] G G' -> erel [] L [] ρ ρ' ->
  eval [] n G ρ e = Some (r, G1) -> r <> Viol ->
  exists r' G1', eval [] n G' ρ' e' = Some (r', G1') /\ rrel [] L [] r r' /\ GX [] L [] G1 G1'.
Proof. exact lift_preserves. Qed.

(* The side condition 'no free local variable' is needed: lifting (lambda () x) out of (let ((x 1)) ...) loses x. *)
Theorem C02_lift_unsound_if_captures :
  fst_opt (eval [] 20 [] [] lw_src) = Some (Val (VNum 1)) /\
  fst_opt (eval [] 20 lw_G' [] lw_tgt) = Some Err.
Proof. exact lift_unsound_if_captures. Qed.

(* Cross-module inlining (STEEL_MODULE_INLINE): aliases replaced by the exporting module's globals, followed by call
   inlining (one round + k more): meaning preserved as long as neither an alias nor its original is assigned
   (the global state satisfies: alias and original hold the same value, GX). *)
Theorem C02_module_inline_preserves :
  forall D M, closed_defs D -> tables_ok D [] M ->
  forall k n G G' ρ ρ' e r G1,
    GX D [] M G G' -> erel D [] M ρ ρ' ->
    eval (xprot D M) n G ρ e = Some (r, G1) -> r <> Viol ->
    exists r' G1', eval [] n G' ρ' (inline_rec k D (inline D (alias_subst M e))) = Some (r', G1') /\
                   rrel D [] M r r' /\ GX D [] M G1 G1'.
Proof. exact module_inline_preserves. Qed.

(* ... and not otherwise: if the exporting module assigns the original after the alias was taken, the alias keeps the
   old value but the rewritten program reads the new one.  The implementation checks set! on the alias only: this is
   observable on the engine (finding C02-MODULE-INLINE-MUTATED-EXPORT). *)
Theorem C02_module_inline_unsound_if_original_assigned :
  fst_opt (eval [] 20 aw_G [] aw_prog) = Some (Val (VNum 0)) /\
  fst_opt (eval [] 20 aw_G [] (alias_subst aw_M aw_prog)) = Some (Val (VNum 1)) /\
  fst_opt (eval (xprot [] aw_M) 20 aw_G [] aw_prog) = Some Viol.
Proof. exact alias_unsound_if_original_assigned. Qed.

(* Mangling is an injective renaming of global names; call inlining commutes with it. *)
Theorem C02_inline_commutes_with_mangling :
  forall (φ : string -> string), (forall a b, φ a = φ b -> a = b) ->
  forall D, (forall e, inline (ren_defs φ D) (ren φ e) = ren φ (inline D e)) /\
            (forall l, inlines (ren_defs φ D) (rens φ l) = rens φ (inlines D l)).
Proof. exact inline_ren_both. Qed.

(* The pipeline of compiler.rs in its order, every stage optional: module inline (s_mod) -> inline -> lifting (any
   lift_spec step, the identity included: lift_spec [] e e) -> inline(75) (s75; the lifted definitions go through it
   too) -> k rounds of recursive inlining (0 or 8): the composed program has the meaning of the original. *)
Theorem C02_config_irrelevant :
  forall D M L, closed_defs D -> tables_ok D L M ->
  forall (s_mod s75 : bool) (k : nat) e e3,
    lift_spec L (stage2 D (stage1 M s_mod e)) e3 ->
    let p := stage5 D k (stage4 D s75 (e3, L)) in
    forall n G G' ρ ρ' r G1,
      GX D (snd p) M G G' -> erel D (snd p) M ρ ρ' ->
      eval (xprot D M) n G ρ e = Some (r, G1) -> r <> Viol ->
      exists r' G1', eval [] n G' ρ' (fst p) = Some (r', G1') /\
                     rrel D (snd p) M r r' /\ GX D (snd p) M G1 G1'.
Proof. exact config_irrelevant. Qed.

(* lifting switched off (and the switchable pass lift_closures, which rewrites nothing in this tree) is the identity step *)
Theorem C02_lift_spec_identity :
  forall e, lift_spec [] e e.
Proof. exact lift_spec_refl_nil. Qed.

(* non-vacuity: an alias of an inlinable global, a lifted closed lambda, every switch on *)
Example C02_config_nonvacuous :
  closed_defs nv_D /\ tables_ok nv_D nv_L nv_M /\
  lift_spec nv_L (stage2 nv_D (stage1 nv_M true nv_e)) nv_e3 /\
  GX nv_D (snd (stage5 nv_D 8 (stage4 nv_D true (nv_e3, nv_L)))) nv_M nv_G nv_G' /\
  fst_opt (eval (xprot nv_D nv_M) 30 nv_G [] nv_e) = Some (Val (VNum 12)) /\
  fst_opt (eval [] 30 nv_G' [] (fst (stage5 nv_D 8 (stage4 nv_D true (nv_e3, nv_L))))) = Some (Val (VNum 12)).
Proof. exact config_nonvacuous. Qed.
