(* C02 — property theorems only. *)
From Coq Require Import ZArith List Bool String.
From SV Require Import c02.Model_C02 c02.Proofs_C02.
Import ListNotations.
Open Scope string_scope.

(* Call inlining — one round followed by any number k of further rounds (STEEL_INLINE,
   STEEL_INLINE_RECURSIVE, and the always-on first round), at any subset of call sites — preserves the
   configuration-free meaning [eval] of every expression, for every fuel, global state and local
   environment, PROVIDED the evaluation never assigns an inlined global (results related by [rrel]:
   equal numbers/booleans, closures with related code).  The definitions must be closed lambdas bound
   in the global state (Gok). *)
Theorem C02_inline_preserves :
  forall (D : defs), closed_defs D ->
  forall k n G G' ρ ρ' e r G1,
    Gok D G G' -> erel D ρ ρ' ->
    eval (prot D) n G ρ e = Some (r, G1) -> r <> Viol ->
    exists r' G1', eval [] n G' ρ' (inline_rec k D (inline D e)) = Some (r', G1') /\
                   rrel D r r' /\ Gok D G1 G1'.
Proof. exact inline_preserves. Qed.

(* The side condition is exactly what is needed: if an inlined global is assigned later, the inlined
   program and the reference differ (this is what the engine does across evaluation units:
   finding C02-F28). *)
Theorem C02_inline_unsound_if_assigned :
  fst_opt (eval [] 20 (wit_G (Call (Glob "f") ENil)) [] wit_prog) = Some (Val (VNum 2)) /\
  fst_opt (eval [] 20 (wit_G (inline wit_D (Call (Glob "f") ENil))) [] wit_prog) = Some (Val (VNum 1)) /\
  fst_opt (eval (map fst wit_D) 20 (wit_G (Call (Glob "f") ENil)) [] wit_prog) = Some Viol.
Proof. exact inline_unsound_if_assigned. Qed.

(* non-vacuity: a global state satisfying Gok and a program whose protected evaluation succeeds *)
Example C02_nonvacuous :
  closed_defs wit_D /\
  Gok wit_D (wit_G (Call (Glob "f") ENil)) (wit_G (Call (Glob "f") ENil)) /\
  fst_opt (eval (prot wit_D) 20 (wit_G (Call (Glob "f") ENil)) [] (Add (Call (Glob "g") ENil) (Num 41)))
    = Some (Val (VNum 42)).
Proof.
  split; [|split].
  - intros g xs b0 H. unfold wit_D in H. cbn [lookup] in H.
    destruct (String.eqb g "f"); inversion H; subst; reflexivity.
  - split.
    + repeat constructor; apply irel_refl.
    + intros g xs b0 H. unfold wit_D in H. cbn [lookup] in H.
      destruct (String.eqb g "f") eqn:E; inversion H; subst.
      apply String.eqb_eq in E. subst. reflexivity.
  - vm_compute. reflexivity.
Qed.
