(* C02 — native tier: error discipline of the code generator (jit2/cgen.rs) and its helpers
   (steel_vm/vm/jit.rs).

   A helper called from natively compiled code cannot return a Result: it reports an error by storing
   it in ctx.result, clearing ctx.is_native and returning #<void>; the GENERATED code has to test the flag
   after the call (FunctionTranslator::check_deopt) and leave the native function, so that the
   interpreter loop raises the stored error.  A call site without the test continues with #<void> and the
   error is lost or replaced (DESIGN F39: (car '()) inside with-handler returned #<void>).

   Model: a natively compiled body abstracted to the sequence of helper calls it makes on an operand
   stack.  [interp] is the interpreter's meaning (stop at the first error); [native] is what the generated
   code does.  The table of call sites (arm of the code generator, helper, can the helper report an error,
   is the call followed by the test) is regenerated from the two source files on every run
   (coq/gen/Gen_C02jit.v, translator checks/c02_jit.py). *)
From Coq Require Import List Bool String ZArith.
Import ListNotations.

Inductive hres := HVal (v : Z) | HErr (e : nat).

Record call := {
  run : list Z -> hres;     (* the helper applied to the current operands *)
  cfallible : bool;         (* the helper has an error-reporting path (generated fact) *)
  checked : bool            (* the call site is followed by check_deopt (generated fact) *)
}.

Fixpoint interp (p : list call) (st : list Z) : hres :=
  match p with
  | [] => HVal (hd 0%Z st)
  | c :: r => match run c st with
              | HVal v => interp r (v :: st)
              | HErr e => HErr e
              end
  end.

(* #<void> is 0 here: an unchecked site continues with the helper's dummy return value *)
Fixpoint native (p : list call) (st : list Z) : hres :=
  match p with
  | [] => HVal (hd 0%Z st)
  | c :: r => match run c st with
              | HVal v => native r (v :: st)
              | HErr e => if checked c then HErr e else native r (0%Z :: st)
              end
  end.

(* the generated flag over-approximates: a helper without an error-reporting path never fails *)
Definition fallible_sound (c : call) : Prop := forall st e, run c st = HErr e -> cfallible c = true.

Definition call_ok (c : call) : bool := implb (cfallible c) (checked c).

(* the table extracted from the sources *)
Definition site := (string * string * bool * bool)%type.     (* arm, helper, fallible, checked *)
Definition site_ok (s : site) : bool := let '(_, _, f, c) := s in implb f c.
Definition discipline (l : list site) : bool := forallb site_ok l.

Lemma native_agrees : forall p, Forall fallible_sound p -> forallb call_ok p = true ->
  forall st, native p st = interp p st.
Proof.
  induction p as [|c r IH]; intros Hs Hok st; cbn [native interp]; [reflexivity|].
  inversion Hs as [|? ? Hc Hr]; subst.
  cbn [forallb] in Hok. apply andb_true_iff in Hok. destruct Hok as [Hc_ok Hr_ok].
  destruct (run c st) as [v|e] eqn:Hrun.
  - apply IH; assumption.
  - specialize (Hc st e Hrun). unfold call_ok in Hc_ok. rewrite Hc in Hc_ok. cbn in Hc_ok.
    rewrite Hc_ok. reflexivity.
Qed.

(* without the test the error is lost: car of the empty list followed by nothing *)
Definition car_like : call :=
  {| run := fun st => match st with 0%Z :: _ => HErr 1 | _ => HVal 7%Z end; cfallible := true; checked := false |}.

Lemma unchecked_site_loses_error : exists p st, Forall fallible_sound p /\ native p st <> interp p st.
Proof.
  exists [car_like], [0%Z]. split.
  - constructor; [|constructor]. intros st e _. reflexivity.
  - cbn. discriminate.
Qed.

(* a disciplined table entry used by a call makes the call ok *)
Lemma site_ok_call_ok : forall arm h c, site_ok (arm, h, cfallible c, checked c) = true -> call_ok c = true.
Proof. intros arm h c H. exact H. Qed.

(* ---- the helper's side of the contract: an error is reported by storing it AND clearing ctx.is_native, because
   the flag is what the generated test reads.  [native_flag] keeps the flag explicitly: a helper that reports
   without clearing it ([clears c = false]) is not noticed even by a checked site. *)
Record callf := { base : call; clears : bool }.

Fixpoint native_flag (p : list callf) (st : list Z) : hres :=
  match p with
  | [] => HVal (hd 0%Z st)
  | c :: r => match run (base c) st with
              | HVal v => native_flag r (v :: st)
              | HErr e => if checked (base c) && clears c then HErr e else native_flag r (0%Z :: st)
              end
  end.

Lemma native_flag_agrees : forall p, Forall (fun c => fallible_sound (base c)) p ->
  forallb (fun c => call_ok (base c) && implb (cfallible (base c)) (clears c)) p = true ->
  forall st, native_flag p st = interp (map base p) st.
Proof.
  induction p as [|c r IH]; intros Hs Hok st; cbn [native_flag interp map]; [reflexivity|].
  inversion Hs as [|? ? Hc Hr]; subst.
  cbn [forallb] in Hok. apply andb_true_iff in Hok. destruct Hok as [Hc_ok Hr_ok].
  apply andb_true_iff in Hc_ok. destruct Hc_ok as [H1 H2].
  destruct (run (base c) st) as [v|e] eqn:Hrun.
  - apply IH; assumption.
  - specialize (Hc st e Hrun). unfold call_ok in H1. rewrite Hc in H1, H2. cbn in H1, H2.
    rewrite H1, H2. reflexivity.
Qed.

Lemma helper_not_clearing_flag_loses_error : exists p st,
  Forall (fun c => fallible_sound (base c)) p /\ forallb (fun c => call_ok (base c)) p = true /\
  native_flag p st <> interp (map base p) st.
Proof.
  exists [{| base := {| run := run car_like; cfallible := true; checked := true |}; clears := false |}], [0%Z].
  split; [|split].
  - constructor; [|constructor]. intros st e _. reflexivity.
  - reflexivity.
  - cbn. discriminate.
Qed.

(* generated: (function or macro of jit.rs, number of error stores, number of `is_native = false`) *)
Definition stores_ok (x : string * nat * nat) : bool := let '(_, s, c) := x in Nat.leb s c.
Definition helper_discipline (l : list (string * nat * nat)) : bool := forallb stores_ok l.

Example discipline_nonvacuous :
  discipline [("CAR"%string, "car-reg"%string, true, true); ("CONS"%string, "cons-handler-value"%string, false, false)] = true /\
  discipline [("CAR"%string, "car-reg"%string, true, false)] = false.
Proof. split; reflexivity. Qed.
