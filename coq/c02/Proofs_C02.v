(* C02 — the inlining pass preserves the configuration-free meaning, under exactly the side
   condition the implementation checks (the inlined global is never assigned), and is unsound
   without it. *)
From Coq Require Import ZArith List Bool String Lia.
From SV Require Import c02.Model_C02.
Import ListNotations.
Open Scope string_scope.

(* unfolding equations of the mutual fixpoints (cbn does not refold them) *)
Section Unfold.
  Variable p : list string.
  Lemma eval_Num n G ρ z : eval p (S n) G ρ (Num z) = Some (Val (VNum z), G). Proof. reflexivity. Qed.
  Lemma eval_Bool n G ρ b : eval p (S n) G ρ (Bool_ b) = Some (Val (VBool b), G). Proof. reflexivity. Qed.
  Lemma eval_Loc n G ρ x : eval p (S n) G ρ (Loc x) =
    match lookup x ρ with Some v => Some (Val v, G) | None => Some (Err, G) end. Proof. reflexivity. Qed.
  Lemma eval_Glob n G ρ g : eval p (S n) G ρ (Glob g) =
    match lookup g G with Some v => Some (Val v, G) | None => Some (Err, G) end. Proof. reflexivity. Qed.
  Lemma eval_Lam n G ρ xs b : eval p (S n) G ρ (Lam xs b) =
    Some (Val (VClo xs b (restrict ρ (fv (Lam xs b)))), G). Proof. reflexivity. Qed.
  Lemma eval_Call n G ρ f args : eval p (S n) G ρ (Call f args) =
    match evals p n G ρ args with
    | None => None
    | Some (inl x, G1) => Some (x, G1)
    | Some (inr vs, G1) =>
      match eval p n G1 ρ f with
      | None => None
      | Some (Val (VClo xs b ρc), G2) =>
          match bind_params xs vs ρc with
          | Some ρ' => eval p n G2 ρ' b
          | None => Some (Err, G2)
          end
      | Some (Val _, G2) => Some (Err, G2)
      | Some (x, G2) => Some (x, G2)
      end
    end. Proof. reflexivity. Qed.
  Lemma eval_If n G ρ c t e : eval p (S n) G ρ (If c t e) =
    match eval p n G ρ c with
    | None => None
    | Some (Val v, G1) => eval p n G1 ρ (if truthy v then t else e)
    | Some (x, G1) => Some (x, G1)
    end. Proof. reflexivity. Qed.
  Lemma eval_Let n G ρ x e1 e2 : eval p (S n) G ρ (Let x e1 e2) =
    match eval p n G ρ e1 with
    | None => None
    | Some (Val v, G1) => eval p n G1 ((x, v) :: ρ) e2
    | Some (x', G1) => Some (x', G1)
    end. Proof. reflexivity. Qed.
  Lemma eval_Add n G ρ a b : eval p (S n) G ρ (Add a b) =
    match eval p n G ρ a with
    | None => None
    | Some (Val va, G1) =>
      match eval p n G1 ρ b with
      | None => None
      | Some (Val vb, G2) =>
          match va, vb with
          | VNum x, VNum y => Some (Val (VNum (x + y)), G2)
          | _, _ => Some (Err, G2)
          end
      | Some (x, G2) => Some (x, G2)
      end
    | Some (x, G1) => Some (x, G1)
    end. Proof. reflexivity. Qed.
  Lemma eval_SetG n G ρ g e : eval p (S n) G ρ (SetG g e) =
    match eval p n G ρ e with
    | None => None
    | Some (Val v, G1) =>
        if mem g p then Some (Viol, G1)
        else match lookup g G1 with
             | Some old => Some (Val old, update g v G1)
             | None => Some (Err, G1)
             end
    | Some (x, G1) => Some (x, G1)
    end. Proof. reflexivity. Qed.
  Lemma eval_O G ρ e : eval p 0 G ρ e = None. Proof. reflexivity. Qed.
  Lemma evals_O G ρ l : evals p 0 G ρ l = None. Proof. reflexivity. Qed.
  Lemma evals_Nil n G ρ : evals p (S n) G ρ ENil = Some (inr [], G). Proof. reflexivity. Qed.
  Lemma evals_Cons n G ρ a r : evals p (S n) G ρ (ECons a r) =
    match eval p n G ρ a with
    | None => None
    | Some (Val v, G1) =>
        match evals p n G1 ρ r with
        | None => None
        | Some (inr vs, G2) => Some (inr (v :: vs), G2)
        | Some (inl x, G2) => Some (inl x, G2)
        end
    | Some (x, G1) => Some (inl x, G1)
    end. Proof. reflexivity. Qed.
End Unfold.
#[global] Hint Rewrite eval_Num eval_Bool eval_Loc eval_Glob eval_Lam eval_Call eval_If eval_Let eval_Add
  eval_SetG evals_Nil evals_Cons : evaldb.
#[global] Opaque eval evals.

Section Sim.
  Variable D : defs.

  (* e' is e with some call sites of inlinable globals replaced by (possibly further inlined) lambda
     literals: covers one round, bounded recursive rounds and any subset of call sites *)
  Inductive irel : exp -> exp -> Prop :=
  | IR_Num z : irel (Num z) (Num z)
  | IR_Bool b : irel (Bool_ b) (Bool_ b)
  | IR_Loc x : irel (Loc x) (Loc x)
  | IR_Glob g : irel (Glob g) (Glob g)
  | IR_Lam xs b b' : irel b b' -> irel (Lam xs b) (Lam xs b')
  | IR_Call f f' a a' : irel f f' -> irels a a' -> irel (Call f a) (Call f' a')
  | IR_Inl g xs b0 b0' a a' :
      lookup g D = Some (xs, b0) -> irel b0 b0' -> irels a a' ->
      irel (Call (Glob g) a) (Call (Lam xs b0') a')
  | IR_If c c' t t' e e' : irel c c' -> irel t t' -> irel e e' -> irel (If c t e) (If c' t' e')
  | IR_Let x a a' b b' : irel a a' -> irel b b' -> irel (Let x a b) (Let x a' b')
  | IR_Add a a' b b' : irel a a' -> irel b b' -> irel (Add a b) (Add a' b')
  | IR_SetG g e e' : irel e e' -> irel (SetG g e) (SetG g e')
  with irels : exps -> exps -> Prop :=
  | IRS_Nil : irels ENil ENil
  | IRS_Cons e e' r r' : irel e e' -> irels r r' -> irels (ECons e r) (ECons e' r').

  Scheme irel_mut := Induction for irel Sort Prop
    with irels_mut := Induction for irels Sort Prop.
  Combined Scheme irel_irels_ind from irel_mut, irels_mut.

  Lemma irel_refl_both : (forall e, irel e e) /\ (forall l, irels l l).
  Proof. apply exp_exps_ind; intros; constructor; auto. Qed.
  Definition irel_refl := proj1 irel_refl_both.
  Definition irels_refl := proj2 irel_refl_both.

  (* the pass produces related code *)
  Lemma inline_irel_both :
    (forall e, irel e (inline D e)) /\ (forall l, irels l (inlines D l)).
  Proof.
    apply exp_exps_ind; intros; cbn [inline inlines]; try (constructor; auto; fail).
    - (* Call *)
      destruct f; try (constructor; auto; fail).
      destruct (lookup g D) as [[xs b]|] eqn:E.
      + eapply IR_Inl; [eassumption | apply irel_refl | auto].
      + constructor; auto; constructor.
  Qed.

  (* a further round on already related code stays related to the ORIGINAL code *)
  Lemma inline_after_both :
    (forall e e', irel e e' -> irel e (inline D e')) /\
    (forall l l', irels l l' -> irels l (inlines D l')).
  Proof.
    apply irel_irels_ind; intros; cbn [inline inlines]; try (constructor; auto; fail).
    - (* IR_Call f f' *)
      destruct f'; try (constructor; auto; fail).
      (* f' = Glob g0: then f = Glob g0 as well *)
      inversion i; subst.
      destruct (lookup g D) as [[xs b]|] eqn:E.
      + eapply IR_Inl; [eassumption | apply irel_refl | auto].
      + constructor; auto.
    - (* IR_Inl: operator already a lambda literal: inline its body *)
      eapply IR_Inl; eauto.
  Qed.

  Lemma inline_rec_irel k : forall e e', irel e e' -> irel e (inline_rec k D e').
  Proof.
    induction k as [|k IH]; intros e e' H; cbn [inline_rec]; auto.
    apply IH. apply (proj1 inline_after_both); auto.
  Qed.

  (* ---------------------------------------------------------------- values *)
  Inductive vrel : val -> val -> Prop :=
  | VR_Num z : vrel (VNum z) (VNum z)
  | VR_Bool b : vrel (VBool b) (VBool b)
  | VR_Clo xs b b' ρ ρ' : irel b b' -> erel ρ ρ' -> vrel (VClo xs b ρ) (VClo xs b' ρ')
  with erel : env -> env -> Prop :=
  | ER_nil : erel [] []
  | ER_cons x v v' ρ ρ' : vrel v v' -> erel ρ ρ' -> erel ((x, v) :: ρ) ((x, v') :: ρ').

  Inductive rrel : res -> res -> Prop :=
  | RR_Val v v' : vrel v v' -> rrel (Val v) (Val v')
  | RR_Err : rrel Err Err.

  Lemma erel_lookup ρ ρ' x : erel ρ ρ' ->
    match lookup x ρ, lookup x ρ' with
    | Some v, Some v' => vrel v v'
    | None, None => True
    | _, _ => False
    end.
  Proof.
    induction 1 as [|y v v' ρ ρ' Hv Hr IH]; cbn [lookup]; auto.
    destruct (String.eqb x y); auto.
  Qed.

  Lemma erel_update ρ ρ' x v v' : erel ρ ρ' -> vrel v v' -> erel (update x v ρ) (update x v' ρ').
  Proof.
    induction 1 as [|y w w' ρ ρ' Hw Hr IH]; intros Hv; cbn [update]; [constructor|].
    destruct (String.eqb x y); constructor; auto.
  Qed.

  Lemma erel_restrict ρ ρ' keep : erel ρ ρ' -> erel (restrict ρ keep) (restrict ρ' keep).
  Proof.
    induction 1 as [|y w w' ρ ρ' Hw Hr IH]; cbn [restrict filter]; [constructor|].
    cbn [fst]. destruct (mem y keep); [constructor|]; auto.
  Qed.

  Lemma erel_bind xs : forall vs vs' ρ ρ',
    Forall2 vrel vs vs' -> erel ρ ρ' ->
    match bind_params xs vs ρ, bind_params xs vs' ρ' with
    | Some a, Some b => erel a b
    | None, None => True
    | _, _ => False
    end.
  Proof.
    induction xs as [|x xs IH]; intros vs vs' ρ ρ' HF HR; inversion HF; subst; cbn [bind_params]; auto.
    apply IH; auto. constructor; auto.
  Qed.

  Lemma vrel_truthy v v' : vrel v v' -> truthy v = truthy v'.
  Proof. destruct 1; reflexivity. Qed.

  (* ---------------------------------------------------------------- the inlinable definitions *)
  Definition closed_defs : Prop :=
    forall g xs b0, lookup g D = Some (xs, b0) -> fv (Lam xs b0) = [].

  Hypothesis Hclosed : closed_defs.

  Lemma irel_fv_both :
    (forall e e', irel e e' -> fv e' = fv e) /\ (forall l l', irels l l' -> fvs l' = fvs l).
  Proof.
    apply irel_irels_ind; intros; cbn [fv fvs]; try congruence.
    - (* IR_Inl *)
      rewrite H0. cbn [app].
      pose proof (Hclosed _ _ _ e) as C. cbn [fv] in C.
      assert (filter (fun y => negb (mem y xs)) (fv b0') = []) as ->.
      { rewrite H. exact C. }
      reflexivity.
  Qed.
  Definition irel_fv := proj1 irel_fv_both.

  Lemma restrict_nil ρ : restrict ρ [] = [].
  Proof. induction ρ as [|[y v] ρ IH]; cbn [restrict filter fst mem existsb]; auto. Qed.

  Definition prot : list string := map fst D.

  Lemma mem_prot g : mem g prot = false -> lookup g D = None.
  Proof.
    unfold prot, mem. induction D as [|[y p] r IH]; cbn [map fst existsb lookup]; auto.
    intros H. apply orb_false_iff in H as [H1 H2]. rewrite H1. auto.
  Qed.

  (* the global environments: related pointwise, and every inlinable name still holds the closure of
     its definition (nothing has assigned it) *)
  Definition Gok (G G' : env) : Prop :=
    erel G G' /\ forall g xs b0, lookup g D = Some (xs, b0) -> lookup g G = Some (VClo xs b0 []).

  Lemma lookup_update_other g g' v (G : env) : String.eqb g' g = false -> lookup g' (update g v G) = lookup g' G.
  Proof.
    intros H. induction G as [|[y w] r IH]; cbn [update lookup]; auto.
    destruct (String.eqb g y) eqn:E; cbn [lookup].
    - apply String.eqb_eq in E. subst y. rewrite H. reflexivity.
    - destruct (String.eqb g' y); auto.
  Qed.

  Lemma Gok_update G G' g v v' :
    Gok G G' -> vrel v v' -> mem g prot = false -> Gok (update g v G) (update g v' G').
  Proof.
    intros [HR HD] Hv Hm. split; [apply erel_update; auto|].
    intros g0 xs b0 L. rewrite lookup_update_other; [apply HD; auto|].
    destruct (String.eqb g0 g) eqn:E; auto. apply String.eqb_eq in E. subst g0.
    rewrite (mem_prot _ Hm) in L. discriminate.
  Qed.

  (* ---------------------------------------------------------------- the simulation *)
  Definition P_eval (n : nat) : Prop :=
    forall G G' ρ ρ' e e' r G1,
      Gok G G' -> erel ρ ρ' -> irel e e' ->
      eval prot n G ρ e = Some (r, G1) -> r <> Viol ->
      exists r' G1', eval [] n G' ρ' e' = Some (r', G1') /\ rrel r r' /\ Gok G1 G1'.

  Inductive rsrel : res + list val -> res + list val -> Prop :=
  | RS_res r r' : rrel r r' -> rsrel (inl r) (inl r')
  | RS_vals vs vs' : Forall2 vrel vs vs' -> rsrel (inr vs) (inr vs').

  Definition P_evals (n : nat) : Prop :=
    forall G G' ρ ρ' l l' r G1,
      Gok G G' -> erel ρ ρ' -> irels l l' ->
      evals prot n G ρ l = Some (r, G1) -> r <> inl Viol ->
      exists r' G1', evals [] n G' ρ' l' = Some (r', G1') /\ rsrel r r' /\ Gok G1 G1'.

  Ltac inv H := inversion H; subst; clear H.

  (* the body of a call, once operands and operator have been evaluated on both sides *)
  Lemma call_tail n' (IHe : P_eval n') :
    forall G2 G2' xs b b' ρc ρc' vs vs' r G3,
      Gok G2 G2' -> irel b b' -> erel ρc ρc' -> Forall2 vrel vs vs' ->
      match bind_params xs vs ρc with
      | Some ρ' => eval prot n' G2 ρ' b
      | None => Some (Err, G2)
      end = Some (r, G3) -> r <> Viol ->
      exists r' G3',
        match bind_params xs vs' ρc' with
        | Some ρ' => eval [] n' G2' ρ' b'
        | None => Some (Err, G2')
        end = Some (r', G3') /\ rrel r r' /\ Gok G3 G3'.
  Proof.
    intros G2 G2' xs b b' ρc ρc' vs vs' r G3 HG Hb Hρ Hvs H Hr.
    pose proof (erel_bind xs vs vs' ρc ρc' Hvs Hρ) as HB.
    destruct (bind_params xs vs ρc) as [ρn|], (bind_params xs vs' ρc') as [ρn'|]; try contradiction.
    - eapply IHe; eauto.
    - inv H. do 2 eexists. split; [reflexivity|]. split; [constructor | auto].
  Qed.

  Lemma sim : forall n, P_eval n /\ P_evals n.
  Proof.
    induction n as [|n' [IHe IHs]]; [split; intros ? ? ? ? ? ? ? ? ? ? ? H; rewrite ?eval_O, ?evals_O in H; discriminate H|].
    split.
    - (* eval *)
      intros G G' ρ ρ' e e' r G1 HG Hρ Hi H Hr.
      destruct Hi; autorewrite with evaldb in H |- *.
      + inv H. do 2 eexists. split; [reflexivity|]. split; [constructor; constructor | auto].
      + inv H. do 2 eexists. split; [reflexivity|]. split; [constructor; constructor | auto].
      + (* Loc *)
        pose proof (erel_lookup ρ ρ' x Hρ) as L.
        destruct (lookup x ρ), (lookup x ρ'); try contradiction; inv H;
          do 2 eexists; (split; [reflexivity|]); (split; [constructor; auto | auto]).
      + (* Glob *)
        pose proof (erel_lookup G G' g (proj1 HG)) as L.
        destruct (lookup g G), (lookup g G'); try contradiction; inv H;
          do 2 eexists; (split; [reflexivity|]); (split; [constructor; auto | auto]).
      + (* Lam *)
        inv H. do 2 eexists. split; [reflexivity|]. split; [|auto].
        constructor.
        assert (F : fv (Lam xs b') = fv (Lam xs b)) by (apply irel_fv; constructor; auto).
        rewrite F. constructor; auto. apply erel_restrict; auto.
      + (* Call, congruence *)
        destruct (evals prot n' G ρ a) as [[rs G1a]|] eqn:Ea; [|discriminate H].
        assert (Hrs : rs <> inl Viol) by (intros ->; inv H; congruence).
        destruct (IHs _ _ _ _ _ _ _ _ HG Hρ H0 Ea Hrs) as [rs' [G1a' [Ea' [Rrs HG1]]]].
        rewrite Ea'. inv Rrs.
        * (* operands aborted *)
          inv H. do 2 eexists. split; [reflexivity|]. split; auto.
        * destruct (eval prot n' G1a ρ f) as [[rf G2]|] eqn:Ef; [|discriminate H].
          assert (Hrf : rf <> Viol) by (intros ->; inv H; congruence).
          destruct (IHe _ _ _ _ _ _ _ _ HG1 Hρ Hi Ef Hrf) as [rf' [G2' [Ef' [Rf HG2]]]].
          rewrite Ef'. inv Rf.
          -- inv H2.
             ++ inv H. do 2 eexists. split; [reflexivity|]. split; [constructor | auto].
             ++ inv H. do 2 eexists. split; [reflexivity|]. split; [constructor | auto].
             ++ eapply call_tail; eauto.
          -- inv H. do 2 eexists. split; [reflexivity|]. split; [constructor | auto].
      + (* Call of an inlinable global, replaced by the lambda literal *)
        destruct (evals prot n' G ρ a) as [[rs G1a]|] eqn:Ea; [|discriminate H].
        assert (Hrs : rs <> inl Viol) by (intros ->; inv H; congruence).
        destruct (IHs _ _ _ _ _ _ _ _ HG Hρ H1 Ea Hrs) as [rs' [G1a' [Ea' [Rrs HG1]]]].
        rewrite Ea'. inv Rrs.
        * inv H. do 2 eexists. split; [reflexivity|]. split; auto.
        * (* source: the global still holds the closure of its definition *)
          destruct n' as [|n'']; [rewrite eval_O in H; discriminate H|].
          assert (Es : eval prot (S n'') G1a ρ (Glob g) = Some (Val (VClo xs b0 []), G1a)).
          { rewrite eval_Glob. rewrite (proj2 HG1 _ _ _ H0). reflexivity. }
          rewrite Es in H.
          assert (Et : eval [] (S n'') G1a' ρ' (Lam xs b0') = Some (Val (VClo xs b0' []), G1a')).
          { rewrite eval_Lam.
            assert (F : fv (Lam xs b0') = fv (Lam xs b0)) by (apply irel_fv; constructor; auto).
            rewrite F, (Hclosed _ _ _ H0), restrict_nil. reflexivity. }
          rewrite Et.
          eapply call_tail; eauto. constructor.
      + (* If *)
        destruct (eval prot n' G ρ c) as [[rc G1c]|] eqn:Ec; [|discriminate H].
        assert (Hrc : rc <> Viol) by (intros ->; inv H; congruence).
        destruct (IHe _ _ _ _ _ _ _ _ HG Hρ Hi1 Ec Hrc) as [rc' [G1c' [Ec' [Rc HG1]]]].
        rewrite Ec'. inv Rc.
        * rewrite <- (vrel_truthy _ _ H0).
          destruct (truthy v); eapply IHe; eauto.
        * inv H. do 2 eexists. split; [reflexivity|]. split; [constructor | auto].
      + (* Let *)
        destruct (eval prot n' G ρ a) as [[ra G1a]|] eqn:Ea; [|discriminate H].
        assert (Hra : ra <> Viol) by (intros ->; inv H; congruence).
        destruct (IHe _ _ _ _ _ _ _ _ HG Hρ Hi1 Ea Hra) as [ra' [G1a' [Ea' [Ra HG1]]]].
        rewrite Ea'. inv Ra.
        * eapply IHe; eauto. constructor; auto.
        * inv H. do 2 eexists. split; [reflexivity|]. split; [constructor | auto].
      + (* Add *)
        destruct (eval prot n' G ρ a) as [[ra G1a]|] eqn:Ea; [|discriminate H].
        assert (Hra : ra <> Viol) by (intros ->; inv H; congruence).
        destruct (IHe _ _ _ _ _ _ _ _ HG Hρ Hi1 Ea Hra) as [ra' [G1a' [Ea' [Ra HG1]]]].
        rewrite Ea'. inv Ra.
        * destruct (eval prot n' G1a ρ b) as [[rb G2]|] eqn:Eb; [|discriminate H].
          assert (Hrb : rb <> Viol) by (intros ->; inv H; congruence).
          destruct (IHe _ _ _ _ _ _ _ _ HG1 Hρ Hi2 Eb Hrb) as [rb' [G2' [Eb' [Rb HG2]]]].
          rewrite Eb'. inv Rb.
          -- repeat match goal with X : vrel _ _ |- _ => inv X end; inv H; do 2 eexists; (split; [reflexivity|]);
               (split; [repeat constructor | auto]).
          -- inv H. do 2 eexists. split; [reflexivity|]. split; [constructor | auto].
        * inv H. do 2 eexists. split; [reflexivity|]. split; [constructor | auto].
      + (* SetG *)
        destruct (eval prot n' G ρ e) as [[re G1e]|] eqn:Ee; [|discriminate H].
        assert (Hre : re <> Viol) by (intros ->; inv H; congruence).
        destruct (IHe _ _ _ _ _ _ _ _ HG Hρ Hi Ee Hre) as [re' [G1e' [Ee' [Re HG1]]]].
        rewrite Ee'. inv Re.
        * destruct (mem g prot) eqn:Em; [inv H; congruence|].
          cbn [mem existsb].
          pose proof (erel_lookup G1e G1e' g (proj1 HG1)) as L.
          destruct (lookup g G1e), (lookup g G1e'); try contradiction; inv H;
            do 2 eexists; (split; [reflexivity|]); (split; [constructor; auto | auto]).
          apply Gok_update; auto.
        * inv H. do 2 eexists. split; [reflexivity|]. split; [constructor | auto].
    - (* evals *)
      intros G G' ρ ρ' l l' r G1 HG Hρ Hi H Hr.
      destruct Hi; autorewrite with evaldb in H |- *.
      + inv H. do 2 eexists. split; [reflexivity|]. split; [constructor; constructor | auto].
      + destruct (eval prot n' G ρ e) as [[ra G1a]|] eqn:Ea; [|discriminate H].
        assert (Hra : ra <> Viol) by (intros ->; inv H; congruence).
        destruct (IHe _ _ _ _ _ _ _ _ HG Hρ H0 Ea Hra) as [ra' [G1a' [Ea' [Ra HG1]]]].
        rewrite Ea'. inv Ra.
        * destruct (evals prot n' G1a ρ r0) as [[rs G2]|] eqn:Es; [|discriminate H].
          assert (Hrs : rs <> inl Viol) by (intros ->; inv H; congruence).
          destruct (IHs _ _ _ _ _ _ _ _ HG1 Hρ Hi Es Hrs) as [rs' [G2' [Es' [Rs HG2]]]].
          rewrite Es'. inv Rs.
          -- inv H. do 2 eexists. split; [reflexivity|]. split; [constructor; auto | auto].
          -- inv H. do 2 eexists. split; [reflexivity|]. split; [constructor; constructor; auto | auto].
        * inv H. do 2 eexists. split; [reflexivity|]. split; [constructor; constructor | auto].
  Qed.

  Theorem inline_preserves : forall k n G G' ρ ρ' e r G1,
    Gok G G' -> erel ρ ρ' ->
    eval prot n G ρ e = Some (r, G1) -> r <> Viol ->
    exists r' G1', eval [] n G' ρ' (inline_rec k D (inline D e)) = Some (r', G1') /\ rrel r r' /\ Gok G1 G1'.
  Proof.
    intros k n G G' ρ ρ' e r G1 HG Hρ H Hr.
    eapply (proj1 (sim n)); eauto.
    apply inline_rec_irel. apply (proj1 inline_irel_both).
  Qed.
End Sim.

(* ------------------------------------------------------------------ the side condition is needed *)
(* (define f (lambda () 1)) (define g (lambda () (f))) ; (set! f (lambda () 2)) ; (g)
   With f inlined into g, the later assignment is not seen: the reference meaning is 2. *)
Definition wit_D : defs := [("f", ([], Num 1))].
Definition wit_G (gbody : exp) : env :=
  [("f", VClo [] (Num 1) []); ("g", VClo [] gbody [])].
Definition wit_prog : exp :=
  Let "_" (SetG "f" (Lam [] (Num 2))) (Call (Glob "g") ENil).

Lemma inline_unsound_if_assigned :
  (* reference (no protection: the assignment is allowed) *)
  fst_opt (eval [] 20 (wit_G (Call (Glob "f") ENil)) [] wit_prog) = Some (Val (VNum 2)) /\
  (* g's body compiled with f inlined *)
  fst_opt (eval [] 20 (wit_G (inline wit_D (Call (Glob "f") ENil))) [] wit_prog) = Some (Val (VNum 1)) /\
  (* and the protected evaluation flags exactly this program *)
  fst_opt (eval (map fst wit_D) 20 (wit_G (Call (Glob "f") ENil)) [] wit_prog) = Some Viol.
Proof. repeat split; vm_compute; reflexivity. Qed.
