From Coq Require Import ZArith List Bool String.
From SV Require Import c02.Model_C02 c02.Proofs_C02 c02.Properties_C02.
Import ListNotations.
Open Scope string_scope.

Check (C02_inline_preserves :
  forall (D : defs), closed_defs D ->
  forall k n G G' ρ ρ' e r G1,
    Gok D G G' -> erel D ρ ρ' ->
    eval (prot D) n G ρ e = Some (r, G1) -> r <> Viol ->
    exists r' G1', eval [] n G' ρ' (inline_rec k D (inline D e)) = Some (r', G1') /\
                   rrel D r r' /\ Gok D G1 G1').
Check (C02_inline_unsound_if_assigned :
  fst_opt (eval [] 20 (wit_G (Call (Glob "f") ENil)) [] wit_prog) = Some (Val (VNum 2)) /\
  fst_opt (eval [] 20 (wit_G (inline wit_D (Call (Glob "f") ENil))) [] wit_prog) = Some (Val (VNum 1)) /\
  fst_opt (eval (map fst wit_D) 20 (wit_G (Call (Glob "f") ENil)) [] wit_prog) = Some Viol).
Check (C02_nonvacuous :
  closed_defs wit_D /\
  Gok wit_D (wit_G (Call (Glob "f") ENil)) (wit_G (Call (Glob "f") ENil)) /\
  fst_opt (eval (prot wit_D) 20 (wit_G (Call (Glob "f") ENil)) [] (Add (Call (Glob "g") ENil) (Num 41)))
    = Some (Val (VNum 42))).
From SV Require Import c02.Lift_C02.
Check (C02_rewrites_preserve :
  forall (D : defs) (L : ldefs) (M : amap), closed_defs D ->
  forall n G G' ρ ρ' e e' r G1,
    GX D L M G G' -> erel D L M ρ ρ' -> xrel D L M e e' ->
    eval (xprot D M) n G ρ e = Some (r, G1) -> r <> Viol ->
    exists r' G1', eval [] n G' ρ' e' = Some (r', G1') /\ rrel D L M r r' /\ GX D L M G1 G1').
Check (C02_lift_preserves :
  forall L n G G' ρ ρ' e e' r G1,
  lift_spec L e e' -> GX [] L [] G G' -> erel [] L [] ρ ρ' ->
  eval [] n G ρ e = Some (r, G1) -> r <> Viol ->
  exists r' G1', eval [] n G' ρ' e' = Some (r', G1') /\ rrel [] L [] r r' /\ GX [] L [] G1 G1').
Check (C02_lift_unsound_if_captures :
  fst_opt (eval [] 20 [] [] lw_src) = Some (Val (VNum 1)) /\
  fst_opt (eval [] 20 lw_G' [] lw_tgt) = Some Err).
Check (C02_module_inline_preserves :
  forall D M, closed_defs D -> tables_ok D [] M ->
  forall k n G G' ρ ρ' e r G1,
    GX D [] M G G' -> erel D [] M ρ ρ' ->
    eval (xprot D M) n G ρ e = Some (r, G1) -> r <> Viol ->
    exists r' G1', eval [] n G' ρ' (inline_rec k D (inline D (alias_subst M e))) = Some (r', G1') /\
                   rrel D [] M r r' /\ GX D [] M G1 G1').
Check (C02_module_inline_unsound_if_original_assigned :
  fst_opt (eval [] 20 aw_G [] aw_prog) = Some (Val (VNum 0)) /\
  fst_opt (eval [] 20 aw_G [] (alias_subst aw_M aw_prog)) = Some (Val (VNum 1)) /\
  fst_opt (eval (xprot [] aw_M) 20 aw_G [] aw_prog) = Some Viol).
Check (C02_inline_commutes_with_mangling :
  forall (φ : string -> string), (forall a b, φ a = φ b -> a = b) ->
  forall D, (forall e, inline (ren_defs φ D) (ren φ e) = ren φ (inline D e)) /\
            (forall l, inlines (ren_defs φ D) (rens φ l) = rens φ (inlines D l))).
Check (C02_config_irrelevant :
  forall D M L, closed_defs D -> tables_ok D L M ->
  forall (s_mod s75 : bool) (k : nat) e e3,
    lift_spec L (stage2 D (stage1 M s_mod e)) e3 ->
    let p := stage5 D k (stage4 D s75 (e3, L)) in
    forall n G G' ρ ρ' r G1,
      GX D (snd p) M G G' -> erel D (snd p) M ρ ρ' ->
      eval (xprot D M) n G ρ e = Some (r, G1) -> r <> Viol ->
      exists r' G1', eval [] n G' ρ' (fst p) = Some (r', G1') /\
                     rrel D (snd p) M r r' /\ GX D (snd p) M G1 G1').
Check (C02_lift_spec_identity :
  forall e, lift_spec [] e e).
Check (C02_config_nonvacuous :
  closed_defs nv_D /\ tables_ok nv_D nv_L nv_M /\
  lift_spec nv_L (stage2 nv_D (stage1 nv_M true nv_e)) nv_e3 /\
  GX nv_D (snd (stage5 nv_D 8 (stage4 nv_D true (nv_e3, nv_L)))) nv_M nv_G nv_G' /\
  fst_opt (eval (xprot nv_D nv_M) 30 nv_G [] nv_e) = Some (Val (VNum 12)) /\
  fst_opt (eval [] 30 nv_G' [] (fst (stage5 nv_D 8 (stage4 nv_D true (nv_e3, nv_L))))) = Some (Val (VNum 12))).
Print Assumptions C02_inline_preserves.
Print Assumptions C02_inline_unsound_if_assigned.
Print Assumptions C02_nonvacuous.
Print Assumptions C02_rewrites_preserve.
Print Assumptions C02_lift_preserves.
Print Assumptions C02_lift_unsound_if_captures.
Print Assumptions C02_module_inline_preserves.
Print Assumptions C02_module_inline_unsound_if_original_assigned.
Print Assumptions C02_inline_commutes_with_mangling.
Print Assumptions C02_config_irrelevant.
Print Assumptions C02_lift_spec_identity.
Print Assumptions C02_config_nonvacuous.
