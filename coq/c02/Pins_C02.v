From Coq Require Import ZArith List Bool String.
From SV Require Import c02.Model_C02 c02.Proofs_C02 c02.Properties_C02.
Import ListNotations.
Open Scope string_scope.

Check (C02_inline_preserves :
  forall (D : defs), closed_defs D ->
  forall k n G G' ρ ρ' e r G1,
    Gok D G G' -> erel D ρ ρ' ->
    eval (prot D) n G ρ e = Some (r, G1) -> r <> Viol ->
    exists r' G1', eval [] n G' ρ' (inline_rec k D (inline D e)) = Some (r', G1') /\
                   rrel D r r' /\ Gok D G1 G1').
Check (C02_inline_unsound_if_assigned :
  fst_opt (eval [] 20 (wit_G (Call (Glob "f") ENil)) [] wit_prog) = Some (Val (VNum 2)) /\
  fst_opt (eval [] 20 (wit_G (inline wit_D (Call (Glob "f") ENil))) [] wit_prog) = Some (Val (VNum 1)) /\
  fst_opt (eval (map fst wit_D) 20 (wit_G (Call (Glob "f") ENil)) [] wit_prog) = Some Viol).
Check (C02_nonvacuous :
  closed_defs wit_D /\
  Gok wit_D (wit_G (Call (Glob "f") ENil)) (wit_G (Call (Glob "f") ENil)) /\
  fst_opt (eval (prot wit_D) 20 (wit_G (Call (Glob "f") ENil)) [] (Add (Call (Glob "g") ENil) (Num 41)))
    = Some (Val (VNum 42))).
Print Assumptions C02_inline_preserves.
Print Assumptions C02_inline_unsound_if_assigned.
Print Assumptions C02_nonvacuous.
