(* C02 — the other optional AST passes, on the core language of Model_C02.v:

   (1) LIFTING of closed lambdas to fresh global definitions
       (compiler/passes/analysis.rs LiftPureFunctionsToGlobalScope::visit, L4255-4330: bottom-up, a lambda whose
       FunctionInformation has no captured variables — and that is not itself a top-level definition, depth <> 1 —
       is replaced by a reference to a new global `##__lifted_pure_function<syntax-object-id>` bound to it;
       lift_pure_local_functions / lift_all_local_functions, compiler.rs L1252-1253).
       The switchable pass `lift_closures` (STEEL_CLOSURE_LIFTING, LiftClosuresToGlobalScope, L3718-4064: capture-
       parameterised lifting of boxed local recursive functions) never rewrites anything in this tree: its escape check
       CheckIdentifierOnlyOccursInUnboxCallPosition::check_let visits the (#%set-box! f tmp) form that defines the
       candidate and flags `f` as escaping (visit_atom), so perform_closure_lifting always returns early; 3849
       generated forms dump identically with the switch on and off.  Its meaning is the identity.
   (2) CROSS-MODULE "INLINING" (inline_idents_across_module_boundaries, L5581-5700, STEEL_MODULE_INLINE=1): every
       occurrence of a module-local alias a (defined as (%proto-hash-get% module 'x), not assigned) is replaced by the
       exporting module's own global o.  It is a renaming of global references, sound as long as a and o hold the same
       value, i.e. as long as neither is assigned afterwards — the implementation checks this for a only.
   (3) the pipeline of compiler.rs L1333-1400: module inline -> inline -> lift -> inline(75) -> recursive inline(8),
       every stage optional.

   One code relation [xrel], closed under all these rewrites, one value relation, one simulation. *)
From Coq Require Import ZArith List Bool String Lia.
From SV Require Import c02.Model_C02 c02.Proofs_C02.
Import ListNotations.
Open Scope string_scope.

Definition ldefs := list (string * (list string * exp)).   (* lifted definitions: fresh global -> (params, body) *)
Definition amap := list (string * string).                  (* alias -> original global *)

(* ------------------------------------------------------------------ the passes *)
Section Alias.
  Variable M : amap.
  (* FlattenModuleReferences::visit_atom: every identifier occurrence that is a key of the mapping is replaced *)
  Fixpoint alias_subst (e : exp) : exp :=
    match e with
    | Num _ | Bool_ _ | Loc _ => e
    | Glob g => match lookup g M with Some o => Glob o | None => Glob g end
    | Lam xs b => Lam xs (alias_subst b)
    | Call f args => Call (alias_subst f) (alias_substs args)
    | If c t e' => If (alias_subst c) (alias_subst t) (alias_subst e')
    | Let x e1 e2 => Let x (alias_subst e1) (alias_subst e2)
    | Add a b => Add (alias_subst a) (alias_subst b)
    | SetG g e' => SetG g (alias_subst e')       (* aliases with set_bang are not in the mapping *)
    end
  with alias_substs (l : exps) : exps :=
    match l with
    | ENil => ENil
    | ECons a r => ECons (alias_subst a) (alias_substs r)
    end.
End Alias.

(* global names an expression mentions *)
Fixpoint gnames (e : exp) : list string :=
  match e with
  | Num _ | Bool_ _ | Loc _ => []
  | Glob g => [g]
  | Lam _ b => gnames b
  | Call f args => (gnames f ++ gnamess args)%list
  | If c t e' => (gnames c ++ gnames t ++ gnames e')%list
  | Let _ e1 e2 => (gnames e1 ++ gnames e2)%list
  | Add a b => (gnames a ++ gnames b)%list
  | SetG g e' => g :: gnames e'
  end
with gnamess (l : exps) : list string :=
  match l with
  | ENil => []
  | ECons a r => (gnames a ++ gnamess r)%list
  end.

Definition map_bodies (f : exp -> exp) (L : ldefs) : ldefs :=
  map (fun p => (fst p, (fst (snd p), f (snd (snd p))))) L.

Lemma lookup_map_bodies f L g :
  lookup g (map_bodies f L) = match lookup g L with Some (xs, b) => Some (xs, f b) | None => None end.
Proof.
  induction L as [|[y [xs b]] r IH]; cbn [map_bodies map lookup fst snd]; auto.
  destruct (String.eqb g y); auto.
Qed.

(* ------------------------------------------------------------------ one code relation for all rewrites *)
Section X.
  Variable D : defs.      (* inlinable source globals: g -> (params, body), each bound to the closed closure *)
  Variable L : ldefs.     (* globals created by lifting (exist in the target only) *)
  Variable M : amap.      (* alias -> original *)

  Inductive xrel : exp -> exp -> Prop :=
  | XR_Num z : xrel (Num z) (Num z)
  | XR_Bool b : xrel (Bool_ b) (Bool_ b)
  | XR_Loc x : xrel (Loc x) (Loc x)
  | XR_Glob g : lookup g L = None -> xrel (Glob g) (Glob g)
  | XR_Alias a o : lookup a M = Some o -> lookup o L = None -> xrel (Glob a) (Glob o)
  | XR_Lam xs b b' : xrel b b' -> xrel (Lam xs b) (Lam xs b')
  | XR_Lift xs b g b1 :
      lookup g L = Some (xs, b1) -> xrel b b1 -> fv (Lam xs b) = [] -> xrel (Lam xs b) (Glob g)
  | XR_Call f f' a a' : xrel f f' -> xrels a a' -> xrel (Call f a) (Call f' a')
  | XR_Inl g xs b0 b0' a a' :
      lookup g D = Some (xs, b0) -> xrel b0 b0' -> xrels a a' ->
      xrel (Call (Glob g) a) (Call (Lam xs b0') a')
  | XR_InlLift g xs b0 gl b1 a a' :      (* the inlined literal was lifted afterwards *)
      lookup g D = Some (xs, b0) -> lookup gl L = Some (xs, b1) -> xrel b0 b1 -> xrels a a' ->
      xrel (Call (Glob g) a) (Call (Glob gl) a')
  | XR_If c c' t t' e e' : xrel c c' -> xrel t t' -> xrel e e' -> xrel (If c t e) (If c' t' e')
  | XR_Let x a a' b b' : xrel a a' -> xrel b b' -> xrel (Let x a b) (Let x a' b')
  | XR_Add a a' b b' : xrel a a' -> xrel b b' -> xrel (Add a b) (Add a' b')
  | XR_SetG g e e' : lookup g L = None -> xrel e e' -> xrel (SetG g e) (SetG g e')
  with xrels : exps -> exps -> Prop :=
  | XRS_Nil : xrels ENil ENil
  | XRS_Cons e e' r r' : xrel e e' -> xrels r r' -> xrels (ECons e r) (ECons e' r').

  Scheme xrel_mut := Induction for xrel Sort Prop
    with xrels_mut := Induction for xrels Sort Prop.
  Combined Scheme xrel_xrels_ind from xrel_mut, xrels_mut.

  (* source code that mentions no lifted name is related to itself *)
  Definition fresh_for (e : exp) : Prop := Forall (fun g => lookup g L = None) (gnames e).
  Definition fresh_fors (l : exps) : Prop := Forall (fun g => lookup g L = None) (gnamess l).

  Lemma xrel_refl_both :
    (forall e, fresh_for e -> xrel e e) /\ (forall l, fresh_fors l -> xrels l l).
  Proof.
    apply exp_exps_ind; unfold fresh_for, fresh_fors; cbn [gnames gnamess]; intros;
      repeat match goal with
             | H : Forall _ (_ ++ _) |- _ => apply Forall_app in H; destruct H
             | H : Forall _ (_ :: _) |- _ => inversion H; subst; clear H
             end; constructor; auto.
  Qed.
  Definition xrel_refl := proj1 xrel_refl_both.

  (* ---------------------------------------------------------------- values *)
  Inductive vrel : val -> val -> Prop :=
  | VR_Num z : vrel (VNum z) (VNum z)
  | VR_Bool b : vrel (VBool b) (VBool b)
  | VR_Clo xs b b' ρ ρ' : xrel b b' -> erel ρ ρ' -> vrel (VClo xs b ρ) (VClo xs b' ρ')
  with erel : env -> env -> Prop :=
  | ER_nil : erel [] []
  | ER_cons x v v' ρ ρ' : vrel v v' -> erel ρ ρ' -> erel ((x, v) :: ρ) ((x, v') :: ρ').

  Inductive rrel : res -> res -> Prop :=
  | RR_Val v v' : vrel v v' -> rrel (Val v) (Val v')
  | RR_Err : rrel Err Err.

  Definition orel (a b : option val) : Prop :=
    match a, b with
    | Some v, Some v' => vrel v v'
    | None, None => True
    | _, _ => False
    end.

  Lemma erel_lookup ρ ρ' x : erel ρ ρ' -> orel (lookup x ρ) (lookup x ρ').
  Proof.
    induction 1 as [|y v v' ρ ρ' Hv Hr IH]; cbn [lookup orel]; auto.
    destruct (String.eqb x y); auto.
  Qed.

  Lemma erel_restrict ρ ρ' keep : erel ρ ρ' -> erel (restrict ρ keep) (restrict ρ' keep).
  Proof.
    induction 1 as [|y w w' ρ ρ' Hw Hr IH]; cbn [restrict filter]; [constructor|].
    cbn [fst]. destruct (mem y keep); [constructor|]; auto.
  Qed.

  Lemma erel_bind xs : forall vs vs' ρ ρ',
    Forall2 vrel vs vs' -> erel ρ ρ' ->
    match bind_params xs vs ρ, bind_params xs vs' ρ' with
    | Some a, Some b => erel a b
    | None, None => True
    | _, _ => False
    end.
  Proof.
    induction xs as [|x xs IH]; intros vs vs' ρ ρ' HF HR; inversion HF; subst; cbn [bind_params]; auto.
    apply IH; auto. constructor; auto.
  Qed.

  Lemma vrel_truthy v v' : vrel v v' -> truthy v = truthy v'.
  Proof. destruct 1; reflexivity. Qed.

  (* ---------------------------------------------------------------- side conditions on the tables *)
  Hypothesis Hclosed : closed_defs D.

  Lemma xrel_fv_both :
    (forall e e', xrel e e' -> fv e' = fv e) /\ (forall l l', xrels l l' -> fvs l' = fvs l).
  Proof.
    apply xrel_xrels_ind; intros; cbn [fv fvs]; try congruence.
    - (* XR_Lift *)
      match goal with E : fv (Lam _ _) = [] |- _ => cbn [fv] in E; symmetry; exact E end.
    - (* XR_Inl *)
      match goal with
      | E : lookup _ D = Some (?xs0, ?b00), Hb : fv ?b1 = fv ?b00, Ha : fvs _ = fvs _ |- _ =>
          rewrite Ha; cbn [app]; pose proof (Hclosed _ _ _ E) as C; cbn [fv] in C;
          rewrite Hb, C; reflexivity
      end.
  Qed.
  Definition xrel_fv := proj1 xrel_fv_both.

  Lemma restrict_nil ρ : restrict ρ [] = [].
  Proof. induction ρ as [|[y v] ρ IH]; cbn [restrict filter fst mem existsb]; auto. Qed.

  (* names the source evaluation must not assign: inlined definitions, aliases and their originals *)
  Definition xprot : list string := (map fst D ++ map fst M ++ map snd M)%list.

  Lemma mem_false_in g l : mem g l = false -> ~ In g l.
  Proof.
    unfold mem. induction l as [|y r IH]; cbn [existsb In]; [tauto|].
    intros H. apply orb_false_iff in H. destruct H as [H1 H2]. intros [E | E].
    - subst y. rewrite String.eqb_refl in H1. discriminate H1.
    - exact (IH H2 E).
  Qed.

  Lemma lookup_in_fst {A} g (l : list (string * A)) a : lookup g l = Some a -> In g (map fst l).
  Proof.
    induction l as [|[y p] r IH]; cbn [lookup map fst In]; [discriminate|].
    destruct (String.eqb g y) eqn:E; [apply String.eqb_eq in E; auto | auto].
  Qed.

  Lemma lookup_in_snd g (l : amap) o : lookup g l = Some o -> In o (map snd l).
  Proof.
    induction l as [|[y p] r IH]; cbn [lookup map snd In]; [discriminate|].
    destruct (String.eqb g y); [intros H; inversion H; auto | auto].
  Qed.

  (* the global states: pointwise related outside the lifted names; lifted names hold their closures in the target;
     inlinable names hold the closures of their definitions in the source; an alias and its original hold the same
     value in the source *)
  Record GX (G G' : env) : Prop := mkGX {
    gx_point : forall g, lookup g L = None -> orel (lookup g G) (lookup g G');
    gx_lift : forall g xs b1, lookup g L = Some (xs, b1) -> lookup g G' = Some (VClo xs b1 []);
    gx_defs : forall g xs b0, lookup g D = Some (xs, b0) -> lookup g G = Some (VClo xs b0 []);
    gx_alias : forall a o, lookup a M = Some o -> lookup a G = lookup o G
  }.

  Lemma lookup_update_same g v (G : env) :
    lookup g (update g v G) = match lookup g G with Some _ => Some v | None => None end.
  Proof.
    induction G as [|[y w] r IH]; cbn [update lookup]; auto.
    destruct (String.eqb g y) eqn:E; cbn [lookup]; rewrite E; auto.
  Qed.

  Lemma lookup_update_neq g g' v (G : env) : g' <> g -> lookup g' (update g v G) = lookup g' G.
  Proof.
    intros H. apply lookup_update_other. destruct (String.eqb g' g) eqn:E; auto.
    apply String.eqb_eq in E. contradiction.
  Qed.

  Lemma GX_update G G' g v v' old old' :
    GX G G' -> vrel v v' -> mem g xprot = false -> lookup g L = None ->
    lookup g G = Some old -> lookup g G' = Some old' ->
    GX (update g v G) (update g v' G').
  Proof.
    intros [H1 H2 H3 H4] Hv Hm HL Ho Ho'. apply mem_false_in in Hm. unfold xprot in Hm.
    rewrite !in_app_iff in Hm.
    constructor.
    - intros g0 Hg0. destruct (String.eqb g0 g) eqn:E.
      + apply String.eqb_eq in E. subst g0. rewrite !lookup_update_same, Ho, Ho'. exact Hv.
      + assert (g0 <> g) by (intros ->; rewrite String.eqb_refl in E; discriminate).
        rewrite !lookup_update_neq by auto. auto.
    - intros g0 xs b1 Hg0. rewrite lookup_update_neq; [eauto|]. intros ->. congruence.
    - intros g0 xs b0 Hg0. rewrite lookup_update_neq; [eauto|]. intros ->.
      apply Hm. left. eapply lookup_in_fst; eauto.
    - intros a o Ha.
      rewrite !lookup_update_neq; [eauto | |].
      + intros ->. apply Hm. right. right. eapply lookup_in_snd; eauto.
      + intros ->. apply Hm. right. left. eapply lookup_in_fst; eauto.
  Qed.

  (* ---------------------------------------------------------------- the simulation *)
  Definition P_eval (n : nat) : Prop :=
    forall G G' ρ ρ' e e' r G1,
      GX G G' -> erel ρ ρ' -> xrel e e' ->
      eval xprot n G ρ e = Some (r, G1) -> r <> Viol ->
      exists r' G1', eval [] n G' ρ' e' = Some (r', G1') /\ rrel r r' /\ GX G1 G1'.

  Inductive rsrel : res + list val -> res + list val -> Prop :=
  | RS_res r r' : rrel r r' -> rsrel (inl r) (inl r')
  | RS_vals vs vs' : Forall2 vrel vs vs' -> rsrel (inr vs) (inr vs').

  Definition P_evals (n : nat) : Prop :=
    forall G G' ρ ρ' l l' r G1,
      GX G G' -> erel ρ ρ' -> xrels l l' ->
      evals xprot n G ρ l = Some (r, G1) -> r <> inl Viol ->
      exists r' G1', evals [] n G' ρ' l' = Some (r', G1') /\ rsrel r r' /\ GX G1 G1'.

  Ltac inv H := inversion H; subst; clear H.
  Ltac done_with t := do 2 eexists; split; [reflexivity|]; split; [t | auto].

  Lemma call_tail n' (IHe : P_eval n') :
    forall G2 G2' xs b b' ρc ρc' vs vs' r G3,
      GX G2 G2' -> xrel b b' -> erel ρc ρc' -> Forall2 vrel vs vs' ->
      match bind_params xs vs ρc with
      | Some ρ' => eval xprot n' G2 ρ' b
      | None => Some (Err, G2)
      end = Some (r, G3) -> r <> Viol ->
      exists r' G3',
        match bind_params xs vs' ρc' with
        | Some ρ' => eval [] n' G2' ρ' b'
        | None => Some (Err, G2')
        end = Some (r', G3') /\ rrel r r' /\ GX G3 G3'.
  Proof.
    intros G2 G2' xs b b' ρc ρc' vs vs' r G3 HG Hb Hρ Hvs H Hr.
    pose proof (erel_bind xs vs vs' ρc ρc' Hvs Hρ) as HB.
    destruct (bind_params xs vs ρc) as [ρn|], (bind_params xs vs' ρc') as [ρn'|]; try contradiction.
    - eapply IHe; eauto.
    - inv H. done_with ltac:(constructor).
  Qed.

  (* operands of a call, both sides *)
  Ltac operands IHs HG Hρ H n' G ρ a :=
    match goal with Ha : xrels a _ |- _ =>
    let rs := fresh "rs" in let G1a := fresh "G1a" in let Ea := fresh "Ea" in
    destruct (evals xprot n' G ρ a) as [[rs G1a]|] eqn:Ea; [|discriminate H];
    let Hrs := fresh "Hrs" in
    assert (Hrs : rs <> inl Viol) by (intros ->; inv H; congruence);
    let rs' := fresh "rs'" in let G1a' := fresh "G1a'" in let Ea' := fresh "Ea'" in
    let Rrs := fresh "Rrs" in let HG1 := fresh "HG1" in
    destruct (IHs _ _ _ _ _ _ _ _ HG Hρ Ha Ea Hrs) as [rs' [G1a' [Ea' [Rrs HG1]]]];
    rewrite Ea'; inv Rrs; [inv H; done_with ltac:(auto) |] end.

  Lemma sim : forall n, P_eval n /\ P_evals n.
  Proof.
    induction n as [|n' [IHe IHs]];
      [split; intros ? ? ? ? ? ? ? ? ? ? ? H; rewrite ?eval_O, ?evals_O in H; discriminate H|].
    split.
    - intros G G' ρ ρ' e e' r G1 HG Hρ Hi H Hr.
      destruct Hi; autorewrite with evaldb in H |- *.
      + inv H. done_with ltac:(constructor; constructor).
      + inv H. done_with ltac:(constructor; constructor).
      + (* Loc *)
        pose proof (erel_lookup ρ ρ' x Hρ) as Lk. unfold orel in Lk.
        destruct (lookup x ρ), (lookup x ρ'); try contradiction; inv H; done_with ltac:(constructor; auto).
      + (* Glob *)
        match goal with HL : lookup g L = None |- _ => pose proof (gx_point _ _ HG g HL) as Lk end. unfold orel in Lk.
        destruct (lookup g G), (lookup g G'); try contradiction; inv H; done_with ltac:(constructor; auto).
      + (* Alias: the source reads a, the target reads o *)
        match goal with HA : lookup a M = Some o |- _ => rewrite (gx_alias _ _ HG _ _ HA) in H end.
        match goal with HL : lookup o L = None |- _ => pose proof (gx_point _ _ HG o HL) as Lk end. unfold orel in Lk.
        destruct (lookup o G), (lookup o G'); try contradiction; inv H; done_with ltac:(constructor; auto).
      + (* Lam *)
        inv H. do 2 eexists. split; [reflexivity|]. split; [|auto].
        constructor.
        assert (F : fv (Lam xs b') = fv (Lam xs b)) by (apply xrel_fv; constructor; auto).
        rewrite F. constructor; auto. apply erel_restrict; auto.
      + (* Lift: the source builds the closed closure, the target reads the lifted global *)
        inv H.
        match goal with
        | HL : lookup ?g0 L = Some (_, _), HF : fv (Lam _ _) = [] |- _ =>
            cbn [fv] in HF; cbn [fv]; rewrite HF, restrict_nil; rewrite (gx_lift _ _ HG _ _ _ HL)
        end.
        done_with ltac:(constructor; constructor; [auto | constructor]).
      + (* Call, congruence *)
        operands IHs HG Hρ H n' G ρ a.
        destruct (eval xprot n' G1a ρ f) as [[rf G2]|] eqn:Ef; [|discriminate H].
        assert (Hrf : rf <> Viol) by (intros ->; inv H; congruence).
        destruct (IHe _ _ _ _ _ _ _ _ HG1 Hρ Hi Ef Hrf) as [rf' [G2' [Ef' [Rf HG2]]]].
        rewrite Ef'. inv Rf.
        * match goal with X : vrel _ _ |- _ => inv X end.
          -- inv H. done_with ltac:(constructor).
          -- inv H. done_with ltac:(constructor).
          -- eapply call_tail; eauto.
        * inv H. done_with ltac:(constructor).
      + (* Call of an inlinable global replaced by the lambda literal *)
        operands IHs HG Hρ H n' G ρ a.
        destruct n' as [|n'']; [rewrite eval_O in H; discriminate H|].
        assert (Es : eval xprot (S n'') G1a ρ (Glob g) = Some (Val (VClo xs b0 []), G1a)).
        { rewrite eval_Glob.
          match goal with HD : lookup g D = Some _ |- _ => rewrite (gx_defs _ _ HG1 _ _ _ HD) end. reflexivity. }
        rewrite Es in H.
        assert (Et : eval [] (S n'') G1a' ρ' (Lam xs b0') = Some (Val (VClo xs b0' []), G1a')).
        { rewrite eval_Lam.
          assert (F : fv (Lam xs b0') = fv (Lam xs b0)) by (apply xrel_fv; constructor; auto).
          match goal with HD : lookup g D = Some _ |- _ => rewrite F, (Hclosed _ _ _ HD), restrict_nil end. reflexivity. }
        rewrite Et.
        eapply call_tail; eauto. constructor.
      + (* ... and that literal lifted afterwards *)
        operands IHs HG Hρ H n' G ρ a.
        destruct n' as [|n'']; [rewrite eval_O in H; discriminate H|].
        assert (Es : eval xprot (S n'') G1a ρ (Glob g) = Some (Val (VClo xs b0 []), G1a)).
        { rewrite eval_Glob.
          match goal with HD : lookup g D = Some _ |- _ => rewrite (gx_defs _ _ HG1 _ _ _ HD) end. reflexivity. }
        rewrite Es in H.
        assert (Et : eval [] (S n'') G1a' ρ' (Glob gl) = Some (Val (VClo xs b1 []), G1a')).
        { rewrite eval_Glob.
          match goal with HL : lookup gl L = Some _ |- _ => rewrite (gx_lift _ _ HG1 _ _ _ HL) end. reflexivity. }
        rewrite Et.
        eapply call_tail; eauto. constructor.
      + (* If *)
        destruct (eval xprot n' G ρ c) as [[rc G1c]|] eqn:Ec; [|discriminate H].
        assert (Hrc : rc <> Viol) by (intros ->; inv H; congruence).
        destruct (IHe _ _ _ _ _ _ _ _ HG Hρ Hi1 Ec Hrc) as [rc' [G1c' [Ec' [Rc HG1]]]].
        rewrite Ec'. inv Rc.
        * match goal with X : vrel _ _ |- _ => rewrite <- (vrel_truthy _ _ X) end.
          destruct (truthy v); eapply IHe; eauto.
        * inv H. done_with ltac:(constructor).
      + (* Let *)
        destruct (eval xprot n' G ρ a) as [[ra G1a]|] eqn:Ea; [|discriminate H].
        assert (Hra : ra <> Viol) by (intros ->; inv H; congruence).
        destruct (IHe _ _ _ _ _ _ _ _ HG Hρ Hi1 Ea Hra) as [ra' [G1a' [Ea' [Ra HG1]]]].
        rewrite Ea'. inv Ra.
        * eapply IHe; eauto. constructor; auto.
        * inv H. done_with ltac:(constructor).
      + (* Add *)
        destruct (eval xprot n' G ρ a) as [[ra G1a]|] eqn:Ea; [|discriminate H].
        assert (Hra : ra <> Viol) by (intros ->; inv H; congruence).
        destruct (IHe _ _ _ _ _ _ _ _ HG Hρ Hi1 Ea Hra) as [ra' [G1a' [Ea' [Ra HG1]]]].
        rewrite Ea'. inv Ra.
        * destruct (eval xprot n' G1a ρ b) as [[rb G2]|] eqn:Eb; [|discriminate H].
          assert (Hrb : rb <> Viol) by (intros ->; inv H; congruence).
          destruct (IHe _ _ _ _ _ _ _ _ HG1 Hρ Hi2 Eb Hrb) as [rb' [G2' [Eb' [Rb HG2]]]].
          rewrite Eb'. inv Rb.
          -- repeat match goal with X : vrel _ _ |- _ => inv X end; inv H;
               done_with ltac:(repeat constructor).
          -- inv H. done_with ltac:(constructor).
        * inv H. done_with ltac:(constructor).
      + (* SetG *)
        destruct (eval xprot n' G ρ e) as [[re G1e]|] eqn:Ee; [|discriminate H].
        assert (Hre : re <> Viol) by (intros ->; inv H; congruence).
        destruct (IHe _ _ _ _ _ _ _ _ HG Hρ Hi Ee Hre) as [re' [G1e' [Ee' [Re HG1]]]].
        rewrite Ee'. inv Re.
        * destruct (mem g xprot) eqn:Em; [inv H; congruence|].
          cbn [mem existsb].
          match goal with HL : lookup g L = None |- _ => pose proof (gx_point _ _ HG1 g HL) as Lk end. unfold orel in Lk.
          destruct (lookup g G1e) eqn:E1, (lookup g G1e') eqn:E2; try contradiction; inv H.
          -- do 2 eexists. split; [reflexivity|]. split; [constructor; auto|].
             eapply GX_update; eauto.
          -- done_with ltac:(constructor).
        * inv H. done_with ltac:(constructor).
    - intros G G' ρ ρ' l l' r G1 HG Hρ Hi H Hr.
      destruct Hi; autorewrite with evaldb in H |- *.
      + inv H. done_with ltac:(constructor; constructor).
      + destruct (eval xprot n' G ρ e) as [[ra G1a]|] eqn:Ea; [|discriminate H].
        assert (Hra : ra <> Viol) by (intros ->; inv H; congruence).
        destruct (IHe _ _ _ _ _ _ _ _ HG Hρ H0 Ea Hra) as [ra' [G1a' [Ea' [Ra HG1]]]].
        rewrite Ea'. inv Ra.
        * destruct (evals xprot n' G1a ρ r0) as [[rs G2]|] eqn:Es; [|discriminate H].
          assert (Hrs : rs <> inl Viol) by (intros ->; inv H; congruence).
          destruct (IHs _ _ _ _ _ _ _ _ HG1 Hρ Hi Es Hrs) as [rs' [G2' [Es' [Rs HG2]]]].
          rewrite Es'. inv Rs.
          -- inv H. done_with ltac:(constructor; auto).
          -- inv H. done_with ltac:(constructor; constructor; auto).
        * inv H. done_with ltac:(constructor; constructor).
  Qed.

  Theorem xrel_preserves : forall n G G' ρ ρ' e e' r G1,
    GX G G' -> erel ρ ρ' -> xrel e e' ->
    eval xprot n G ρ e = Some (r, G1) -> r <> Viol ->
    exists r' G1', eval [] n G' ρ' e' = Some (r', G1') /\ rrel r r' /\ GX G1 G1'.
  Proof. intros. eapply (proj1 (sim n)); eauto. Qed.
End X.

(* ================================================================== the passes produce related code *)
Lemma lookup_none_map_bodies f L g : lookup g L = None -> lookup g (map_bodies f L) = None.
Proof. intros H. rewrite lookup_map_bodies, H. reflexivity. Qed.

Lemma lookup_some_map_bodies f L g xs b :
  lookup g L = Some (xs, b) -> lookup g (map_bodies f L) = Some (xs, f b).
Proof. intros H. rewrite lookup_map_bodies, H. reflexivity. Qed.

(* (2) module "inlining": alias substitution, before anything has been lifted *)
Lemma alias_xrel_both D M :
  (forall e, xrel D [] M e (alias_subst M e)) /\ (forall l, xrels D [] M l (alias_substs M l)).
Proof.
  apply exp_exps_ind; intros; cbn [alias_subst alias_substs]; try (constructor; auto; fail).
  destruct (lookup g M) eqn:E; [eapply XR_Alias; eauto | constructor; auto].
Qed.

(* side conditions relating the tables *)
Record tables_ok (D : defs) (L : ldefs) (M : amap) : Prop := mkTok {
  (* the bodies that get inlined mention no lifted name (lifted names are fresh) *)
  tok_fresh : forall g xs b0, lookup g D = Some (xs, b0) -> fresh_for L b0;
  (* no inlinable global is a lifted name *)
  tok_disj : forall g d, lookup g D = Some d -> lookup g L = None;
  (* an alias of an inlinable global is inlinable with the same definition (it holds the same closure) *)
  tok_alias : forall a o d, lookup a M = Some o -> lookup o D = Some d -> lookup a D = Some d
}.

Lemma tables_ok_map_bodies f D L M : tables_ok D L M -> tables_ok D (map_bodies f L) M.
Proof.
  intros [H1 H2 H3]. constructor; auto.
  - intros g xs b0 Hg. specialize (H1 g xs b0 Hg). unfold fresh_for in *.
    eapply Forall_impl; [|exact H1]. intros h Hh. apply lookup_none_map_bodies. exact Hh.
  - intros g d Hg. apply lookup_none_map_bodies. eauto.
Qed.

(* a round of call inlining applied to code that is already related to the source — the lifted definitions are
   top-level definitions of the target program and go through the round as well — stays related to the SOURCE *)
Lemma inline_after_both D L M (Hok : tables_ok D L M) :
  let L' := map_bodies (inline D) L in
  (forall e e', xrel D L M e e' -> xrel D L' M e (inline D e') /\ xrel D L' M e e') /\
  (forall l l', xrels D L M l l' -> xrels D L' M l (inlines D l') /\ xrels D L' M l l').
Proof.
  intros L'.
  pose proof (tables_ok_map_bodies (inline D) D L M Hok) as Hok'. fold L' in Hok'.
  apply xrel_xrels_ind; intros; cbn [inline inlines];
    repeat match goal with H : _ /\ _ |- _ => destruct H end.
  - split; constructor.
  - split; constructor.
  - split; constructor.
  - split; constructor; apply lookup_none_map_bodies; auto.
  - split; eapply XR_Alias; eauto; apply lookup_none_map_bodies; auto.
  - split; constructor; auto.
  - (* XR_Lift *)
    split; (eapply XR_Lift; [apply lookup_some_map_bodies; eassumption | assumption | assumption]).
  - (* XR_Call *)
    split; [| constructor; auto].
    destruct f'; try (constructor; auto; fail).
    destruct (lookup g D) as [[xs0 b0]|] eqn:E; [| constructor; auto].
    (* the operator of the target is a global with an inlinable definition: what was the source operator? *)
    inversion x; subst.
    + eapply XR_Inl; [eassumption | apply xrel_refl; eapply tok_fresh; eauto | auto].
    + eapply XR_Inl; [eapply tok_alias; eauto | apply xrel_refl; eapply tok_fresh; eauto | auto].
    + (* a lifted name is never inlinable *)
      match goal with HL : lookup g L = Some _ |- _ => rewrite (tok_disj _ _ _ Hok _ _ E) in HL; discriminate HL end.
  - (* XR_Inl: the operator is already a lambda literal: the round goes inside *)
    split; eapply XR_Inl; eauto.
  - (* XR_InlLift: the operator is a lifted global: never inlinable *)
    assert (lookup gl D = None) as ->.
    { destruct (lookup gl D) eqn:E; auto.
      match goal with HL : lookup gl L = Some _ |- _ => rewrite (tok_disj _ _ _ Hok _ _ E) in HL; discriminate HL end. }
    split; (eapply XR_InlLift; [eassumption | apply lookup_some_map_bodies; eassumption | assumption | assumption]).
  - split; constructor; auto.
  - split; constructor; auto.
  - split; constructor; auto.
  - split; constructor; auto; apply lookup_none_map_bodies; auto.
  - split; constructor.
  - split; constructor; auto.
Qed.

Lemma inline_after D L M e e' : tables_ok D L M ->
  xrel D L M e e' -> xrel D (map_bodies (inline D) L) M e (inline D e').
Proof. intros Hok H. exact (proj1 (proj1 (inline_after_both D L M Hok) e e' H)). Qed.

Lemma map_bodies_comp f g L : map_bodies g (map_bodies f L) = map_bodies (fun b => g (f b)) L.
Proof.
  unfold map_bodies. rewrite map_map. apply map_ext. intros [y [xs b]]. reflexivity.
Qed.

Lemma inline_rec_after k : forall D L M e e', tables_ok D L M ->
  xrel D L M e e' -> xrel D (map_bodies (inline_rec k D) L) M e (inline_rec k D e').
Proof.
  induction k as [|k IH]; intros D L M e e' Hok H.
  - assert (E : map_bodies (inline_rec 0 D) L = L).
    { unfold map_bodies. rewrite <- (map_id L) at 2. apply map_ext. intros [y [xs b]]. reflexivity. }
    rewrite E. exact H.
  - assert (E : map_bodies (inline_rec (S k) D) L = map_bodies (inline_rec k D) (map_bodies (inline D) L)).
    { rewrite map_bodies_comp. reflexivity. }
    rewrite E. change (inline_rec (S k) D e') with (inline_rec k D (inline D e')).
    apply IH; [apply tables_ok_map_bodies; exact Hok | apply inline_after; auto].
Qed.

(* (1) lifting, as a relation between the program before and after: closed lambdas replaced by fresh globals bound
   in L; nothing else changes.  [lift_spec L e e'] holds for the output of LiftPureFunctionsToGlobalScope for every
   choice of which closed lambdas are lifted and how they are named, provided the names are fresh (XR_Glob / XR_SetG
   demand that the program itself never mentions a lifted name). *)
Definition lift_spec (L : ldefs) (e e' : exp) : Prop := xrel [] L [] e e'.

Lemma lift_after_both D L M (Hclosed : closed_defs D) :
  (forall e e', xrel D [] M e e' -> forall e'', xrel [] L [] e' e'' -> xrel D L M e e'') /\
  (forall l l', xrels D [] M l l' -> forall l'', xrels [] L [] l' l'' -> xrels D L M l l'').
Proof.
  apply xrel_xrels_ind; intros;
    match goal with H2 : xrel [] _ [] _ _ |- _ => inversion H2; subst; clear H2
                  | H2 : xrels [] _ [] _ _ |- _ => inversion H2; subst; clear H2 end;
    try (match goal with H : lookup _ [] = Some _ |- _ => cbn in H; discriminate H end);
    try (constructor; auto; fail).
  (* alias: the original is not a lifted name *)
  all: try solve [eapply XR_Alias; eauto].
  (* a lambda that was related to the source lambda is lifted *)
  (* an inlined literal: the round goes inside, or lifts it *)
  all: try solve [
    match goal with H2 : xrel [] _ [] (Lam _ _) _ |- _ => inversion H2; subst; clear H2 end;
    [ eapply XR_Inl; eauto | eapply XR_InlLift; eauto ] ].
  (* a lambda that was related to the source lambda is lifted *)
  eapply XR_Lift; [eassumption | eauto |].
  assert (F : fv (Lam xs b') = fv (Lam xs b)) by (apply (xrel_fv D [] M Hclosed); constructor; auto).
  congruence.
Qed.

Lemma lift_after D L M e e' e'' : closed_defs D ->
  xrel D [] M e e' -> lift_spec L e' e'' -> xrel D L M e e''.
Proof. intros Hc H1 H2. exact (proj1 (lift_after_both D L M Hc) e e' H1 e'' H2). Qed.

(* ================================================================== (3) the pipeline, every stage optional *)
Section Pipeline.
  Variable D : defs.
  Variable M : amap.
  (* compiler.rs L1334 module inline (switch), L1345 inline (always), L1363-1368 + L1252 lifting,
     L1376 inline(75) (switch), L1389 recursive inline, 8 rounds (switch) *)
  Definition stage1 (s_mod : bool) (e : exp) : exp := if s_mod then alias_subst M e else e.
  Definition stage2 (e : exp) : exp := inline D e.
  Definition stage4 (s75 : bool) (p : exp * ldefs) : exp * ldefs :=
    if s75 then (inline D (fst p), map_bodies (inline D) (snd p)) else p.
  Definition stage5 (k : nat) (p : exp * ldefs) : exp * ldefs :=
    (inline_rec k D (fst p), map_bodies (inline_rec k D) (snd p)).

  Lemma pipeline_xrel s_mod s75 k e e3 L :
    closed_defs D -> tables_ok D L M ->
    lift_spec L (stage2 (stage1 s_mod e)) e3 ->
    let p := stage5 k (stage4 s75 (e3, L)) in
    xrel D (snd p) M e (fst p) /\ tables_ok D (snd p) M.
  Proof.
    intros Hc Hok Hl p.
    assert (H1 : xrel D [] M e (stage1 s_mod e)).
    { unfold stage1. destruct s_mod; [apply (proj1 (alias_xrel_both D M)) |].
      apply xrel_refl. unfold fresh_for. apply Forall_forall. intros; reflexivity. }
    assert (Hok0 : tables_ok D [] M).
    { destruct Hok as [_ _ H3]. constructor; auto.
      intros g xs b0 _. unfold fresh_for. apply Forall_forall. intros; reflexivity. }
    assert (H2 : xrel D [] M e (stage2 (stage1 s_mod e))).
    { unfold stage2. exact (inline_after D [] M _ _ Hok0 H1). }
    assert (H3 : xrel D L M e e3) by (eapply lift_after; eauto).
    assert (H4 : xrel D (snd (stage4 s75 (e3, L))) M e (fst (stage4 s75 (e3, L))) /\
                 tables_ok D (snd (stage4 s75 (e3, L))) M).
    { unfold stage4. destruct s75; cbn [fst snd]; [| auto].
      split; [apply inline_after; auto | apply tables_ok_map_bodies; auto]. }
    destruct H4 as [H4 Hok4]. unfold p, stage5. cbn [fst snd].
    split; [apply inline_rec_after; auto | apply tables_ok_map_bodies; auto].
  Qed.
End Pipeline.

(* ================================================================== renaming (mangling) commutes with inlining *)
Section Rename.
  Variable φ : string -> string.
  Hypothesis φ_inj : forall a b, φ a = φ b -> a = b.

  Fixpoint ren (e : exp) : exp :=
    match e with
    | Num _ | Bool_ _ | Loc _ => e
    | Glob g => Glob (φ g)
    | Lam xs b => Lam xs (ren b)
    | Call f args => Call (ren f) (rens args)
    | If c t e' => If (ren c) (ren t) (ren e')
    | Let x e1 e2 => Let x (ren e1) (ren e2)
    | Add a b => Add (ren a) (ren b)
    | SetG g e' => SetG (φ g) (ren e')
    end
  with rens (l : exps) : exps :=
    match l with
    | ENil => ENil
    | ECons a r => ECons (ren a) (rens r)
    end.

  Definition ren_defs (D : defs) : defs := map (fun p => (φ (fst p), (fst (snd p), ren (snd (snd p))))) D.

  Lemma lookup_ren_defs D g :
    lookup (φ g) (ren_defs D) = match lookup g D with Some (xs, b) => Some (xs, ren b) | None => None end.
  Proof.
    induction D as [|[y [xs b]] r IH]; cbn [ren_defs map lookup fst snd]; auto.
    destruct (String.eqb g y) eqn:E.
    - apply String.eqb_eq in E. subst y. rewrite String.eqb_refl. reflexivity.
    - assert (String.eqb (φ g) (φ y) = false) as ->.
      { destruct (String.eqb (φ g) (φ y)) eqn:E2; auto. apply String.eqb_eq in E2. apply φ_inj in E2.
        subst y. rewrite String.eqb_refl in E. discriminate E. }
      exact IH.
  Qed.

  (* inlining the mangled definitions into the mangled program = mangling the inlined program *)
  Lemma inline_ren_both D :
    (forall e, inline (ren_defs D) (ren e) = ren (inline D e)) /\
    (forall l, inlines (ren_defs D) (rens l) = rens (inlines D l)).
  Proof.
    set (D' := ren_defs D).
    apply exp_exps_ind.
    - reflexivity.
    - reflexivity.
    - reflexivity.
    - reflexivity.
    - intros xs body IH.
      change (Lam xs (inline D' (ren body)) = Lam xs (ren (inline D body))). congruence.
    - intros f IHf args IHa.
      destruct f as [z|bb|x|g|xs0 b0|f0 a0|c t e|x e1 e2|a b|g e].
      all: try (match goal with |- inline _ (ren (Call ?f0 ?a0)) = _ =>
                  change (Call (inline D' (ren f0)) (inlines D' (rens a0)) =
                          Call (ren (inline D f0)) (rens (inlines D a0)));
                  congruence end).
      change (match lookup (φ g) D' with
              | Some (xs, b) => Call (Lam xs b) (inlines D' (rens args))
              | None => Call (Glob (φ g)) (inlines D' (rens args))
              end =
              ren (match lookup g D with
                   | Some (xs, b) => Call (Lam xs b) (inlines D args)
                   | None => Call (Glob g) (inlines D args)
                   end)).
      unfold D' at 1. rewrite lookup_ren_defs. fold D'.
      destruct (lookup g D) as [[xs b]|].
      + change (Call (Lam xs (ren b)) (inlines D' (rens args)) = Call (Lam xs (ren b)) (rens (inlines D args))). congruence.
      + change (Call (Glob (φ g)) (inlines D' (rens args)) = Call (Glob (φ g)) (rens (inlines D args))). congruence.
    - intros c IHc t IHt e IHe.
      change (If (inline D' (ren c)) (inline D' (ren t)) (inline D' (ren e)) =
              If (ren (inline D c)) (ren (inline D t)) (ren (inline D e))). congruence.
    - intros x e1 IH1 e2 IH2.
      change (Let x (inline D' (ren e1)) (inline D' (ren e2)) = Let x (ren (inline D e1)) (ren (inline D e2))). congruence.
    - intros a IHa b IHb.
      change (Add (inline D' (ren a)) (inline D' (ren b)) = Add (ren (inline D a)) (ren (inline D b))). congruence.
    - intros g e IHe.
      change (SetG (φ g) (inline D' (ren e)) = SetG (φ g) (ren (inline D e))). congruence.
    - reflexivity.
    - intros e IHe r IHr.
      change (ECons (inline D' (ren e)) (inlines D' (rens r)) = ECons (ren (inline D e)) (rens (inlines D r))). congruence.
  Qed.
End Rename.

(* ================================================================== the side conditions are needed *)
(* lifting a lambda that captures a local variable: (let ((x 1)) ((lambda () x)))  *)
Definition lw_src : exp := Let "x" (Num 1) (Call (Lam [] (Loc "x")) ENil).
Definition lw_tgt : exp := Let "x" (Num 1) (Call (Glob "##lifted") ENil).
Definition lw_G' : env := [("##lifted", VClo [] (Loc "x") [])].

Lemma lift_unsound_if_captures :
  fst_opt (eval [] 20 [] [] lw_src) = Some (Val (VNum 1)) /\
  fst_opt (eval [] 20 lw_G' [] lw_tgt) = Some Err.
Proof. split; vm_compute; reflexivity. Qed.

(* module inlining when the ORIGINAL is assigned after the alias was taken (the implementation only checks that the
   alias is not assigned): module A: (define counter 0) (define (inc!) (set! counter (+ counter 1)));
   module B: alias := A's counter; (define (get) alias).  After (inc!), (get) is 0; with the alias replaced by the
   original it is 1. *)
Definition aw_M : amap := [("B.counter", "A.counter")].
Definition aw_G : env := [("A.counter", VNum 0); ("B.counter", VNum 0)].
Definition aw_prog : exp :=
  Let "_" (SetG "A.counter" (Add (Glob "A.counter") (Num 1))) (Glob "B.counter").

Lemma alias_unsound_if_original_assigned :
  fst_opt (eval [] 20 aw_G [] aw_prog) = Some (Val (VNum 0)) /\
  fst_opt (eval [] 20 aw_G [] (alias_subst aw_M aw_prog)) = Some (Val (VNum 1)) /\
  fst_opt (eval (xprot [] aw_M) 20 aw_G [] aw_prog) = Some Viol.
Proof. repeat split; vm_compute; reflexivity. Qed.

(* ================================================================== the statements used by Properties_C02.v *)
Lemma closed_defs_nil : closed_defs [].
Proof. intros g xs b0 H. discriminate H. Qed.

Lemma lift_spec_refl_nil e : lift_spec [] e e.
Proof. apply xrel_refl. unfold fresh_for. apply Forall_forall. intros; reflexivity. Qed.

Lemma lift_preserves : forall L n G G' ρ ρ' e e' r G1,
  lift_spec L e e' -> GX [] L [] G G' -> erel [] L [] ρ ρ' ->
  eval [] n G ρ e = Some (r, G1) -> r <> Viol ->
  exists r' G1', eval [] n G' ρ' e' = Some (r', G1') /\ rrel [] L [] r r' /\ GX [] L [] G1 G1'.
Proof.
  intros L n G G' ρ ρ' e e' r G1 Hl HG Hρ H Hr.
  exact (xrel_preserves [] L [] closed_defs_nil n G G' ρ ρ' e e' r G1 HG Hρ Hl H Hr).
Qed.

Lemma tables_ok_nil D M :
  (forall a o d, lookup a M = Some o -> lookup o D = Some d -> lookup a D = Some d) -> tables_ok D [] M.
Proof.
  intros H. constructor; auto.
  intros g xs b0 _. unfold fresh_for. apply Forall_forall. intros; reflexivity.
Qed.

Lemma module_inline_preserves : forall D M, closed_defs D -> tables_ok D [] M ->
  forall k n G G' ρ ρ' e r G1,
    GX D [] M G G' -> erel D [] M ρ ρ' ->
    eval (xprot D M) n G ρ e = Some (r, G1) -> r <> Viol ->
    exists r' G1', eval [] n G' ρ' (inline_rec k D (inline D (alias_subst M e))) = Some (r', G1') /\
                   rrel D [] M r r' /\ GX D [] M G1 G1'.
Proof.
  intros D M Hc Hok k n G G' ρ ρ' e r G1 HG Hρ H Hr.
  assert (X : xrel D [] M e (inline_rec k D (inline D (alias_subst M e)))).
  { pose proof (inline_rec_after k D [] M e (inline D (alias_subst M e)) Hok) as A.
    cbn [map_bodies map] in A. apply A.
    pose proof (inline_after D [] M e (alias_subst M e) Hok (proj1 (alias_xrel_both D M) e)) as B.
    cbn [map_bodies map] in B. exact B. }
  exact (xrel_preserves D [] M Hc n G G' ρ ρ' e _ r G1 HG Hρ X H Hr).
Qed.

Lemma config_irrelevant : forall D M L, closed_defs D -> tables_ok D L M ->
  forall (s_mod s75 : bool) (k : nat) e e3,
    lift_spec L (stage2 D (stage1 M s_mod e)) e3 ->
    let p := stage5 D k (stage4 D s75 (e3, L)) in
    forall n G G' ρ ρ' r G1,
      GX D (snd p) M G G' -> erel D (snd p) M ρ ρ' ->
      eval (xprot D M) n G ρ e = Some (r, G1) -> r <> Viol ->
      exists r' G1', eval [] n G' ρ' (fst p) = Some (r', G1') /\
                     rrel D (snd p) M r r' /\ GX D (snd p) M G1 G1'.
Proof.
  intros D M L Hc Hok s_mod s75 k e e3 Hl p n G G' ρ ρ' r G1 HG Hρ H Hr.
  destruct (pipeline_xrel D M s_mod s75 k e e3 L Hc Hok Hl) as [X _]. fold p in X.
  exact (xrel_preserves D (snd p) M Hc n G G' ρ ρ' e (fst p) r G1 HG Hρ X H Hr).
Qed.

(* non-vacuity: a program with an inlinable global, an alias of it, and a closed local lambda that is lifted;
   every switch on *)
Definition nv_D : defs := [("f", (["x"], Add (Loc "x") (Num 1))); ("B.f", (["x"], Add (Loc "x") (Num 1)))].
Definition nv_M : amap := [("B.f", "f")].
Definition nv_L : ldefs := [("##lifted1", (["y"], Add (Loc "y") (Num 10)))].
Definition nv_e : exp :=
  Let "h" (Lam ["y"] (Add (Loc "y") (Num 10))) (Call (Loc "h") (ECons (Call (Glob "B.f") (ECons (Num 1) ENil)) ENil)).
Definition nv_e3 : exp :=
  Let "h" (Glob "##lifted1") (Call (Loc "h") (ECons (Call (Lam ["x"] (Add (Loc "x") (Num 1))) (ECons (Num 1) ENil)) ENil)).
Definition nv_G : env := [("f", VClo ["x"] (Add (Loc "x") (Num 1)) []); ("B.f", VClo ["x"] (Add (Loc "x") (Num 1)) [])].
Definition nv_G' : env := ("##lifted1", VClo ["y"] (Add (Loc "y") (Num 10)) []) :: nv_G.

Lemma config_nonvacuous :
  closed_defs nv_D /\ tables_ok nv_D nv_L nv_M /\
  lift_spec nv_L (stage2 nv_D (stage1 nv_M true nv_e)) nv_e3 /\
  GX nv_D (snd (stage5 nv_D 8 (stage4 nv_D true (nv_e3, nv_L)))) nv_M nv_G nv_G' /\
  fst_opt (eval (xprot nv_D nv_M) 30 nv_G [] nv_e) = Some (Val (VNum 12)) /\
  fst_opt (eval [] 30 nv_G' [] (fst (stage5 nv_D 8 (stage4 nv_D true (nv_e3, nv_L))))) = Some (Val (VNum 12)).
Proof.
  split; [|split; [|split; [|split; [|split]]]].
  - intros g xs b0 H. unfold nv_D in H. cbn [lookup] in H.
    destruct (String.eqb g "f"); [inversion H; subst; reflexivity|].
    destruct (String.eqb g "B.f"); [inversion H; subst; reflexivity | discriminate].
  - constructor.
    + intros g xs b0 H. unfold nv_D in H. cbn [lookup] in H.
      destruct (String.eqb g "f"); [inversion H; subst; repeat constructor|].
      destruct (String.eqb g "B.f"); [inversion H; subst; repeat constructor | discriminate].
    + intros g d H. unfold nv_D in H. cbn [lookup] in H. unfold nv_L. cbn [lookup].
      destruct (String.eqb g "f") eqn:E1.
      * apply String.eqb_eq in E1. subst g. reflexivity.
      * destruct (String.eqb g "B.f") eqn:E2; [|discriminate].
        apply String.eqb_eq in E2. subst g. reflexivity.
    + intros a o d Ha Ho. unfold nv_M in Ha. cbn [lookup] in Ha.
      destruct (String.eqb a "B.f") eqn:E; [|discriminate]. apply String.eqb_eq in E. subst a.
      inversion Ha; subst o. unfold nv_D in *. cbn [lookup String.eqb Ascii.eqb Bool.eqb] in *. exact Ho.
  - unfold lift_spec, nv_e3. vm_compute stage2.
    repeat (constructor || (eapply XR_Lift; [reflexivity | | reflexivity])).
  - unfold stage5, stage4. cbn [fst snd]. unfold nv_L, map_bodies. cbn [map fst snd]. constructor.
    + intros g Hg. cbn [lookup] in Hg.
      destruct (String.eqb g "##lifted1") eqn:E0; [discriminate Hg|].
      unfold nv_G', orel. unfold nv_G. cbn [lookup]. rewrite E0.
      destruct (String.eqb g "f") eqn:E1; [repeat constructor|].
      destruct (String.eqb g "B.f") eqn:E2; [repeat constructor | exact I].
    + intros g xs b1 Hg. cbn [lookup] in Hg. unfold nv_G'. cbn [lookup].
      destruct (String.eqb g "##lifted1"); [inversion Hg; subst; vm_compute; reflexivity | discriminate].
    + intros g xs b0 Hg. unfold nv_D in Hg. cbn [lookup] in Hg. unfold nv_G. cbn [lookup].
      destruct (String.eqb g "f"); [inversion Hg; subst; reflexivity|].
      destruct (String.eqb g "B.f"); [inversion Hg; subst; reflexivity | discriminate].
    + intros a o Ha. unfold nv_M in Ha. cbn [lookup] in Ha.
      destruct (String.eqb a "B.f") eqn:E; [|discriminate]. apply String.eqb_eq in E. subst a.
      inversion Ha; subst o. reflexivity.
  - vm_compute. reflexivity.
  - vm_compute. reflexivity.
Qed.
