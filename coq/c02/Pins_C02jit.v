From Coq Require Import List Bool String ZArith.
Import ListNotations.
From SV Require Import c02.Jit_C02 gen.Gen_C02jit c02.Properties_C02jit.
Check (C02_jit_sites_checked : discipline Gen_C02jit.sites = true).
Check (C02_jit_checked_native_agrees : forall p, Forall fallible_sound p -> forallb call_ok p = true ->
  forall st, native p st = interp p st).
Check (C02_jit_unchecked_site_loses_error : exists p st, Forall fallible_sound p /\ native p st <> interp p st).
Check (C02_jit_discipline_nonvacuous :
  discipline [("CAR"%string, "car-reg"%string, true, true); ("CONS"%string, "cons-handler-value"%string, false, false)] = true /\
  discipline [("CAR"%string, "car-reg"%string, true, false)] = false).
Print Assumptions C02_jit_sites_checked.
Print Assumptions C02_jit_checked_native_agrees.
Print Assumptions C02_jit_unchecked_site_loses_error.
Print Assumptions C02_jit_discipline_nonvacuous.
