From Coq Require Import List Bool String ZArith.
Import ListNotations.
From SV Require Import c02.Jit_C02 gen.Gen_C02jit c02.Properties_C02jit.
Check (C02_jit_sites_checked : discipline Gen_C02jit.sites = true).
Check (C02_jit_checked_native_agrees : forall p, Forall fallible_sound p -> forallb call_ok p = true ->
  forall st, native p st = interp p st).
Check (C02_jit_unchecked_site_loses_error : exists p st, Forall fallible_sound p /\ native p st <> interp p st).
Check (C02_jit_discipline_nonvacuous :
  discipline [("CAR"%string, "car-reg"%string, true, true); ("CONS"%string, "cons-handler-value"%string, false, false)] = true /\
  discipline [("CAR"%string, "car-reg"%string, true, false)] = false).
Check (C02_jit_helpers_clear_flag : helper_discipline Gen_C02jit.error_stores = true).
Check (C02_jit_flag_contract : forall p, Forall (fun c => fallible_sound (base c)) p ->
  forallb (fun c => call_ok (base c) && implb (cfallible (base c)) (clears c)) p = true ->
  forall st, native_flag p st = interp (map base p) st).
Check (C02_jit_helper_not_clearing_flag_loses_error : exists p st,
  Forall (fun c => fallible_sound (base c)) p /\ forallb (fun c => call_ok (base c)) p = true /\
  native_flag p st <> interp (map base p) st).
Print Assumptions C02_jit_helpers_clear_flag.
Print Assumptions C02_jit_flag_contract.
Print Assumptions C02_jit_helper_not_clearing_flag_loses_error.
Print Assumptions C02_jit_sites_checked.
Print Assumptions C02_jit_checked_native_agrees.
Print Assumptions C02_jit_unchecked_site_loses_error.
Print Assumptions C02_jit_discipline_nonvacuous.
