(* C02 — configuration independence: model of the optional AST pass "call inlining"
   (compiler/passes/analysis.rs inline_function_calls / inline_handle_define, L5807-5926) on a core
   language with first-class closures, global bindings and assignment of globals.

   What the pass does: for every top-level `(define f (lambda (xs) body))` whose name is not assigned
   (`set_bang`) in the unit, that has no rest argument and is small enough, every later call site
   `(f args...)` has its operator replaced by the lambda literal.  `recursively_inline_function_calls`
   iterates this a bounded number of times.

   The reference meaning has no configuration: [eval].  Closures are flat (they capture exactly the
   free variables of the lambda), as in the implementation. *)
From Coq Require Import ZArith List Bool String.
Import ListNotations.
Open Scope string_scope.

Inductive exp :=
| Num (z : Z)
| Bool_ (b : bool)
| Loc (x : string)                         (* local variable *)
| Glob (g : string)                        (* global variable *)
| Lam (xs : list string) (body : exp)
| Call (f : exp) (args : exps)
| If (c t e : exp)
| Let (x : string) (e1 e2 : exp)
| Add (a b : exp)
| SetG (g : string) (e : exp)              (* (set! g e) on a global; returns the old value *)
with exps :=
| ENil
| ECons (e : exp) (r : exps).

Scheme exp_mut := Induction for exp Sort Prop
  with exps_mut := Induction for exps Sort Prop.
Combined Scheme exp_exps_ind from exp_mut, exps_mut.

Inductive val :=
| VNum (z : Z)
| VBool (b : bool)
| VClo (xs : list string) (body : exp) (ρ : list (string * val)).

Definition env := list (string * val).

Inductive res :=
| Val (v : val)
| Err                 (* run-time error (type / arity / unbound) *)
| Viol.               (* an assignment to a protected (inlinable) global was attempted *)

Fixpoint lookup {A} (x : string) (l : list (string * A)) : option A :=
  match l with
  | [] => None
  | (y, a) :: r => if String.eqb x y then Some a else lookup x r
  end.

Fixpoint update (x : string) (v : val) (l : env) : env :=
  match l with
  | [] => []
  | (y, a) :: r => if String.eqb x y then (y, v) :: r else (y, a) :: update x v r
  end.

Definition mem (x : string) (l : list string) : bool := existsb (String.eqb x) l.

(* free local variables *)
Fixpoint fv (e : exp) : list string :=
  match e with
  | Num _ | Bool_ _ | Glob _ => []
  | Loc x => [x]
  | Lam xs b => filter (fun y => negb (mem y xs)) (fv b)
  | Call f args => (fv f ++ fvs args)%list
  | If c t e' => (fv c ++ fv t ++ fv e')%list
  | Let x e1 e2 => (fv e1 ++ filter (fun y => negb (String.eqb y x)) (fv e2))%list
  | Add a b => (fv a ++ fv b)%list
  | SetG _ e' => fv e'
  end
with fvs (l : exps) : list string :=
  match l with
  | ENil => []
  | ECons a r => (fv a ++ fvs r)%list
  end.

Definition restrict (ρ : env) (keep : list string) : env :=
  filter (fun p => mem (fst p) keep) ρ.

Fixpoint bind_params (xs : list string) (vs : list val) (ρ : env) : option env :=
  match xs, vs with
  | [], [] => Some ρ
  | x :: xs', v :: vs' => bind_params xs' vs' ((x, v) :: ρ)
  | _, _ => None
  end.

Definition truthy (v : val) : bool := match v with VBool false => false | _ => true end.

Section Eval.
  Variable prot : list string.    (* globals that must not be assigned (the inliner's side condition) *)

  (* fuel-indexed big-step evaluation: operands left to right, operator last *)
  Fixpoint eval (n : nat) (G : env) (ρ : env) (e : exp) : option (res * env) :=
    match n with
    | O => None
    | S n' =>
      match e with
      | Num z => Some (Val (VNum z), G)
      | Bool_ b => Some (Val (VBool b), G)
      | Loc x => match lookup x ρ with Some v => Some (Val v, G) | None => Some (Err, G) end
      | Glob g => match lookup g G with Some v => Some (Val v, G) | None => Some (Err, G) end
      | Lam xs b => Some (Val (VClo xs b (restrict ρ (fv (Lam xs b)))), G)
      | Call f args =>
          match evals n' G ρ args with
          | None => None
          | Some (inl x, G1) => Some (x, G1)
          | Some (inr vs, G1) =>
            match eval n' G1 ρ f with
            | None => None
            | Some (Val (VClo xs b ρc), G2) =>
                match bind_params xs vs ρc with
                | Some ρ' => eval n' G2 ρ' b
                | None => Some (Err, G2)
                end
            | Some (Val _, G2) => Some (Err, G2)
            | Some (x, G2) => Some (x, G2)
            end
          end
      | If c t e' =>
          match eval n' G ρ c with
          | None => None
          | Some (Val v, G1) => eval n' G1 ρ (if truthy v then t else e')
          | Some (x, G1) => Some (x, G1)
          end
      | Let x e1 e2 =>
          match eval n' G ρ e1 with
          | None => None
          | Some (Val v, G1) => eval n' G1 ((x, v) :: ρ) e2
          | Some (x', G1) => Some (x', G1)
          end
      | Add a b =>
          match eval n' G ρ a with
          | None => None
          | Some (Val va, G1) =>
            match eval n' G1 ρ b with
            | None => None
            | Some (Val vb, G2) =>
                match va, vb with
                | VNum x, VNum y => Some (Val (VNum (x + y)), G2)
                | _, _ => Some (Err, G2)
                end
            | Some (x, G2) => Some (x, G2)
            end
          | Some (x, G1) => Some (x, G1)
          end
      | SetG g e' =>
          match eval n' G ρ e' with
          | None => None
          | Some (Val v, G1) =>
              if mem g prot then Some (Viol, G1)
              else match lookup g G1 with
                   | Some old => Some (Val old, update g v G1)
                   | None => Some (Err, G1)
                   end
          | Some (x, G1) => Some (x, G1)
          end
      end
    end
  (* operands, left to right; the first non-value result aborts *)
  with evals (n : nat) (G : env) (ρ : env) (l : exps) : option ((res + list val) * env) :=
    match n with
    | O => None
    | S n' =>
      match l with
      | ENil => Some (inr [], G)
      | ECons a r =>
          match eval n' G ρ a with
          | None => None
          | Some (Val v, G1) =>
              match evals n' G1 ρ r with
              | None => None
              | Some (inr vs, G2) => Some (inr (v :: vs), G2)
              | Some (inl x, G2) => Some (inl x, G2)
              end
          | Some (x, G1) => Some (inl x, G1)
          end
      end
    end.
End Eval.

(* ------------------------------------------------------------------ the pass *)
Definition defs := list (string * (list string * exp)).   (* inlinable definitions: f -> (params, body) *)

Section Inline.
  Variable D : defs.
  Fixpoint inline (e : exp) : exp :=
    match e with
    | Num _ | Bool_ _ | Loc _ | Glob _ => e
    | Lam xs b => Lam xs (inline b)
    | Call f args =>
        match f with
        | Glob g => match lookup g D with
                    | Some (xs, b) => Call (Lam xs b) (inlines args)   (* lst.args[0] = the lambda literal *)
                    | None => Call f (inlines args)
                    end
        | _ => Call (inline f) (inlines args)
        end
    | If c t e' => If (inline c) (inline t) (inline e')
    | Let x e1 e2 => Let x (inline e1) (inline e2)
    | Add a b => Add (inline a) (inline b)
    | SetG g e' => SetG g (inline e')
    end
  with inlines (l : exps) : exps :=
    match l with
    | ENil => ENil
    | ECons a r => ECons (inline a) (inlines r)
    end.
End Inline.

(* bounded recursive inlining: the bodies substituted at round k+1 are those already inlined k times *)
Fixpoint inline_rec (k : nat) (D : defs) (e : exp) : exp :=
  match k with
  | O => e
  | S k' => inline_rec k' D (inline D e)
  end.

(* rendering for the correspondence *)
Definition render_res (r : option (res * env)) : string :=
  match r with
  | None => "FUEL"
  | Some (Val (VNum z), _) => "N"
  | Some (Val (VBool true), _) => "#t"
  | Some (Val (VBool false), _) => "#f"
  | Some (Val (VClo _ _ _), _) => "#<procedure>"
  | Some (Err, _) => "ERR"
  | Some (Viol, _) => "VIOL"
  end.

Definition fst_opt {A B} (o : option (A * B)) : option A :=
  match o with Some (a, _) => Some a | None => None end.
