(* C02 — native tier error discipline: property theorems (proofs in Jit_C02.v; table in gen/Gen_C02jit.v) *)
From Coq Require Import List Bool String ZArith.
Import ListNotations.
From SV Require Import c02.Jit_C02 gen.Gen_C02jit.

(* every call site of the code generator whose helper can report an error is followed by the test
   (the table is regenerated from jit2/cgen.rs and steel_vm/vm/jit.rs on every run) *)
Theorem C02_jit_sites_checked : discipline Gen_C02jit.sites = true.
Proof. vm_compute. reflexivity. Qed.

(* a natively compiled body all of whose fallible call sites are checked behaves as the interpreter:
   same value, or the same first error, for every operand stack *)
Theorem C02_jit_checked_native_agrees : forall p, Forall fallible_sound p -> forallb call_ok p = true ->
  forall st, native p st = interp p st.
Proof. exact native_agrees. Qed.

(* the test is necessary: an unchecked fallible site loses the error *)
Theorem C02_jit_unchecked_site_loses_error : exists p st, Forall fallible_sound p /\ native p st <> interp p st.
Proof. exact unchecked_site_loses_error. Qed.

Example C02_jit_discipline_nonvacuous :
  discipline [("CAR"%string, "car-reg"%string, true, true); ("CONS"%string, "cons-handler-value"%string, false, false)] = true /\
  discipline [("CAR"%string, "car-reg"%string, true, false)] = false.
Proof. exact discipline_nonvacuous. Qed.

(* every function / macro of jit.rs that stores an error in ctx.result clears ctx.is_native at least as often
   (generated from the source on every run) *)
Theorem C02_jit_helpers_clear_flag : helper_discipline Gen_C02jit.error_stores = true.
Proof. vm_compute. reflexivity. Qed.

(* with both halves of the contract native execution equals the interpreter's; without the helper's half a checked
   site does not help *)
Theorem C02_jit_flag_contract : forall p, Forall (fun c => fallible_sound (base c)) p ->
  forallb (fun c => call_ok (base c) && implb (cfallible (base c)) (clears c)) p = true ->
  forall st, native_flag p st = interp (map base p) st.
Proof. exact native_flag_agrees. Qed.

Theorem C02_jit_helper_not_clearing_flag_loses_error : exists p st,
  Forall (fun c => fallible_sound (base c)) p /\ forallb (fun c => call_ok (base c)) p = true /\
  native_flag p st <> interp (map base p) st.
Proof. exact helper_not_clearing_flag_loses_error. Qed.
