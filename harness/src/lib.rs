//! Shared helpers for the correspondence harness binaries (DESIGN.md 2.3/2.4).
use std::panic::{catch_unwind, AssertUnwindSafe};
use std::sync::Mutex;

pub use serde_json::{json, Value as J};
use steel::rvals::SteelVal;
use steel::steel_vm::engine::Engine;

pub static LAST_PANIC: Mutex<Option<String>> = Mutex::new(None);

/// Install a panic hook that records (message @ file:line) instead of printing.
pub fn quiet_panics() {
    std::panic::set_hook(Box::new(|info| {
        let msg = if let Some(s) = info.payload().downcast_ref::<&str>() {
            s.to_string()
        } else if let Some(s) = info.payload().downcast_ref::<String>() {
            s.clone()
        } else {
            "<non-string panic>".to_string()
        };
        let loc = info
            .location()
            .map(|l| format!("{}:{}", l.file(), l.line()))
            .unwrap_or_default();
        *LAST_PANIC.lock().unwrap() = Some(format!("{} @ {}", msg, loc));
    }));
}

pub fn take_panic() -> String {
    LAST_PANIC.lock().unwrap().take().unwrap_or_default()
}

fn esc(s: &str, out: &mut String) {
    out.push('"');
    for c in s.chars() {
        match c {
            '"' => out.push_str("\\\""),
            '\\' => out.push_str("\\\\"),
            c if (c as u32) < 0x20 || (c as u32) == 0x7f => out.push_str(&format!("\\x{:x};", c as u32)),
            c => out.push(c),
        }
    }
    out.push('"');
}

/// Canonical, structural rendering of a value (numbers by representation tag + exact digits / f64 bits,
/// hash maps and sets sorted by rendered key, procedures/ports as kind tags).
pub fn canon(v: &SteelVal) -> String {
    let mut s = String::new();
    canon_into(v, &mut s, 0);
    s
}

fn canon_into(v: &SteelVal, out: &mut String, depth: usize) {
    if depth > 400 {
        out.push_str("<deep>");
        return;
    }
    match v {
        SteelVal::IntV(i) => out.push_str(&format!("I{}", i)),
        SteelVal::BigNum(b) => out.push_str(&format!("B{}", &**b)),
        SteelVal::Rational(r) => out.push_str(&format!("R{}/{}", r.numer(), r.denom())),
        SteelVal::BigRational(r) => out.push_str(&format!("Q{}/{}", r.numer(), r.denom())),
        SteelVal::NumV(f) => out.push_str(&format!("F{:016x}", if f.is_nan() { 0x7ff8000000000000u64 } else { f.to_bits() })),
        SteelVal::Complex(_) => out.push_str(&format!("C({})", v)),
        SteelVal::BoolV(b) => out.push_str(if *b { "#t" } else { "#f" }),
        SteelVal::CharV(c) => out.push_str(&format!("#\\x{:x}", *c as u32)),
        SteelVal::Void => out.push_str("#<void>"),
        SteelVal::StringV(s) => esc(s.as_str(), out),
        SteelVal::SymbolV(s) => {
            out.push('\'');
            esc(s.as_str(), out)
        }
        SteelVal::ListV(l) => {
            out.push('(');
            let mut first = true;
            for x in l.iter() {
                if !first {
                    out.push(' ');
                }
                first = false;
                canon_into(x, out, depth + 1);
            }
            out.push(')');
        }
        SteelVal::Pair(p) => {
            out.push('(');
            canon_into(p.car_ref(), out, depth + 1);
            out.push_str(" . ");
            canon_into(p.cdr_ref(), out, depth + 1);
            out.push(')');
        }
        SteelVal::VectorV(vec) => {
            out.push_str("#(");
            let mut first = true;
            for x in vec.iter() {
                if !first {
                    out.push(' ');
                }
                first = false;
                canon_into(x, out, depth + 1);
            }
            out.push(')');
        }
        SteelVal::MutableVector(h) => {
            out.push_str("#m(");
            let mut first = true;
            for x in h.get().iter() {
                if !first {
                    out.push(' ');
                }
                first = false;
                canon_into(x, out, depth + 1);
            }
            out.push(')');
        }
        SteelVal::HashMapV(m) => {
            let mut items: Vec<(String, String)> = m
                .iter()
                .map(|(k, v)| {
                    let mut a = String::new();
                    canon_into(k, &mut a, depth + 1);
                    let mut b = String::new();
                    canon_into(v, &mut b, depth + 1);
                    (a, b)
                })
                .collect();
            items.sort();
            out.push_str("#hash(");
            for (i, (k, v)) in items.iter().enumerate() {
                if i > 0 {
                    out.push(' ');
                }
                out.push_str(&format!("[{} {}]", k, v));
            }
            out.push(')');
        }
        SteelVal::HashSetV(m) => {
            let mut items: Vec<String> = m
                .iter()
                .map(|k| {
                    let mut a = String::new();
                    canon_into(k, &mut a, depth + 1);
                    a
                })
                .collect();
            items.sort();
            out.push_str("#hashset(");
            out.push_str(&items.join(" "));
            out.push(')');
        }
        SteelVal::ByteVector(_) => {
            out.push_str(&format!("{}", v));
        }
        SteelVal::HeapAllocated(h) => {
            out.push_str("#box(");
            canon_into(&h.get(), out, depth + 1);
            out.push(')');
        }
        SteelVal::Closure(_) | SteelVal::FuncV(_) | SteelVal::MutFunc(_) | SteelVal::BuiltIn(_) | SteelVal::BoxedFunction(_) => {
            out.push_str("#<procedure>")
        }
        SteelVal::ContinuationFunction(_) => out.push_str("#<continuation>"),
        SteelVal::PortV(_) => out.push_str("#<port>"),
        other => {
            out.push_str("D:");
            let txt = catch_unwind(AssertUnwindSafe(|| format!("{}", other))).unwrap_or_else(|_| "<display panicked>".into());
            out.push_str(&txt);
        }
    }
}

pub fn err_class(e: &steel::SteelErr) -> String {
    format!("{:?}", e.kind())
}

/// Outcome of evaluating one unit of source text on an engine, panics caught.
pub enum Outcome {
    Ok(Vec<SteelVal>),
    Err(String, String),
    Panic(String),
}

pub fn eval_unit(e: &mut Engine, src: &str) -> Outcome {
    let _ = take_panic();
    let r = catch_unwind(AssertUnwindSafe(|| e.compile_and_run_raw_program(src.to_string())));
    match r {
        Ok(Ok(v)) => Outcome::Ok(v),
        Ok(Err(err)) => {
            let msg = err.to_string();
            Outcome::Err(err_class(&err), msg.lines().next().unwrap_or("").chars().take(300).collect())
        }
        Err(_) => Outcome::Panic(take_panic()),
    }
}

pub fn outcome_json(o: &Outcome) -> J {
    match o {
        Outcome::Ok(vs) => json!({"ok": vs.iter().map(canon).collect::<Vec<_>>()}),
        Outcome::Err(k, m) => json!({"err": k, "msg": m}),
        Outcome::Panic(m) => json!({"panic": m}),
    }
}
