//! c11mods: prints, as one JSON object, the names registered in the built-in collection modules
//! of a freshly created engine: {"steel/lists": [...], "steel/hash": [...], ...}.
use steel::steel_vm::engine::Engine;
use verif_harness::*;

fn main() {
    let e = Engine::new();
    let mods = ["steel/lists", "steel/hash", "steel/sets", "steel/vectors", "steel/immutable-vectors",
                "steel/strings", "steel/bytevectors"];
    let mut out = serde_json::Map::new();
    for m in mods {
        let names: Vec<String> = match e.builtin_modules().get(m) {
            Some(module) => { let mut n = module.names(); n.sort(); n }
            None => vec!["<module missing>".to_string()],
        };
        out.insert(m.to_string(), json!(names));
    }
    println!("@@C11MODS@@ {}", J::Object(out));
}
