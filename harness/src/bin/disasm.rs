//! disasm: prints the bytecode of each source line on stdin (one evaluation unit per line).
use std::io::BufRead;
use steel::steel_vm::engine::Engine;
fn main() {
    let mut e = Engine::new();
    for line in std::io::stdin().lock().lines() {
        let line = line.unwrap();
        println!(";; {}", line);
        match e.emit_raw_program_no_path(line.clone()) {
            Ok(p) => match e.debug_build_strings(p) {
                Ok(v) => { for s in v { println!("{}", s); } }
                Err(err) => println!("ERR {}", err),
            },
            Err(err) => println!("ERR {}", err),
        }
    }
}
