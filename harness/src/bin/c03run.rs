//! c03run: evalsrv plus, per case, how often Gc::get_mut answered unique / shared while the case ran
//! (hook crates/steel-core/src/gc.rs verif_hooks, --cfg steel_verif); appended to "res" as {"gm":[unique,shared]}.
//! Protocol otherwise identical to evalsrv: one JSON case per input line
//!   {"id": .., "units": ["src", ...], "fresh": bool}
//! evaluates the units in order on one engine (a fresh one when "fresh" is true or after a panic,
//! else the engine shared by the whole batch) and prints one JSON line
//!   {"id": .., "res": [ {"ok": [canonical values]} | {"err": kind, "msg": ..} | {"panic": msg} , ... ]}
use std::io::{BufRead, Write};
use steel::steel_vm::engine::Engine;
use verif_harness::*;

fn new_engine(prelude: &[String]) -> Engine {
    let mut e = Engine::new();
    for u in prelude {
        let _ = eval_unit(&mut e, u);
    }
    e
}

fn main() {
    quiet_panics();
    // --prelude <file>: units (separated by a line ";;;;") evaluated on every engine this process creates
    let args: Vec<String> = std::env::args().collect();
    let mut prelude: Vec<String> = Vec::new();
    if let Some(i) = args.iter().position(|a| a == "--prelude") {
        let txt = std::fs::read_to_string(&args[i + 1]).expect("prelude file");
        prelude = txt.split("\n;;;;\n").map(|s| s.to_string()).collect();
    }
    let stdin = std::io::stdin();
    let stdout = std::io::stdout();
    let mut shared: Option<Engine> = None;
    for line in stdin.lock().lines() {
        let line = line.unwrap();
        if line.trim().is_empty() {
            continue;
        }
        let case: J = serde_json::from_str(&line).expect("bad case json");
        let fresh = case["fresh"].as_bool().unwrap_or(false);
        let mut local;
        let eng: &mut Engine = if fresh {
            local = new_engine(&prelude);
            &mut local
        } else {
            if shared.is_none() {
                shared = Some(new_engine(&prelude));
            }
            shared.as_mut().unwrap()
        };
        let _ = steel::gc::verif_hooks::take_get_mut_counts();
        let mut res = Vec::new();
        let mut poisoned = false;
        for u in case["units"].as_array().unwrap() {
            let o = eval_unit(eng, u.as_str().unwrap());
            if let Outcome::Panic(_) = o {
                poisoned = true;
            }
            res.push(outcome_json(&o));
            if poisoned {
                break;
            }
        }
        let (gm_u, gm_s) = steel::gc::verif_hooks::take_get_mut_counts();
        res.push(json!({"gm": [gm_u, gm_s]}));
        if poisoned && !fresh {
            shared = None;
        }
        let mut out = stdout.lock();
        // script output (display etc.) goes to the same stdout: protocol records are framed by a marker
        // line, and whatever precedes the marker since the previous record is the case's output
        write!(out, "\n@@VERIF@@ {}\n", json!({"id": case["id"], "res": res})).unwrap();
        out.flush().unwrap();
    }
}
