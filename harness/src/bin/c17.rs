//! C17 runner: one JSON case on stdin
//!   {"setup": [units], "looping": src, "probe": [units], "delay_ms": n, "bound_s": x}
//! A worker thread evaluates setup then `looping` on a fresh engine; this (host) thread waits
//! `delay_ms`, calls ThreadStateController::interrupt(), waits for the evaluation to return (at most
//! `bound_s`), calls resume(), and the worker evaluates the probe units.
//! stdout: "@@C17@@ {json}"; exit 3 when the evaluation did not return within the bound.
use std::io::Read;
use std::sync::mpsc;
use std::time::{Duration, Instant};
use steel::steel_vm::engine::Engine;
use steel::steel_vm::verif;
use verif_harness::*;

fn dispatches() -> u64 {
    verif::progress().threads.iter().map(|(d, _)| *d).sum()
}

fn main() {
    quiet_panics();
    let mut txt = String::new();
    std::io::stdin().read_to_string(&mut txt).unwrap();
    let case: J = serde_json::from_str(&txt).expect("bad case json");
    let strs = |k: &str| -> Vec<String> {
        case[k]
            .as_array()
            .map(|a| a.iter().map(|u| u.as_str().unwrap().to_string()).collect())
            .unwrap_or_default()
    };
    let setup = strs("setup");
    let probe = strs("probe");
    let looping = case["looping"].as_str().unwrap().to_string();
    let delay = Duration::from_millis(case["delay_ms"].as_u64().unwrap_or(50));
    let bound = Duration::from_secs_f64(case["bound_s"].as_f64().unwrap_or(60.0));

    let (tx_ctl, rx_ctl) = mpsc::channel();
    let (tx_started, rx_started) = mpsc::channel::<Vec<J>>();
    let (tx_done, rx_done) = mpsc::channel::<(J, Instant)>();
    let (tx_go, rx_go) = mpsc::channel::<()>();
    let (tx_probe, rx_probe) = mpsc::channel::<Vec<J>>();
    std::thread::Builder::new()
        .stack_size(256 << 20)
        .spawn(move || {
            let mut e = Engine::new();
            tx_ctl.send(e.get_thread_state_controller()).unwrap();
            let s: Vec<J> = setup.iter().map(|u| outcome_json(&eval_unit(&mut e, u))).collect();
            tx_started.send(s).unwrap();
            let o = eval_unit(&mut e, &looping);
            tx_done.send((outcome_json(&o), Instant::now())).unwrap();
            rx_go.recv().unwrap();
            let p: Vec<J> = probe.iter().map(|u| outcome_json(&eval_unit(&mut e, u))).collect();
            tx_probe.send(p).unwrap();
            std::mem::forget(e);
        })
        .unwrap();
    let ctl = rx_ctl.recv().unwrap();
    let setup_res = rx_started.recv().unwrap();
    std::thread::sleep(delay);
    // did it finish by itself before the interrupt?
    let early = rx_done.try_recv().ok();
    let d0 = dispatches();
    let t_int = Instant::now();
    ctl.interrupt();
    let (res, latency_ms, steps, hang) = match early {
        Some((r, _)) => (r, -1.0, 0u64, false),
        None => match rx_done.recv_timeout(bound) {
            Ok((r, t_ret)) => (
                r,
                t_ret.saturating_duration_since(t_int).as_secs_f64() * 1000.0,
                dispatches().saturating_sub(d0),
                false,
            ),
            Err(_) => (J::Null, bound.as_secs_f64() * 1000.0, dispatches().saturating_sub(d0), true),
        },
    };
    let mut probe_res = Vec::new();
    if !hang {
        ctl.resume();
        tx_go.send(()).unwrap();
        probe_res = rx_probe.recv_timeout(Duration::from_secs(120)).unwrap_or_else(|_| vec![json!({"hang": 120})]);
    }
    let out = json!({
        "setup": setup_res, "res": res, "finished_before_interrupt": latency_ms < 0.0,
        "latency_ms": latency_ms, "steps_after_interrupt": steps, "hang": hang, "probe": probe_res,
    });
    println!("@@C17@@ {}", out);
    use std::io::Write;
    std::io::stdout().flush().unwrap();
    std::process::exit(if hang { 3 } else { 0 });
}
