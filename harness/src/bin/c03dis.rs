//! c03dis: for each JSON line {"id":..,"src":..} on stdin, compile the source (without running it) on a
//! full engine and print one line `@@C03@@ {"id":..,"ok":[disassembly strings] | "err":msg}`.
//! `--prelude file`: source evaluated once before (struct definitions etc.).
use std::io::{BufRead, Write};
use steel::steel_vm::engine::Engine;
use verif_harness::*;

fn main() {
    quiet_panics();
    let args: Vec<String> = std::env::args().collect();
    let mut e = Engine::new();
    if let Some(i) = args.iter().position(|a| a == "--prelude") {
        let txt = std::fs::read_to_string(&args[i + 1]).expect("prelude file");
        for u in txt.split("\n;;;;\n") {
            let _ = eval_unit(&mut e, u);
        }
    }
    let stdin = std::io::stdin();
    let stdout = std::io::stdout();
    for line in stdin.lock().lines() {
        let line = line.unwrap();
        if line.trim().is_empty() {
            continue;
        }
        let case: J = serde_json::from_str(&line).expect("bad json");
        let src = case["src"].as_str().unwrap().to_string();
        let r = std::panic::catch_unwind(std::panic::AssertUnwindSafe(|| {
            match e.emit_raw_program_no_path(src) {
                Ok(p) => e.debug_build_strings(p).map_err(|x| x.to_string()),
                Err(x) => Err(x.to_string()),
            }
        }));
        let out = match r {
            Ok(Ok(v)) => json!({"id": case["id"], "ok": v}),
            Ok(Err(m)) => json!({"id": case["id"], "err": m}),
            Err(_) => json!({"id": case["id"], "err": format!("panic: {}", take_panic())}),
        };
        let mut o = stdout.lock();
        writeln!(o, "@@C03@@ {}", out).unwrap();
        o.flush().unwrap();
    }
}
