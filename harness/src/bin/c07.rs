//! C07 harness (DESIGN.md section 4, C07).
//!
//!   c07 --list
//!       prints one JSON object: every function / value registered in the engine's built-in modules
//!       (enumerated from `engine.builtin_modules()` at run time):
//!       {"modules": {"steel/lists": [{"name": "car", "kind": "FuncV", "global": true}, ...], ...}}
//!       `global` = the bare name is bound in a default `Engine::new()`.
//!
//!   c07 [--prelude file]
//!       evaluation server with the protocol of `evalsrv`
//!         in : {"id": i, "units": [src, ...], "fresh": bool}
//!         in : optional "from": k  = skip the first k units (continuation of a case whose unit k-1 killed a worker)
//!         out: per unit  "\n@@VERIF@@ " {"id": i, "k": k, "r": {"ok": [..]} | {"err": kind, "msg": ..} | {"panic": "msg @ file:line"}}
//!              per case  "\n@@VERIF@@ " {"id": i, "done": true}
//!       and a panic does not end the case: the panic is recorded (hook: message @ file:line), the
//!       engine is rebuilt (prelude re-evaluated) and the remaining units of the case are still evaluated.
//!       A unit of the form  ";;compile <src>"  reads, expands and compiles the text without running it.
//!       A unit of the form  ";;call <name> <src of argument list>"  calls the global `name` through
//!       `Engine::call_function_by_name_with_args` with the values of the argument list expression.
use std::io::{BufRead, Write};
use std::panic::{catch_unwind, AssertUnwindSafe};
use steel::rvals::SteelVal;
use steel::steel_vm::engine::Engine;
use verif_harness::*;

fn new_engine(prelude: &[String]) -> Engine {
    let mut e = Engine::new();
    for u in prelude {
        let _ = eval_unit(&mut e, u);
    }
    e
}

fn kind_of(v: &SteelVal) -> &'static str {
    match v {
        SteelVal::FuncV(_) => "FuncV",
        SteelVal::MutFunc(_) => "MutFunc",
        SteelVal::BuiltIn(_) => "BuiltIn",
        SteelVal::BoxedFunction(_) => "BoxedFunction",
        SteelVal::Closure(_) => "Closure",
        _ => "value",
    }
}

fn list_builtins() {
    let e = Engine::new();
    let mut mods = serde_json::Map::new();
    let names: Vec<String> = e.builtin_modules().inner().keys().map(|k| k.to_string()).collect();
    for m in names {
        let module = match e.builtin_modules().get(&m) {
            Some(x) => x,
            None => continue,
        };
        let mut fnames = module.names();
        fnames.sort();
        let mut arr = Vec::new();
        for n in fnames {
            let v = module.try_get(n.clone());
            let kind = v.as_ref().map(kind_of).unwrap_or("missing");
            let global = e.extract_value(&n).is_ok();
            arr.push(json!({"name": n, "kind": kind, "global": global}));
        }
        mods.insert(m, J::Array(arr));
    }
    println!("{}", json!({"modules": mods}));
}

/// `;;call name (list a b c)` — host-side call by name.
fn call_by_name(e: &mut Engine, rest: &str) -> Outcome {
    let rest = rest.trim_start();
    let (name, args_src) = match rest.find(char::is_whitespace) {
        Some(i) => (&rest[..i], rest[i..].trim()),
        None => (rest, "(list)"),
    };
    let args = match eval_unit(e, args_src) {
        Outcome::Ok(vs) => match vs.last() {
            Some(SteelVal::ListV(l)) => l.iter().cloned().collect::<Vec<_>>(),
            _ => return Outcome::Err("Harness".into(), "argument list did not evaluate to a list".into()),
        },
        other => return other,
    };
    let _ = take_panic();
    let name = name.to_string();
    let r = catch_unwind(AssertUnwindSafe(|| e.call_function_by_name_with_args(&name, args)));
    match r {
        Ok(Ok(v)) => Outcome::Ok(vec![v]),
        Ok(Err(err)) => {
            let msg = err.to_string();
            Outcome::Err(err_class(&err), msg.lines().next().unwrap_or("").chars().take(300).collect())
        }
        Err(_) => Outcome::Panic(take_panic()),
    }
}

/// `;;compile <src>` — read, expand and compile the text without running it (tells a reader / compiler hang
/// from a program that legitimately does not terminate).
fn compile_only(e: &mut Engine, src: &str) -> Outcome {
    let _ = take_panic();
    let src = src.to_string();
    let r = catch_unwind(AssertUnwindSafe(|| e.emit_raw_program_no_path(src).map(|_| ())));
    match r {
        Ok(Ok(())) => Outcome::Ok(vec![]),
        Ok(Err(err)) => {
            let msg = err.to_string();
            Outcome::Err(err_class(&err), msg.lines().next().unwrap_or("").chars().take(300).collect())
        }
        Err(_) => Outcome::Panic(take_panic()),
    }
}

fn main() {
    let args: Vec<String> = std::env::args().collect();
    if args.iter().any(|a| a == "--list") {
        list_builtins();
        return;
    }
    quiet_panics();
    let mut prelude: Vec<String> = Vec::new();
    if let Some(i) = args.iter().position(|a| a == "--prelude") {
        let txt = std::fs::read_to_string(&args[i + 1]).expect("prelude file");
        prelude = txt.split("\n;;;;\n").map(|s| s.to_string()).filter(|s| !s.trim().is_empty()).collect();
    }
    let stdin = std::io::stdin();
    let stdout = std::io::stdout();
    let mut shared: Option<Engine> = None;
    for line in stdin.lock().lines() {
        let line = line.unwrap();
        if line.trim().is_empty() {
            continue;
        }
        let case: J = serde_json::from_str(&line).expect("bad case json");
        let fresh = case["fresh"].as_bool().unwrap_or(false);
        if fresh || shared.is_none() {
            shared = Some(new_engine(&prelude));
        }
        // one record per unit (so that the orchestrator knows which unit killed / stalled the process), then a
        // closing record for the case
        let from = case["from"].as_u64().unwrap_or(0) as usize;
        for (k, u) in case["units"].as_array().unwrap().iter().enumerate() {
            if k < from {
                continue;
            }
            let src = u.as_str().unwrap();
            let eng = shared.as_mut().unwrap();
            let o = if let Some(rest) = src.strip_prefix(";;call ") {
                call_by_name(eng, rest)
            } else if let Some(rest) = src.strip_prefix(";;compile ") {
                compile_only(eng, rest)
            } else {
                eval_unit(eng, src)
            };
            let panicked = matches!(o, Outcome::Panic(_));
            let rendered = outcome_json(&o);
            // release the result values before reporting: a crash while discarding them belongs to this unit
            drop(o);
            {
                let mut out = stdout.lock();
                write!(out, "\n@@VERIF@@ {}\n", json!({"id": case["id"], "k": k, "r": rendered})).unwrap();
                out.flush().unwrap();
            }
            if panicked {
                // the engine may be in any state after an unwound panic: rebuild and carry on
                shared = Some(new_engine(&prelude));
            }
        }
        let mut out = stdout.lock();
        write!(out, "\n@@VERIF@@ {}\n", json!({"id": case["id"], "done": true})).unwrap();
        out.flush().unwrap();
    }
}
