//! astdump: prints the fully expanded (optimised) AST and the bytecode disassembly of each source line given on stdin.
use std::io::BufRead;
use steel::steel_vm::engine::Engine;
fn main() {
    let mut e = Engine::new();
    for line in std::io::stdin().lock().lines() {
        let line = line.unwrap();
        println!(";; {}", line);
        match e.emit_fully_expanded_ast_to_string(&line, None) {
            Ok(s) => println!("{}", s),
            Err(err) => println!("ERR {}", err),
        }
    }
}
