//! passdump: for each stdin line, print on ONE line the fully expanded and optimised AST of that source text
//! (`Engine::emit_fully_expanded_ast`, i.e. `Compiler::lower_expressions_impl`: the whole AST pipeline),
//! rendered with the `Display` of `ExprKind` (unambiguous s-expression; top-level forms joined by " ;; ").
//! Output line: `AST <text>` or `ERR <first line of the error>`.  Used by checks/c01_passes.py.
use std::io::BufRead;
use steel::steel_vm::engine::Engine;
fn main() {
    let mut e = Engine::new();
    for line in std::io::stdin().lock().lines() {
        let line = line.unwrap();
        match e.emit_fully_expanded_ast(&line, None) {
            Ok(v) => {
                let parts: Vec<String> = v
                    .iter()
                    .map(|x| x.to_string().replace('\n', " "))
                    .collect();
                println!("AST {}", parts.join(" ;; "));
            }
            Err(err) => println!("ERR {}", err.to_string().lines().next().unwrap_or("")),
        }
    }
}
