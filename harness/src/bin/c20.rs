//! C20 harness: an evaluation server (same line protocol as evalsrv) whose engines carry recording host
//! functions of every supported signature shape, plus directives for the host-side half of the boundary.
//!
//! A unit is either Steel source text or a directive line starting with "#!":
//!   #!extract <ty> <name>            engine.extract::<ty>(name)        -> ok ["<rendering of the host value>"]
//!   #!inject <ty> <via> <text> <name>  parse <text> as <ty> on the host, convert with `via` = from | into,
//!                                    bind the script global <name>     -> ok []
//!   #!lend <script>                  engine.run_with_reference::<Ext,Ext>(&mut obj, "*ext*", script) on the
//!                                    case's host object                -> outcome of the lending call
//!   #!lendro <script>                run_thunk_with_ro_reference: binds *ext* to a read-only lent reference
//!   #!extval                         host-side state of the case's object -> ok ["I<value>"]
//!   #!calls                          number of host-function bodies entered since the case began
//! Every host function bumps CALLS when its *body* runs, so "the wrapper returned an error" can be
//! distinguished from "the function ran".
use std::collections::{HashMap, HashSet};
use std::io::{BufRead, Write};
use std::sync::atomic::{AtomicUsize, Ordering};

use steel::custom_reference;
use steel::gc::unsafe_erased_pointers::CustomReference;
use steel::rvals::{Custom, FromSteelVal, IntoSteelVal, SteelVal};
use steel::steel_vm::engine::Engine;
use steel::steel_vm::register_fn::RegisterFn;
use verif_harness::*;

static CALLS: AtomicUsize = AtomicUsize::new(0);
fn hit() {
    CALLS.fetch_add(1, Ordering::SeqCst);
}

// ---- lent object
struct Ext {
    value: i64,
}
impl Ext {
    fn get(&mut self) -> i64 {
        hit();
        self.value
    }
    fn set(&mut self, v: i64) -> i64 {
        hit();
        self.value = v;
        v
    }
    fn peek(&self) -> i64 {
        hit();
        self.value
    }
}
impl CustomReference for Ext {}
custom_reference!(Ext);

// ---- registered structs passed by value / &T / &mut T
#[derive(Clone, Debug, PartialEq)]
struct Pt {
    x: i64,
    y: i64,
}
impl Custom for Pt {}
#[derive(Clone, Debug, PartialEq)]
struct Other {
    tag: i64,
}
impl Custom for Other {}

macro_rules! int_fns {
    ($e:expr, $($t:ident),*) => {$(
        $e.register_fn(concat!("take-", stringify!($t)), |x: $t| -> String { hit(); format!("{}", x) });
        $e.register_fn(concat!("give-", stringify!($t)), |s: String| -> $t { hit(); s.parse::<$t>().expect("host parse") });
        $e.register_fn(concat!("take-opt-", stringify!($t)), |x: Option<$t>| -> String { hit(); match x { Some(v) => format!("Some({})", v), None => "None".to_string() } });
        $e.register_fn(concat!("take-vec-", stringify!($t)), |x: Vec<$t>| -> String { hit(); format!("{:?}", x) });
        $e.register_fn(concat!("give-vec-", stringify!($t)), |s: String| -> Vec<$t> { hit(); s.split(',').filter(|p| !p.is_empty()).map(|p| p.parse::<$t>().expect("host parse")).collect() });
    )*};
}

macro_rules! arity_fn {
    ($e:expr, $name:expr, $($a:ident),*) => {
        $e.register_fn($name, |$($a: i64),*| -> Vec<i64> { hit(); vec![$($a),*] });
    };
}

fn register(e: &mut Engine) {
    int_fns!(e, i8, i16, i32, i64, isize, u8, u16, u32, u64, usize);
    // host -> script only
    e.register_fn("give-u128", |s: String| -> u128 {
        hit();
        s.parse::<u128>().expect("host parse")
    });
    // floats: bit patterns
    e.register_fn("take-f64", |x: f64| -> String {
        hit();
        format!("{:016x}", x.to_bits())
    });
    e.register_fn("take-f32", |x: f32| -> String {
        hit();
        format!("{:08x}", x.to_bits())
    });
    e.register_fn("give-f64", |s: String| -> f64 {
        hit();
        f64::from_bits(u64::from_str_radix(&s, 16).unwrap())
    });
    e.register_fn("give-f32", |s: String| -> f32 {
        hit();
        f32::from_bits(u32::from_str_radix(&s, 16).unwrap())
    });
    // strings, chars, bools
    e.register_fn("take-string", |s: String| -> String {
        hit();
        format!("{:?}", s)
    });
    e.register_fn("give-string", |s: String| -> String {
        hit();
        s
    });
    e.register_fn("take-char", |c: char| -> String {
        hit();
        format!("{:x}", c as u32)
    });
    e.register_fn("give-char", |n: u32| -> char {
        hit();
        char::from_u32(n).expect("host char")
    });
    e.register_fn("take-bool", |b: bool| -> String {
        hit();
        format!("{}", b)
    });
    e.register_fn("give-bool", |s: String| -> bool {
        hit();
        s == "true"
    });
    // options
    e.register_fn("take-opt-bool", |x: Option<bool>| -> String {
        hit();
        format!("{:?}", x)
    });
    e.register_fn("take-opt-string", |x: Option<String>| -> String {
        hit();
        format!("{:?}", x)
    });
    e.register_fn("take-opt-opt-i64", |x: Option<Option<i64>>| -> String {
        hit();
        format!("{:?}", x)
    });
    e.register_fn("give-opt-i64", |s: String| -> Option<i64> {
        hit();
        if s == "none" {
            None
        } else {
            Some(s.parse().unwrap())
        }
    });
    e.register_fn("give-opt-u64", |s: String| -> Option<u64> {
        hit();
        if s == "none" {
            None
        } else {
            Some(s.parse().unwrap())
        }
    });
    e.register_fn("give-opt-bool", |s: String| -> Option<bool> {
        hit();
        match s.as_str() {
            "none" => None,
            "true" => Some(true),
            _ => Some(false),
        }
    });
    e.register_fn("give-opt-opt-i64", |s: String| -> Option<Option<i64>> {
        hit();
        match s.as_str() {
            "none" => None,
            "some-none" => Some(None),
            v => Some(Some(v.parse().unwrap())),
        }
    });
    // results
    e.register_fn("take-res", |r: Result<i64, String>| -> String {
        hit();
        format!("{:?}", r)
    });
    e.register_fn("take-res-i32", |r: Result<i32, String>| -> String {
        hit();
        format!("{:?}", r)
    });
    e.register_fn("give-res", |ok: bool, v: i64, msg: String| -> Result<i64, String> {
        hit();
        if ok {
            Ok(v)
        } else {
            Err(msg)
        }
    });
    // containers
    e.register_fn("take-vec-string", |x: Vec<String>| -> String {
        hit();
        format!("{:?}", x)
    });
    e.register_fn("take-vec-vec-i64", |x: Vec<Vec<i64>>| -> String {
        hit();
        format!("{:?}", x)
    });
    e.register_fn("take-map", |m: HashMap<String, i64>| -> String {
        hit();
        let mut v: Vec<_> = m.into_iter().collect();
        v.sort();
        format!("{:?}", v)
    });
    e.register_fn("take-map-i32", |m: HashMap<String, i32>| -> String {
        hit();
        let mut v: Vec<_> = m.into_iter().collect();
        v.sort();
        format!("{:?}", v)
    });
    e.register_fn("give-map", |s: String| -> HashMap<String, i64> {
        hit();
        s.split(',').filter(|p| !p.is_empty()).map(|p| {
            let (k, v) = p.split_once('=').unwrap();
            (k.to_string(), v.parse().unwrap())
        }).collect()
    });
    e.register_fn("take-set", |m: HashSet<i64>| -> String {
        hit();
        let mut v: Vec<_> = m.into_iter().collect();
        v.sort();
        format!("{:?}", v)
    });
    e.register_fn("give-set", |s: String| -> HashSet<i64> {
        hit();
        s.split(',').filter(|p| !p.is_empty()).map(|p| p.parse().unwrap()).collect()
    });
    e.register_fn("take-pair", |p: (i64, String)| -> String {
        hit();
        format!("{:?}", p)
    });
    e.register_fn("take-pair-i32", |p: (i32, u8)| -> String {
        hit();
        format!("{:?}", p)
    });
    e.register_fn("give-pair", |a: i64, b: String| -> (i64, String) {
        hit();
        (a, b)
    });
    // arities 0..16, all-i64 parameters; returns exactly what was received, in order
    e.register_fn("ar0", || -> Vec<i64> {
        hit();
        vec![]
    });
    arity_fn!(e, "ar1", a0);
    arity_fn!(e, "ar2", a0, a1);
    arity_fn!(e, "ar3", a0, a1, a2);
    arity_fn!(e, "ar4", a0, a1, a2, a3);
    arity_fn!(e, "ar5", a0, a1, a2, a3, a4);
    arity_fn!(e, "ar6", a0, a1, a2, a3, a4, a5);
    arity_fn!(e, "ar7", a0, a1, a2, a3, a4, a5, a6);
    arity_fn!(e, "ar8", a0, a1, a2, a3, a4, a5, a6, a7);
    arity_fn!(e, "ar9", a0, a1, a2, a3, a4, a5, a6, a7, a8);
    arity_fn!(e, "ar10", a0, a1, a2, a3, a4, a5, a6, a7, a8, a9);
    arity_fn!(e, "ar11", a0, a1, a2, a3, a4, a5, a6, a7, a8, a9, a10);
    arity_fn!(e, "ar12", a0, a1, a2, a3, a4, a5, a6, a7, a8, a9, a10, a11);
    arity_fn!(e, "ar13", a0, a1, a2, a3, a4, a5, a6, a7, a8, a9, a10, a11, a12);
    arity_fn!(e, "ar14", a0, a1, a2, a3, a4, a5, a6, a7, a8, a9, a10, a11, a12, a13);
    arity_fn!(e, "ar15", a0, a1, a2, a3, a4, a5, a6, a7, a8, a9, a10, a11, a12, a13, a14);
    arity_fn!(e, "ar16", a0, a1, a2, a3, a4, a5, a6, a7, a8, a9, a10, a11, a12, a13, a14, a15);
    // mixed kinds at several positions
    e.register_fn("mix3", |a: u8, b: String, c: i32| -> String {
        hit();
        format!("{}|{:?}|{}", a, b, c)
    });
    // registered structs: by value, &T, &mut T receivers (+ extra args)
    e.register_type::<Pt>("Pt?");
    e.register_type::<Other>("Other?");
    e.register_fn("make-pt", |x: i64, y: i64| -> Pt {
        hit();
        Pt { x, y }
    });
    e.register_fn("make-other", |tag: i64| -> Other {
        hit();
        Other { tag }
    });
    e.register_fn("pt-sum", |p: Pt| -> i64 {
        hit();
        p.x + p.y
    });
    e.register_fn("pt-x", |p: &Pt| -> i64 {
        hit();
        p.x
    });
    e.register_fn("pt-set-x!", |p: &mut Pt, v: i64| -> i64 {
        hit();
        p.x = v;
        v
    });
    e.register_fn("pt-add", |p: &Pt, dx: i32, dy: u8| -> i64 {
        hit();
        p.x + p.y + dx as i64 + dy as i64
    });
    e.register_fn("pt-ar16", |p: &Pt, a1: i64, a2: i64, a3: i64, a4: i64, a5: i64, a6: i64, a7: i64, a8: i64, a9: i64, a10: i64, a11: i64, a12: i64, a13: i64, a14: i64, a15: i64| -> Vec<i64> {
        hit();
        vec![p.x, a1, a2, a3, a4, a5, a6, a7, a8, a9, a10, a11, a12, a13, a14, a15]
    });
    e.register_fn("pt-ar4!", |p: &mut Pt, a1: i64, a2: i64, a3: i64| -> Vec<i64> {
        hit();
        p.y = a3;
        vec![p.x, a1, a2, a3]
    });
    e.register_fn("pt-show", |p: Pt| -> String {
        hit();
        format!("{:?}", p)
    });
    // lending
    e.register_value("*ext*", SteelVal::Void);
    e.register_fn("ext-get", Ext::get);
    e.register_fn("ext-set!", Ext::set);
    e.register_fn("ext-peek", Ext::peek);
}

fn new_engine(prelude: &[String]) -> Engine {
    let mut e = Engine::new();
    register(&mut e);
    for u in prelude {
        if !u.trim().is_empty() {
            let _ = eval_unit(&mut e, u);
        }
    }
    e
}

fn ok_strs(v: Vec<String>) -> J {
    json!({ "ok": v })
}

fn res_json<T>(r: steel::rvals::Result<T>, show: impl Fn(T) -> String) -> J {
    match r {
        Ok(v) => ok_strs(vec![show(v)]),
        Err(err) => {
            let msg = err.to_string();
            json!({"err": err_class(&err), "msg": msg.lines().next().unwrap_or("").chars().take(300).collect::<String>()})
        }
    }
}

macro_rules! extract_arm {
    ($e:expr, $name:expr, $t:ty) => {
        res_json($e.extract::<$t>($name), |v| format!("{:?}", v))
    };
}

fn extract(e: &Engine, ty: &str, name: &str) -> J {
    match ty {
        "i8" => extract_arm!(e, name, i8),
        "i16" => extract_arm!(e, name, i16),
        "i32" => extract_arm!(e, name, i32),
        "i64" => extract_arm!(e, name, i64),
        "isize" => extract_arm!(e, name, isize),
        "u8" => extract_arm!(e, name, u8),
        "u16" => extract_arm!(e, name, u16),
        "u32" => extract_arm!(e, name, u32),
        "u64" => extract_arm!(e, name, u64),
        "usize" => extract_arm!(e, name, usize),
        "f64" => res_json(e.extract::<f64>(name), |v| format!("{:016x}", v.to_bits())),
        "f32" => res_json(e.extract::<f32>(name), |v| format!("{:08x}", v.to_bits())),
        "string" => extract_arm!(e, name, String),
        "char" => res_json(e.extract::<char>(name), |v| format!("{:x}", v as u32)),
        "bool" => extract_arm!(e, name, bool),
        "opt-i32" => extract_arm!(e, name, Option<i32>),
        "opt-u64" => extract_arm!(e, name, Option<u64>),
        "opt-bool" => extract_arm!(e, name, Option<bool>),
        "vec-i32" => extract_arm!(e, name, Vec<i32>),
        "vec-u8" => extract_arm!(e, name, Vec<u8>),
        "vec-u64" => extract_arm!(e, name, Vec<u64>),
        "pair" => extract_arm!(e, name, (i64, String)),
        "pt" => extract_arm!(e, name, Pt),
        "set" => res_json(e.extract::<HashSet<i64>>(name), |m| {
            let mut v: Vec<_> = m.into_iter().collect();
            v.sort();
            format!("{:?}", v)
        }),
        "map" => res_json(e.extract::<HashMap<String, i64>>(name), |m| {
            let mut v: Vec<_> = m.into_iter().collect();
            v.sort();
            format!("{:?}", v)
        }),
        _ => json!({"err": "Harness", "msg": format!("unknown type {}", ty)}),
    }
}

macro_rules! inject_arm {
    ($e:expr, $via:expr, $text:expr, $name:expr, $t:ty) => {{
        let v: $t = $text.parse::<$t>().expect("host parse");
        let sv = if $via == "from" { Ok(SteelVal::from(v)) } else { v.into_steelval() };
        match sv {
            Ok(sv) => {
                $e.register_value($name, sv);
                ok_strs(vec![])
            }
            Err(err) => json!({"err": err_class(&err), "msg": err.to_string()}),
        }
    }};
}

fn inject(e: &mut Engine, ty: &str, via: &str, text: &str, name: &str) -> J {
    match ty {
        "i8" => inject_arm!(e, via, text, name, i8),
        "i16" => inject_arm!(e, via, text, name, i16),
        "i32" => inject_arm!(e, via, text, name, i32),
        "i64" => inject_arm!(e, via, text, name, i64),
        "isize" => inject_arm!(e, via, text, name, isize),
        "u8" => inject_arm!(e, via, text, name, u8),
        "u16" => inject_arm!(e, via, text, name, u16),
        "u32" => inject_arm!(e, via, text, name, u32),
        "u64" => inject_arm!(e, via, text, name, u64),
        "usize" => inject_arm!(e, via, text, name, usize),
        "u128" => inject_arm!(e, via, text, name, u128),
        "opt-i64" => {
            let v: Option<i64> = if text == "none" { None } else { Some(text.parse().unwrap()) };
            let sv = if via == "from" { Ok(SteelVal::from(v)) } else { v.into_steelval() };
            e.register_value(name, sv.unwrap());
            ok_strs(vec![])
        }
        _ => json!({"err": "Harness", "msg": format!("unknown type {}", ty)}),
    }
}

fn main() {
    quiet_panics();
    let args: Vec<String> = std::env::args().collect();
    let mut prelude: Vec<String> = Vec::new();
    if let Some(i) = args.iter().position(|a| a == "--prelude") {
        let txt = std::fs::read_to_string(&args[i + 1]).expect("prelude file");
        prelude = txt.split("\n;;;;\n").map(|s| s.to_string()).collect();
    }
    let stdin = std::io::stdin();
    let stdout = std::io::stdout();
    let mut shared: Option<Engine> = None;
    for line in stdin.lock().lines() {
        let line = line.unwrap();
        if line.trim().is_empty() {
            continue;
        }
        let case: J = serde_json::from_str(&line).expect("bad case json");
        let fresh = case["fresh"].as_bool().unwrap_or(false);
        let mut local;
        let eng: &mut Engine = if fresh {
            local = new_engine(&prelude);
            &mut local
        } else {
            if shared.is_none() {
                shared = Some(new_engine(&prelude));
            }
            shared.as_mut().unwrap()
        };
        CALLS.store(0, Ordering::SeqCst);
        // the case's host object: boxed so that it has a stable address for the whole case
        let mut obj = Box::new(Ext { value: 10 });
        let mut res = Vec::new();
        let mut poisoned = false;
        for u in case["units"].as_array().unwrap() {
            let u = u.as_str().unwrap();
            let out: J = if let Some(rest) = u.strip_prefix("#!") {
                let (cmd, arg) = rest.split_once(' ').unwrap_or((rest, ""));
                let _ = take_panic();
                let r = std::panic::catch_unwind(std::panic::AssertUnwindSafe(|| match cmd {
                    "extract" => {
                        let (ty, name) = arg.split_once(' ').unwrap();
                        extract(eng, ty, name)
                    }
                    "inject" => {
                        let p: Vec<&str> = arg.splitn(4, ' ').collect();
                        inject(eng, p[0], p[1], p[2], p[3])
                    }
                    "lend" => {
                        let r = eng.run_with_reference::<Ext, Ext>(&mut obj, "*ext*", arg);
                        res_json(r, |v| canon(&v))
                    }
                    "lendro" => {
                        let script = arg.to_string();
                        let r = eng.run_thunk_with_ro_reference::<Ext, Ext>(&obj, |engine, value| {
                            engine.update_value("*ext*", value);
                            let r = engine.compile_and_run_raw_program(script.clone());
                            engine.update_value("*ext*", SteelVal::Void);
                            r.map(|x| x.into_iter().next().unwrap_or(SteelVal::Void))
                        });
                        res_json(r, |v| canon(&v))
                    }
                    "extval" => ok_strs(vec![format!("I{}", obj.value)]),
                    "calls" => ok_strs(vec![format!("I{}", CALLS.load(Ordering::SeqCst))]),
                    _ => json!({"err": "Harness", "msg": format!("unknown directive {}", cmd)}),
                }));
                match r {
                    Ok(j) => j,
                    Err(_) => {
                        poisoned = true;
                        json!({"panic": take_panic()})
                    }
                }
            } else {
                let o = eval_unit(eng, u);
                if let Outcome::Panic(_) = o {
                    poisoned = true;
                }
                outcome_json(&o)
            };
            res.push(out);
            if poisoned {
                break;
            }
        }
        if poisoned && !fresh {
            shared = None;
        }
        let mut out = stdout.lock();
        // same framing as evalsrv: protocol records are introduced by a marker line
        write!(out, "\n@@VERIF@@ {}\n", json!({"id": case["id"], "res": res})).unwrap();
        out.flush().unwrap();
    }
}
