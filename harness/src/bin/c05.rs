//! C05 harness: drives 1-3 real OS threads through operation lists on ONE shared `BiasedRc` value
//! under the baton scheduler of steel-rc's `verif` module (hook H1).
//!
//! stdin : one JSON case per line
//!   {"id":7,"n":3,"creator":0,"registered":[true,false,true],
//!    "ops":[["clone","send:1","drop"],["get_mut","drop"],[]],
//!    "schedule":[0,0,1,...],"seed":null,"max_steps":4000}
//!   operations: clone | drop | send:K | get_mut | make_mut | unwrap | read | count | merge | register |
//!               exit (drop everything held, finish_thread_merge, thread ends) |
//!               die  (drop everything held, thread ends without merging)
//! stdout: one JSON line per case
//!   {"id":7,"res":[["clone:ok",...],...],"held":[1,0,0],"drops":1,"deallocs":1,
//!    "reports":[{"t":0,"what":"meta"}],"bad":["..."],"trace":[[0,1],[0,10],...],"skipped":3,
//!    "aborted":false}
//! `bad` lists property-level failures seen by the harness itself, independent of any model:
//! a quarantine report (access to / second deallocation of a destroyed box), a payload found
//! destroyed by a reader holding a reference, a destructor that ran more than once, exclusive access
//! or unwrap granted while other references were alive.
use serde_json::{json, Value};
use std::io::{BufRead, Write};
use std::sync::atomic::{AtomicBool, AtomicIsize, AtomicUsize, Ordering};
use std::sync::{Arc, Barrier, Mutex};
use steel_rc::{verif, BiasedRc, QueueHandle};

const ALIVE: u64 = 0x5EE1_A11E;
const DEADBEEF: u64 = 0xDEAD_DEAD;

static DROPS: AtomicUsize = AtomicUsize::new(0);

struct Payload {
    magic: u64,
    writes: u64,
    /// 0 for the value under test; copies made by make_mut are other values and are not counted
    copy: u32,
}

impl Drop for Payload {
    fn drop(&mut self) {
        if self.copy == 0 {
            DROPS.fetch_add(1, Ordering::SeqCst);
        }
        self.magic = DEADBEEF;
    }
}

impl Clone for Payload {
    fn clone(&self) -> Self {
        Payload { magic: ALIVE, writes: self.writes, copy: self.copy + 1 }
    }
}

type Ref = BiasedRc<Payload>;

struct Shared {
    n: usize,
    inbox: Vec<Mutex<Vec<Ref>>>,
    dead: Vec<AtomicBool>,
    live: AtomicIsize,
    bad: Mutex<Vec<String>>,
    held_final: Vec<AtomicUsize>,
}

fn worker(i: usize, sh: Arc<Shared>, ops: Vec<String>, registered: bool, creator: bool,
          ready: Arc<Barrier>, go: Arc<(Mutex<Option<bool>>, std::sync::Condvar)>, created: Arc<Barrier>) -> Vec<String> {
    verif::attach(i);
    ready.wait();
    // wait for the verdict on the queue shards
    let proceed = {
        let (m, cv) = &*go;
        let mut g = m.lock().unwrap();
        while g.is_none() {
            g = cv.wait(g).unwrap();
        }
        g.unwrap()
    };
    if !proceed {
        verif::detach();
        return vec![];
    }
    verif::detach();
    if registered {
        steel_rc::register_thread();
    }
    let mut refs: Vec<Ref> = Vec::new();
    if creator {
        refs.push(BiasedRc::new(Payload { magic: ALIVE, writes: 0, copy: 0 }));
        sh.live.fetch_add(1, Ordering::SeqCst);
    }
    verif::attach(i);
    created.wait();
    let mut out = Vec::new();
    let res = std::panic::catch_unwind(std::panic::AssertUnwindSafe(|| {
        let mut k = 0;
        let mut spins = 0usize;
        while k < ops.len() {
            verif::yield_point(verif::site::OP);
            refs.append(&mut sh.inbox[i].lock().unwrap());
            let op = ops[k].as_str();
            k += 1;
            match op {
                "clone" => {
                    if let Some(r) = refs.last() {
                        let c = r.clone();
                        sh.live.fetch_add(1, Ordering::SeqCst);
                        refs.push(c);
                        out.push("clone:ok".to_string());
                    } else {
                        out.push("clone:na".to_string());
                    }
                }
                "drop" => {
                    if let Some(r) = refs.pop() {
                        sh.live.fetch_sub(1, Ordering::SeqCst);
                        drop(r);
                        out.push("drop:ok".to_string());
                    } else {
                        out.push("drop:na".to_string());
                    }
                }
                "get_mut" => {
                    if let Some(r) = refs.last_mut() {
                        match BiasedRc::get_mut(r) {
                            Some(p) => {
                                p.writes += 1;
                                let live = sh.live.load(Ordering::SeqCst);
                                if live != 1 {
                                    sh.bad.lock().unwrap().push(format!(
                                        "thread {i}: get_mut returned Some while {live} references are alive"));
                                }
                                out.push("get_mut:some".to_string());
                            }
                            None => out.push("get_mut:none".to_string()),
                        }
                    } else {
                        out.push("get_mut:na".to_string());
                    }
                }
                "make_mut" => {
                    if let Some(r) = refs.last_mut() {
                        let before = BiasedRc::as_ptr(r);
                        let p = BiasedRc::make_mut(r);
                        p.writes += 1;
                        let after = BiasedRc::as_ptr(r);
                        if std::ptr::eq(before, after) {
                            let live = sh.live.load(Ordering::SeqCst);
                            if live != 1 {
                                sh.bad.lock().unwrap().push(format!(
                                    "thread {i}: get_mut returned Some while {live} references are alive (make_mut kept the value)"));
                            }
                            out.push("make_mut:unique".to_string());
                        } else {
                            // this reference was dropped and replaced by a reference to a fresh copy,
                            // which is a different value: set it aside
                            sh.live.fetch_sub(1, Ordering::SeqCst);
                            let fresh = refs.pop().unwrap();
                            std::mem::forget(fresh);
                            out.push("make_mut:cloned".to_string());
                        }
                    } else {
                        out.push("make_mut:na".to_string());
                    }
                }
                "unwrap" => {
                    if let Some(r) = refs.pop() {
                        match BiasedRc::try_unwrap(r) {
                            Ok(p) => {
                                let live = sh.live.fetch_sub(1, Ordering::SeqCst) - 1;
                                if live != 0 {
                                    sh.bad.lock().unwrap().push(format!(
                                        "thread {i}: try_unwrap returned Ok while {live} other references are alive"));
                                }
                                if p.magic != ALIVE {
                                    sh.bad.lock().unwrap().push(format!("thread {i}: unwrapped a destroyed payload"));
                                }
                                drop(p);
                                out.push("unwrap:ok".to_string());
                            }
                            Err(r) => {
                                refs.push(r);
                                out.push("unwrap:err".to_string());
                            }
                        }
                    } else {
                        out.push("unwrap:na".to_string());
                    }
                }
                "read" => {
                    if let Some(r) = refs.last() {
                        let p: &Payload = &**r;
                        if p.magic == ALIVE {
                            out.push("read:ok".to_string());
                        } else {
                            sh.bad.lock().unwrap().push(format!(
                                "thread {i}: a live reference reads a destroyed payload"));
                            out.push("read:ok".to_string());
                        }
                    } else {
                        out.push("read:na".to_string());
                    }
                }
                "count" => {
                    if let Some(r) = refs.last() {
                        out.push(format!("count:{}", BiasedRc::strong_count(r) as i64));
                    } else {
                        out.push("count:na".to_string());
                    }
                }
                "merge" => {
                    let m = QueueHandle::run_explicit_merge();
                    out.push(format!("merge:{m}"));
                }
                "register" => {
                    steel_rc::register_thread();
                    out.push("register:ok".to_string());
                }
                "exit" | "die" => {
                    if let Some(r) = refs.pop() {
                        // a thread that ends drops what it still holds, one reference per step
                        sh.live.fetch_sub(1, Ordering::SeqCst);
                        drop(r);
                        out.push("drop:ok".to_string());
                        k -= 1;
                    } else {
                        if op == "exit" {
                            QueueHandle::finish_thread_merge();
                        }
                        sh.dead[i].store(true, Ordering::SeqCst);
                        out.push(format!("{op}:ok"));
                        break;
                    }
                }
                _ if op.starts_with("await:") => {
                    // wait (one scheduled step per look) until this thread holds at least K references
                    let want: usize = op[6..].parse().unwrap_or(0);
                    if refs.len() >= want {
                        out.push("await:ok".to_string());
                    } else {
                        spins += 1;
                        if spins > 100_000 {
                            out.push("await:timeout".to_string());
                            break;
                        }
                        k -= 1;
                    }
                }
                _ if op.starts_with("send:") => {
                    let to: usize = op[5..].parse().unwrap_or(usize::MAX);
                    if to < sh.n && to != i && !sh.dead[to].load(Ordering::SeqCst) && !refs.is_empty() {
                        let r = refs.pop().unwrap();
                        sh.inbox[to].lock().unwrap().push(r);
                        out.push("send:ok".to_string());
                    } else {
                        out.push("send:na".to_string());
                    }
                }
                _ => out.push("?".to_string()),
            }
        }
    }));
    if let Err(e) = res {
        let msg = e.downcast_ref::<String>().cloned()
            .or_else(|| e.downcast_ref::<&str>().map(|s| s.to_string()))
            .unwrap_or_default();
        out.push(format!("panic:{msg}"));
    }
    sh.held_final[i].store(refs.len(), Ordering::SeqCst);
    // whatever is still held is deliberately leaked: no reference-count operation runs outside
    // the schedule
    for r in refs.drain(..) {
        std::mem::forget(r);
    }
    verif::finish();
    out
}

fn run_case(case: &Value) -> Value {
    let n = case["n"].as_u64().unwrap_or(1) as usize;
    let creator = case["creator"].as_u64().unwrap_or(0) as usize;
    let ops: Vec<Vec<String>> = (0..n)
        .map(|i| case["ops"][i].as_array().map(|a| a.iter().map(|x| x.as_str().unwrap_or("").to_string()).collect()).unwrap_or_default())
        .collect();
    let registered: Vec<bool> = (0..n).map(|i| case["registered"][i].as_bool().unwrap_or(false)).collect();
    let schedule: Vec<u8> = case["schedule"].as_array().map(|a| a.iter().map(|x| x.as_u64().unwrap_or(0) as u8).collect()).unwrap_or_default();
    let seed = case["seed"].as_u64();
    let max_steps = case["max_steps"].as_u64().unwrap_or(20000) as usize;

    let drops0 = DROPS.load(Ordering::SeqCst);
    let deallocs0 = verif::dealloc_count();
    let _ = verif::take_reports();

    let mut attempts = 0;
    loop {
        attempts += 1;
        verif::reset_queues();
        verif::install(n, schedule.clone(), seed, max_steps);
        let sh = Arc::new(Shared {
            n,
            inbox: (0..n).map(|_| Mutex::new(Vec::new())).collect(),
            dead: (0..n).map(|_| AtomicBool::new(false)).collect(),
            live: AtomicIsize::new(0),
            bad: Mutex::new(Vec::new()),
            held_final: (0..n).map(|_| AtomicUsize::new(0)).collect(),
        });
        let ready = Arc::new(Barrier::new(n + 1));
        let created = Arc::new(Barrier::new(n));
        let go = Arc::new((Mutex::new(None), std::sync::Condvar::new()));
        let hs: Vec<_> = (0..n)
            .map(|i| {
                let (sh, ops, ready, go, created) = (sh.clone(), ops[i].clone(), ready.clone(), go.clone(), created.clone());
                let reg = registered[i];
                std::thread::spawn(move || worker(i, sh, ops, reg, i == creator, ready, go, created))
            })
            .collect();
        ready.wait();
        let distinct = verif::queue_shards_distinct();
        {
            let (m, cv) = &*go;
            *m.lock().unwrap() = Some(distinct || attempts > 50);
            cv.notify_all();
        }
        if !(distinct || attempts > 50) {
            // keep the rejected threads alive until the next set exists so that the new threads
            // get different thread-local addresses
            std::thread::spawn(move || {
                std::thread::sleep(std::time::Duration::from_millis(200));
                for h in hs {
                    let _ = h.join();
                }
            });
            continue;
        }
        let outcome = verif::run();
        let res: Vec<Vec<String>> = hs.into_iter().map(|h| h.join().unwrap_or_else(|_| vec!["panic:join".to_string()])).collect();
        // references parked in inboxes of threads that never picked them up
        let mut held: Vec<usize> = (0..n).map(|i| sh.held_final[i].load(Ordering::SeqCst)).collect();
        for i in 0..n {
            let mut b = sh.inbox[i].lock().unwrap();
            held[i] += b.len();
            for r in b.drain(..) {
                std::mem::forget(r);
            }
        }
        let reports = verif::take_reports();
        let drops = DROPS.load(Ordering::SeqCst) - drops0;
        let deallocs = verif::dealloc_count() - deallocs0;
        let mut bad = sh.bad.lock().unwrap().clone();
        for r in &reports {
            bad.push(format!("thread {:?}: {} on a destroyed box", r.thread, r.what));
        }
        if drops > 1 {
            bad.push(format!("the payload destructor ran {drops} times"));
        }
        if deallocs > 1 {
            bad.push(format!("the box was deallocated {deallocs} times"));
        }
        let live: usize = held.iter().sum();
        if (drops > 0 || deallocs > 0) && live > 0 {
            bad.push(format!("the value was destroyed while {live} references are still held"));
        }
        return json!({
            "id": case["id"],
            "res": res,
            "held": held,
            "drops": drops,
            "deallocs": deallocs,
            "reports": reports.iter().map(|r| json!({"t": r.thread, "what": r.what})).collect::<Vec<_>>(),
            "bad": bad,
            "trace": outcome.trace.iter().map(|(t, s)| json!([t, s])).collect::<Vec<_>>(),
            "skipped": outcome.skipped,
            "aborted": outcome.aborted,
            "queue_len": outcome.queued.len(),
            "queue_creator": outcome.queued.iter().filter(|(_, k)| *k == Some(creator)).count(),
            "attempts": attempts,
        });
    }
}

fn main() {
    verif::quarantine(true);
    std::panic::set_hook(Box::new(|_| {}));
    let stdin = std::io::stdin();
    let stdout = std::io::stdout();
    for line in stdin.lock().lines() {
        let line = match line {
            Ok(l) => l,
            Err(_) => break,
        };
        if line.trim().is_empty() {
            continue;
        }
        let case: Value = match serde_json::from_str(&line) {
            Ok(v) => v,
            Err(e) => {
                let mut o = stdout.lock();
                let _ = writeln!(o, "{}", json!({"error": e.to_string()}));
                continue;
            }
        };
        let r = run_case(&case);
        let mut o = stdout.lock();
        let _ = writeln!(o, "{}", r);
        let _ = o.flush();
    }
}
