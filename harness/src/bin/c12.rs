//! C12 harness: same line protocol as evalsrv ({"id","units":[..],"fresh"} -> {"id","res":[..]}), but each
//! unit is "<op>:<payload>":
//!   L:<text>   token stream of steel_parser::lexer::TokenStream up to and including the first error
//!              -> {"toks":[[kind,payload,start,end],...], "err":[kind,start,end]|null}
//!   R:<text>   what `read` does with one buffer (steel_vm/primitives.rs Reader::read_one_impl): repeatedly
//!              Parser::new_flat(rest).next(), converted with try_from_expr_kind_quoted
//!              -> {"data":[[canon,offset_end],...], "end": "eof"|["err",kind,start,end]}
//!   P:<text>   Parser::new(text, None) collected (lowering on): Ok/Err + span checks, then print_parse_ast:
//!              Display / to_pretty(60) of every expression re-parsed and compared modulo spans
//!              -> {"ok":n,"pp":"same"|"diff:..."|"reparse-err:..", ...} | {"err":[kind,start,end]}
//!   E:<src>    evaluate Steel source on the shared engine -> evalsrv outcome
//!   X:<src>    like E but on a throw-away engine state check: evaluates src, then the reader sentinel; if the
//!              sentinel does not read back, the shared engine is dropped ("poisoned":true)
//!   U:<hex>    bytes (hex) -> `(read (open-input-bytevector ..))`-free path: String::from_utf8 then R
//!   C:<cps>    comma separated code points -> for each: [escape_debug len<=2, is_whitespace]
//! Every span is checked against the text: start <= end <= len and both on char boundaries ("badspan" key).
use std::io::{BufRead, Write};
use std::panic::{catch_unwind, AssertUnwindSafe};
use steel::parser::tryfrom_visitor::TryFromExprKindForSteelVal;
use steel::steel_vm::engine::Engine;
use steel_parser::ast::ExprKind;
use steel_parser::lexer::{TokenError, TokenStream};
use steel_parser::parser::{ParseError, Parser};
use steel_parser::span::Span;
use steel_parser::tokens::{IntLiteral, NumberLiteral, Paren, ParenMod, RealLiteral, TokenType};
use steel_parser::visitors::Eraser;
use verif_harness::*;

fn span_ok(text: &str, s: Span) -> bool {
    let (a, b) = (s.start as usize, s.end as usize);
    a <= b && b <= text.len() && text.is_char_boundary(a) && text.is_char_boundary(b)
}

fn paren(p: &Paren) -> &'static str {
    match p {
        Paren::Round => "r",
        Paren::Square => "s",
        Paren::Curly => "c",
    }
}

fn int_lit(i: &IntLiteral) -> String {
    match i {
        IntLiteral::Small(x) => format!("{}", x),
        IntLiteral::Big(b) => format!("{}", b),
    }
}

fn real_lit(r: &RealLiteral) -> String {
    match r {
        RealLiteral::Int(i) => format!("int:{}", int_lit(i)),
        RealLiteral::Rational(n, d) => format!("rat:{}/{}", int_lit(n), int_lit(d)),
        RealLiteral::Float(_) => "float".to_string(),
    }
}

fn tok_json<S: std::fmt::Display>(t: &TokenType<S>) -> (String, String) {
    use TokenType::*;
    let k = |s: &str| (s.to_string(), String::new());
    match t {
        OpenParen(p, None) => ("open".into(), paren(p).into()),
        OpenParen(p, Some(ParenMod::Vector)) => ("open".into(), format!("{}v", paren(p))),
        OpenParen(p, Some(ParenMod::Bytes)) => ("open".into(), format!("{}b", paren(p))),
        CloseParen(p) => ("close".into(), paren(p).into()),
        QuoteTick => k("quotetick"),
        QuasiQuote => k("quasiquote"),
        Unquote => k("unquote"),
        UnquoteSplice => k("unquotesplice"),
        QuoteSyntax => k("quotesyntax"),
        QuasiQuoteSyntax => k("quasiquotesyntax"),
        UnquoteSyntax => k("unquotesyntax"),
        UnquoteSpliceSyntax => k("unquotesplicesyntax"),
        If => ("kw".into(), "if".into()),
        Define => ("kw".into(), "define".into()),
        Let => ("kw".into(), "let".into()),
        TestLet => ("kw".into(), "%plain-let".into()),
        Return => ("kw".into(), "return!".into()),
        Begin => ("kw".into(), "begin".into()),
        Lambda => ("kw".into(), "lambda".into()),
        Quote => ("kw".into(), "quote".into()),
        SyntaxRules => ("kw".into(), "syntax-rules".into()),
        DefineSyntax => ("kw".into(), "define-syntax".into()),
        Ellipses => ("kw".into(), "...".into()),
        Set => ("kw".into(), "set!".into()),
        Require => ("kw".into(), "require".into()),
        CharacterLiteral(c) => ("char".into(), format!("{}", *c as u32)),
        DatumComment => k("datumcomment"),
        Comment => k("comment"),
        BooleanLiteral(b) => ("bool".into(), if *b { "t".into() } else { "f".into() }),
        Identifier(s) => ("ident".into(), format!("{}", s)),
        Keyword(s) => ("keyword".into(), format!("{}", s)),
        Number(n) => (
            "num".into(),
            match n.resolve() {
                NumberLiteral::Real(r) => real_lit(&r),
                NumberLiteral::Complex(..) => "complex".into(),
                NumberLiteral::Polar(..) => "polar".into(),
            },
        ),
        StringLiteral(s) => ("str".into(), format!("{}", s)),
        Dot => k("dot"),
    }
}

fn tokerr_kind(e: &TokenError) -> &'static str {
    match e {
        TokenError::UnexpectedChar(_) => "UnexpectedChar",
        TokenError::IncompleteString => "IncompleteString",
        TokenError::IncompleteIdentifier => "IncompleteIdentifier",
        TokenError::IncompleteComment => "IncompleteComment",
        TokenError::InvalidWhitespace => "InvalidWhitespace",
        TokenError::InvalidStringEscape(_) => "InvalidStringEscape",
        TokenError::InvalidCharacter => "InvalidCharacter",
        TokenError::ZeroDenominator => "ZeroDenominator",
        TokenError::UnclosedHexEscape(_) => "UnclosedHexEscape",
        TokenError::InvalidCharName => "InvalidCharName",
        TokenError::InvalidHexEscapeLiteral(_) => "InvalidHexEscapeLiteral",
        TokenError::InvalidHexCodePoint(_) => "InvalidHexCodePoint",
    }
}

fn lex(text: &str) -> J {
    let mut toks = Vec::new();
    let mut err = J::Null;
    let mut bad = Vec::new();
    for t in TokenStream::new(text, false, None) {
        match t {
            Ok(t) => {
                if !span_ok(text, t.span) {
                    bad.push(json!([t.span.start, t.span.end]));
                }
                let (k, p) = tok_json(&t.ty);
                toks.push(json!([k, p, t.span.start, t.span.end]));
            }
            Err(e) => {
                if !span_ok(text, e.span) {
                    bad.push(json!([e.span.start, e.span.end]));
                }
                err = json!([tokerr_kind(&e.ty), e.span.start, e.span.end]);
                break;
            }
        }
    }
    let mut o = json!({"toks": toks, "err": err});
    if !bad.is_empty() {
        o["badspan"] = J::Array(bad);
    }
    o
}

fn perr_kind(e: &ParseError) -> &'static str {
    match e {
        ParseError::MismatchedParen(..) => "MismatchedParen",
        ParseError::UnexpectedEOF(..) => "UnexpectedEOF",
        ParseError::UnexpectedChar(..) => "UnexpectedChar",
        ParseError::SyntaxError(..) => "SyntaxError",
        ParseError::ArityMismatch(..) => "ArityMismatch",
    }
}

/// What `read` sees: one datum at a time with a fresh flat parser on the rest of the buffer.
fn read_all(text: &str) -> J {
    let mut data = Vec::new();
    let mut bad = Vec::new();
    let mut off = 0usize;
    let end;
    loop {
        let Some(rest) = text.get(off..) else {
            end = json!("badoffset");
            break;
        };
        let mut p = Parser::new_flat(rest, None);
        match p.next() {
            None => {
                end = json!("eof");
                break;
            }
            Some(Err(e)) => {
                let s = e.span();
                if !span_ok(rest, s) {
                    bad.push(json!([s.start, s.end]));
                }
                end = json!(["err", perr_kind(&e), s.start as usize + off, s.end as usize + off]);
                break;
            }
            Some(Ok(x)) => {
                let s = x.span();
                if !span_ok(rest, s) {
                    bad.push(json!([s.start, s.end]));
                }
                let o = p.offset();
                let v = TryFromExprKindForSteelVal::try_from_expr_kind_quoted(x);
                let c = match v {
                    Ok(v) => canon(&v),
                    Err(e) => format!("<convert-error {:?}>", e.kind()),
                };
                off += o;
                data.push(json!([c, off]));
                if o == 0 || data.len() > 10000 {
                    end = json!("stuck");
                    break;
                }
            }
        }
    }
    let mut o = json!({"data": data, "end": end});
    if !bad.is_empty() {
        o["badspan"] = J::Array(bad);
    }
    o
}

fn erased(mut v: Vec<ExprKind>) -> Vec<ExprKind> {
    Eraser.visit_many(&mut v);
    v
}

fn parse_full(text: &str) -> J {
    let r: Result<Vec<ExprKind>, ParseError> = Parser::new(text, None).collect();
    match r {
        Err(e) => {
            let s = e.span();
            let mut o = json!({"err": [perr_kind(&e), s.start, s.end]});
            if !span_ok(text, s) {
                o["badspan"] = json!([[s.start, s.end]]);
            }
            o
        }
        Ok(exprs) => {
            let mut bad = Vec::new();
            for x in &exprs {
                let s = x.span();
                if !span_ok(text, s) {
                    bad.push(json!([s.start, s.end]));
                }
            }
            let n = exprs.len();
            let shown: Vec<String> = exprs.iter().map(|x| x.to_string()).collect();
            let pretty: Vec<String> = exprs.iter().map(|x| x.to_pretty(60)).collect();
            let orig = erased(exprs);
            let mut pp = "same".to_string();
            for (how, texts) in [("display", &shown), ("pretty", &pretty)] {
                let joined = texts.join("\n");
                let again: Result<Vec<ExprKind>, ParseError> = Parser::new(&joined, None).collect();
                match again {
                    Err(e) => {
                        pp = format!("reparse-err:{}:{}", how, perr_kind(&e));
                        break;
                    }
                    Ok(a) => {
                        let a = erased(a);
                        if a != orig {
                            pp = format!("diff:{}", how);
                            break;
                        }
                    }
                }
            }
            let mut o = json!({"ok": n, "pp": pp, "printed": shown.join("\n")});
            if !bad.is_empty() {
                o["badspan"] = J::Array(bad);
            }
            o
        }
    }
}

fn guarded(f: impl FnOnce() -> J) -> J {
    let _ = take_panic();
    match catch_unwind(AssertUnwindSafe(f)) {
        Ok(j) => j,
        Err(_) => json!({"panic": take_panic()}),
    }
}

fn new_engine(prelude: &[String]) -> Engine {
    let mut e = Engine::new();
    for u in prelude {
        let _ = eval_unit(&mut e, u);
    }
    e
}

const SENTINEL: &str = "(symbol->string (read (open-input-string \"c12-sentinel\")))";

fn main() {
    quiet_panics();
    let args: Vec<String> = std::env::args().collect();
    let mut prelude: Vec<String> = Vec::new();
    if let Some(i) = args.iter().position(|a| a == "--prelude") {
        let txt = std::fs::read_to_string(&args[i + 1]).expect("prelude file");
        prelude = txt.split("\n;;;;\n").filter(|s| !s.trim().is_empty()).map(|s| s.to_string()).collect();
    }
    let stdin = std::io::stdin();
    let stdout = std::io::stdout();
    let mut shared: Option<Engine> = None;
    for line in stdin.lock().lines() {
        let line = line.unwrap();
        if line.trim().is_empty() {
            continue;
        }
        let case: J = serde_json::from_str(&line).expect("bad case json");
        let mut res = Vec::new();
        for u in case["units"].as_array().unwrap() {
            let u = u.as_str().unwrap();
            let (op, payload) = u.split_at(2.min(u.len()));
            let r = match op {
                "L:" => guarded(|| lex(payload)),
                "R:" => guarded(|| read_all(payload)),
                "P:" => guarded(|| parse_full(payload)),
                "U:" => {
                    let bytes: Vec<u8> = (0..payload.len() / 2)
                        .map(|i| u8::from_str_radix(&payload[2 * i..2 * i + 2], 16).unwrap_or(0))
                        .collect();
                    match String::from_utf8(bytes) {
                        Ok(s) => guarded(|| read_all(&s)),
                        Err(_) => json!({"invalid_utf8": true}),
                    }
                }
                "C:" => {
                    let v: Vec<J> = payload
                        .split(',')
                        .filter_map(|x| x.trim().parse::<u32>().ok())
                        .map(|n| match char::from_u32(n) {
                            Some(c) => json!([c.escape_debug().len() <= 2, c.is_whitespace()]),
                            None => J::Null,
                        })
                        .collect();
                    json!({"chars": v})
                }
                "E:" | "X:" => {
                    if shared.is_none() {
                        shared = Some(new_engine(&prelude));
                    }
                    let eng = shared.as_mut().unwrap();
                    let o = eval_unit(eng, payload);
                    let mut j = outcome_json(&o);
                    let mut drop_engine = matches!(o, Outcome::Panic(_));
                    if op == "X:" && !drop_engine {
                        let s = eval_unit(eng, SENTINEL);
                        let clean = matches!(&s, Outcome::Ok(v) if v.last().map(canon) == Some("\"c12-sentinel\"".to_string()));
                        if !clean {
                            j["poisoned"] = json!(true);
                            drop_engine = true;
                        }
                    }
                    if drop_engine {
                        shared = None;
                    }
                    j
                }
                _ => json!({"badop": op}),
            };
            res.push(r);
        }
        let mut out = stdout.lock();
        // same framing as evalsrv: a marker line precedes every record (script output may share stdout)
        write!(out, "\n@@VERIF@@ {}\n", json!({"id": case["id"], "res": res})).unwrap();
        out.flush().unwrap();
    }
}
