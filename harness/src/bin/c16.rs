//! C15/C16 runner: evaluates the units of ONE case on a fresh engine on a worker thread while a
//! watchdog (this thread) samples the hook's progress counters (steel_vm::verif::progress()).
//!
//! stdin : one JSON object {"units": [src, ...]}
//! args  : --stall S  (no counter moved for S seconds => hang)   --limit S (hard wall limit)
//! stdout: one line  "@@C16@@ {json}" with
//!   {"res": [unit outcomes], "hang": null | {"why","after_s","progress"}, "events": [...],
//!    "violations": n, "progress": {...}, "wall_ms": n}
//! exit code 0 = finished, 3 = hang detected (threads are abandoned; the process exits).
use std::io::Read;
use std::sync::mpsc;
use std::time::{Duration, Instant};
use steel::steel_vm::engine::Engine;
use steel::steel_vm::verif;
use verif_harness::*;

fn prog_json(p: &verif::Progress) -> J {
    json!({
        "threads": p.threads.iter().map(|(d, s)| json!([d, s])).collect::<Vec<_>>(),
        "stw_started": p.stw_started, "stw_finished": p.stw_finished,
        "scans_started": p.scans_started, "scans_finished": p.scans_finished,
        "violations": p.violations, "total": p.total(),
    })
}

fn main() {
    quiet_panics();
    let args: Vec<String> = std::env::args().collect();
    let getf = |name: &str, dflt: f64| -> f64 {
        args.iter()
            .position(|a| a == name)
            .and_then(|i| args.get(i + 1))
            .and_then(|s| s.parse().ok())
            .unwrap_or(dflt)
    };
    let stall = getf("--stall", 30.0);
    let limit = getf("--limit", 600.0);
    let mut txt = String::new();
    std::io::stdin().read_to_string(&mut txt).unwrap();
    let case: J = serde_json::from_str(&txt).expect("bad case json");
    let units: Vec<String> = case["units"]
        .as_array()
        .unwrap()
        .iter()
        .map(|u| u.as_str().unwrap().to_string())
        .collect();

    let (tx, rx) = mpsc::channel::<Vec<J>>();
    let t0 = Instant::now();
    std::thread::Builder::new()
        .stack_size(64 << 20)
        .spawn(move || {
            let mut e = Engine::new();
            let mut res = Vec::new();
            for u in &units {
                let o = eval_unit(&mut e, u);
                let stop = matches!(o, Outcome::Panic(_));
                res.push(outcome_json(&o));
                if stop {
                    break;
                }
            }
            let _ = tx.send(res);
            // keep the engine alive until the process exits (dropping it is not under test)
            std::mem::forget(e);
        })
        .unwrap();

    let mut last_total = verif::progress().total();
    let mut last_change = Instant::now();
    let (res, hang): (Vec<J>, J) = loop {
        match rx.recv_timeout(Duration::from_millis(50)) {
            Ok(r) => break (r, J::Null),
            Err(mpsc::RecvTimeoutError::Disconnected) => {
                break (vec![json!({"panic": "worker thread died"})], J::Null)
            }
            Err(mpsc::RecvTimeoutError::Timeout) => {}
        }
        let p = verif::progress();
        let tot = p.total();
        if tot != last_total {
            last_total = tot;
            last_change = Instant::now();
        }
        let stalled = last_change.elapsed().as_secs_f64();
        let wall = t0.elapsed().as_secs_f64();
        if stalled > stall {
            break (
                vec![],
                json!({"why": "no progress counter moved", "after_s": stalled, "progress": prog_json(&p)}),
            );
        }
        if wall > limit {
            break (
                vec![],
                json!({"why": "wall limit", "after_s": wall, "progress": prog_json(&p)}),
            );
        }
    };
    let p = verif::progress();
    let out = json!({
        "res": res,
        "hang": hang,
        "events": verif::take_events(),
        "violations": p.violations,
        "progress": prog_json(&p),
        "wall_ms": t0.elapsed().as_millis() as u64,
    });
    println!("@@C16@@ {}", out);
    use std::io::Write;
    std::io::stdout().flush().unwrap();
    std::process::exit(if out["hang"].is_null() { 0 } else { 3 });
}
