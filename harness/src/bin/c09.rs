//! c09: evaluation server like `evalsrv` (same protocol, same framing) that also reports the resident
//! set of this process after every unit: each entry of "res" gets "rss_kb" (VmRSS) and "hwm_kb" (VmHWM)
//! read from /proc/self/status.  A fresh engine per case.
use std::io::{BufRead, Write};
use steel::steel_vm::engine::Engine;
use verif_harness::*;

fn mem_kb() -> (u64, u64) {
    let s = std::fs::read_to_string("/proc/self/status").unwrap_or_default();
    let get = |k: &str| -> u64 {
        s.lines()
            .find(|l| l.starts_with(k))
            .and_then(|l| l.split_whitespace().nth(1))
            .and_then(|x| x.parse().ok())
            .unwrap_or(0)
    };
    (get("VmRSS:"), get("VmHWM:"))
}

fn main() {
    quiet_panics();
    let args: Vec<String> = std::env::args().collect();
    let mut prelude: Vec<String> = Vec::new();
    if let Some(i) = args.iter().position(|a| a == "--prelude") {
        let txt = std::fs::read_to_string(&args[i + 1]).expect("prelude file");
        prelude = txt.split("\n;;;;\n").map(|s| s.to_string()).collect();
    }
    let stdin = std::io::stdin();
    let stdout = std::io::stdout();
    for line in stdin.lock().lines() {
        let line = line.unwrap();
        if line.trim().is_empty() {
            continue;
        }
        let case: J = serde_json::from_str(&line).expect("bad case json");
        let mut eng = Engine::new();
        for u in &prelude {
            let _ = eval_unit(&mut eng, u);
        }
        let mut res = Vec::new();
        for u in case["units"].as_array().unwrap() {
            let o = eval_unit(&mut eng, u.as_str().unwrap());
            let mut j = outcome_json(&o);
            let (rss, hwm) = mem_kb();
            j["rss_kb"] = json!(rss);
            j["hwm_kb"] = json!(hwm);
            let stop = matches!(o, Outcome::Panic(_));
            res.push(j);
            if stop {
                break;
            }
        }
        let mut out = stdout.lock();
        write!(out, "\n@@VERIF@@ {}\n", json!({"id": case["id"], "res": res})).unwrap();
        out.flush().unwrap();
    }
}
