"""C01 — compiled execution agrees with the reference semantics (DESIGN.md section 4, C01)."""
import json
import os

from checks import common, lang


def engine_render(res):
    """Render the engine's per-unit outcomes in the format of Lang.render_history."""
    lines = []
    out = ""
    for r in res:
        if "out" in r:
            out = r["out"]
        elif "ok" in r:
            lines.append("OK " + " | ".join(v for v in r["ok"] if v != "#<void>"))
        elif "err" in r:
            lines.append("ERR " + r["err"])
        elif "panic" in r:
            lines.append("PANIC " + r["panic"])
        elif "crash" in r:
            lines.append("CRASH %s" % r["crash"])
        elif "hang" in r:
            lines.append("HANG")
    out = out.replace("\\", "\\\\").replace("\n", "\\n").replace("\r", "\\r")
    return " ;; ".join(lines) + " ;; OUT " + out


def compare(ck, histories, env=None, fuel=400000):
    """Run histories (list of list of units) on engine and model; return list of (engine, model) strings."""
    cases = [[lang.unit_to_steel(u) for u in h] for h in histories]
    eng = ck.eval_cases(cases, fresh=True, env=env, batch=16, timeout_per_batch=90)
    mod = ck.coq_eval(lang.COQ_HEADER, [lang.model_expr(h, fuel) for h in histories], shard=25)
    return [(engine_render(e), m) for e, m in zip(eng, mod)]


def shrink_case(ck, prog, env=None):
    """Minimise a disagreeing program (the disagreement must persist; out-of-fuel never counts)."""
    def fails(cands):
        res = compare(ck, [[c] for c in cands], env=env)
        # never drift into the static free-identifier check (the engine does not report free identifiers in
        # code its optimiser removed; the generators never produce free identifiers)
        return [e != m and "FUEL" not in m and "HANG" not in e and "FreeIdentifier" not in m and "FreeIdentifier" not in e
                for e, m in res]
    try:
        return lang.shrink(prog, fails)
    except Exception as ex:   # shrinking is best effort
        ck.log("shrink failed: %s" % ex)
        return prog


def run(ck):
    ck.cov["trusted_base"] = [
        "Coq 8.16.1 kernel, coqc; vm_compute for model evaluation",
        "reference semantics coq/lib/Lang.v (hand written: the 'direct reading' oracle)",
        "correspondence harness (evalsrv), renderers checks/lang.py (AST -> Steel text, AST -> Coq term)",
    ]
    proved = ck.proof_stage(["c01", "lib"], ["c01/Reference_C01"], "c01/Pins_C01ref.v")
    import os
    if os.path.exists(os.path.join(common.COQ, "c01", "Pins_C01.v")):
        # simulation theorems for the model compiler / VM (core fragment)
        proved = ck.proof_stage(["c01"], ["c01/Properties_C01"], "c01/Pins_C01.v") and proved
    ck.harness_build(["evalsrv"])
    g = lang.Gen(ck.rng)
    n = 200 if ck.tier == "quick" else 5000
    progs = [g.program() for _ in range(n)]
    res = compare(ck, [[p] for p in progs])
    nontrivial = set()
    for p, (e, m) in zip(progs, res):
        ck.cov["evaluations"] += 1
        src = lang.unit_to_steel(p)
        case = {"program": src, "engine": e, "reference": m}
        if "FUEL" in m:
            ck.cov["out_of_fuel"] = ck.cov.get("out_of_fuel", 0) + 1
            continue
        nontrivial.add(m)
        if ck.cov["evaluations"] % 40 == 1:
            ck.sample(case)
        if e != m:
            small = shrink_case(ck, p)
            (e2, m2), = compare(ck, [[small]])
            case = {"program": lang.unit_to_steel(small), "engine": e2, "reference": m2, "original_program": src}
            ck.failing_input("engine and reference semantics differ", case, tag="sem")
    ck.cov["distinct_nontrivial"] = len(nontrivial)
    ck.cov["rule"] = "type-directed random programs (checks/lang.py Gen); distinct = distinct reference outcomes (values+output+error class)"
    ck.cov["construct_histogram"] = g.stats
    if not proved and not ck.violations:
        ck.unproved()
