"""C01 — compiled execution agrees with the reference semantics (DESIGN.md section 4, C01)."""
import json
import os

from checks import common, lang


def engine_render(res):
    """Render the engine's per-unit outcomes in the format of Lang.render_history."""
    lines = []
    out = ""
    for r in res:
        if "out" in r:
            out = r["out"]
        elif "ok" in r:
            lines.append("OK " + " | ".join(v for v in r["ok"] if v != "#<void>"))
        elif "err" in r:
            lines.append("ERR " + r["err"])
        elif "panic" in r:
            lines.append("PANIC " + r["panic"])
        elif "crash" in r:
            lines.append("CRASH %s" % r["crash"])
        elif "hang" in r:
            lines.append("HANG")
    out = out.replace("\\", "\\\\").replace("\n", "\\n").replace("\r", "\\r")
    return " ;; ".join(lines) + " ;; OUT " + out


def compare(ck, histories, env=None, fuel=400000):
    """Run histories (list of list of units) on engine and model; return list of (engine, model) strings."""
    cases = [[lang.unit_to_steel(u) for u in h] for h in histories]
    eng = ck.eval_cases(cases, fresh=True, env=env, batch=16, timeout_per_batch=40)
    mod = ck.coq_eval(lang.COQ_HEADER, [lang.model_expr(h, fuel) for h in histories], shard=25)
    return [(engine_render(e), m) for e, m in zip(eng, mod)]


def native_abort_on_error(case, params):
    """Known-finding class (C07-K7 / DESIGN F21): with the JIT on, an ERROR raised below a natively compiled
    frame cannot unwind and aborts the host (rc -6); the same program with STEEL_JIT=false produces exactly
    the reference outcome, which is an error."""
    eng = case.get("engine", "")
    ref = case.get("reference") or case.get("core_semantics") or ""
    return ("CRASH" in eng and "-6" in eng and "ERR" in ref and case.get("engine_jit_off_agrees") is True)


def jit_off_agrees(ck, forms, reference, core=False):
    eng = ck.eval_cases([[lang.unit_to_steel(forms)]], fresh=True, env={"STEEL_JIT": "false"}, timeout_per_batch=40)
    if core:
        r = eng[0][0] if eng[0] else {}
        es = ("ERR " + r["err"]) if "err" in r else ("OK " + ([v for v in r.get("ok", []) if v != "#<void>"] or ["#<void>"])[-1]) if "ok" in r else "CRASH"
        return es == reference
    return engine_render(eng[0]) == reference


def shrink_case(ck, prog, env=None):
    """Minimise a disagreeing program (the disagreement must persist; out-of-fuel never counts)."""
    def fails(cands):
        res = compare(ck, [[c] for c in cands], env=env)
        # never drift into the static free-identifier check (the engine does not report free identifiers in
        # code its optimiser removed; the generators never produce free identifiers)
        return [e != m and "FUEL" not in m and "HANG" not in e and "FreeIdentifier" not in m and "FreeIdentifier" not in e
                for e, m in res]
    try:
        return lang.shrink(prog, fails)
    except Exception as ex:   # shrinking is best effort
        ck.log("shrink failed: %s" % ex)
        return prog


# ----------------------------------------------------------------------------- core fragment, three-way
class CoreGen:
    """Programs inside the fragment of coq/lib/Core.v: integer/boolean constants, variables, fixed-arity
    lambdas (first class), application, if, let, begin, integer primitives; defines first, one main."""

    def __init__(self, rng, assign=False):
        self.r = rng
        self.n = 0
        self.assign = assign    # include set! / named let / letrec / internal defines (CoreS fragment)
        self.funcs = {}     # name -> arity (int -> int functions)

    def fresh(self, b):
        self.n += 1
        return "%s%d" % (b, self.n)

    def e_int(self, d, env):
        r = self.r
        ints = [x for x, t in env.items() if t == "int"]
        if d <= 0 or r.random() < 0.15:
            return lang.V(r.choice(ints)) if ints and r.random() < 0.7 else lang.I(r.choice([0, 1, 2, 3, 5, -1, 7, 10]))
        k = r.random()
        if k < 0.3:
            return lang.A(r.choice(["+", "-", "*"]), self.e_int(d - 1, env), self.e_int(d - 1, env))
        if k < 0.42:
            return ("if", self.e_bool(d - 1, env), self.e_int(d - 1, env), self.e_int(d - 1, env))
        if k < 0.54:
            x = self.fresh("v")
            env2 = dict(env)
            env2[x] = "int"
            return ("let", [(x, self.e_int(d - 1, env))], [self.e_int(d - 1, env2)])
        if k < 0.66 and self.funcs:
            f = r.choice(list(self.funcs))
            return lang.A(f, *[self.e_int(d - 1, env) for _ in range(self.funcs[f])])
        if k < 0.76:
            # immediately applied / let-bound lambda capturing locals
            x = self.fresh("p")
            env2 = dict(env)
            env2[x] = "int"
            lam = ("lam", [x], None, [self.e_int(d - 1, env2)])
            if r.random() < 0.5:
                return ("app", lam, [self.e_int(d - 1, env)])
            f = self.fresh("h")
            return ("let", [(f, lam)], [lang.A("+", lang.A(f, self.e_int(d - 2, env)), lang.A(f, lang.I(1)))])
        if k < 0.84:
            # higher-order: pass a lambda to a lambda
            g, x = self.fresh("g"), self.fresh("x")
            env2 = dict(env)
            env2[x] = "int"
            return ("app", ("lam", [g], None, [lang.A(g, lang.A(g, self.e_int(d - 2, env)))]),
                    [("lam", [x], None, [self.e_int(d - 2, env2)])])
        if k < 0.86:
            return ("begin", [self.e_int(d - 1, env), self.e_int(d - 1, env)])
        if k < 0.915 and self.assign:
            kind = r.choice(["counter", "setlocal", "nlet", "letrec", "idef"])
            if kind == "counter":
                # a captured and assigned local: boxed by the engine
                c, inc = self.fresh("c"), self.fresh("inc")
                return ("let", [(c, self.e_int(d - 2, env))],
                        [("let", [(inc, ("lam", [], None, [("set", c, lang.A("+", lang.V(c), lang.I(r.choice([1, 2, 5])))), lang.V(c)]))],
                          [lang.A("+", lang.A(inc), lang.A(inc), lang.V(c))])])
            if kind == "setlocal":
                # assigned but never captured: set! returns the OLD value
                x = self.fresh("s")
                env2 = dict(env)
                env2[x] = "int"
                return ("let", [(x, self.e_int(d - 2, env))],
                        [lang.A("+", ("set", x, self.e_int(d - 2, env2)), lang.V(x))])
            if kind == "nlet":
                lp, i, acc = self.fresh("loop"), self.fresh("i"), self.fresh("acc")
                env2 = dict(env)
                env2[i] = "int"
                env2[acc] = "int"
                return ("nlet", lp, [(i, lang.I(r.choice([0, 1, 3, 6]))), (acc, self.e_int(d - 2, env))],
                        [("if", lang.A("<=", lang.V(i), lang.I(0)), lang.V(acc),
                          lang.A(lp, lang.A("-", lang.V(i), lang.I(1)), self.e_int(d - 2, env2)))])
            if kind == "letrec":
                ev, od, n = self.fresh("ev"), self.fresh("od"), self.fresh("n")
                return ("letrec", [(ev, ("lam", [n], None, [("if", lang.A("zero?", lang.V(n)), lang.I(1), lang.A(od, lang.A("-", lang.V(n), lang.I(1))))])),
                                   (od, ("lam", [n], None, [("if", lang.A("zero?", lang.V(n)), lang.I(0), lang.A(ev, lang.A("-", lang.V(n), lang.I(1))))]))],
                        [lang.A(ev, lang.I(r.choice([0, 1, 4, 7])))])
            y = self.fresh("d")
            env2 = dict(env)
            env2[y] = "int"
            return ("let", [], [("define", y, self.e_int(d - 2, env)), self.e_int(d - 1, env2)])
        if k < 0.94:
            # run-time errors: type, arity (through a variable), application of a non-procedure
            kind = r.choice(["type", "arity", "notproc"])
            if kind == "type":
                return lang.A("+", self.e_int(d - 1, env), ("bool", True))
            if kind == "arity":
                f = self.fresh("af")
                return ("let", [(f, ("lam", ["x"], None, [lang.V("x")]))], [lang.A(f)])
            return ("app", self.e_int(d - 1, env), [lang.I(1)])
        return self.e_int(d - 1, env)

    def e_bool(self, d, env):
        r = self.r
        k = r.random()
        if d <= 0 or k < 0.15:
            return ("bool", r.random() < 0.5)
        if k < 0.7:
            return lang.A(r.choice(["<", "<=", ">", ">=", "="]), self.e_int(d - 1, env), self.e_int(d - 1, env))
        if k < 0.85:
            return lang.A("not", self.e_bool(d - 1, env))
        return lang.A("zero?", self.e_int(d - 1, env))

    def program(self):
        r = self.r
        self.funcs = {}
        forms = []
        for _ in range(r.randint(0, 4)):
            f = self.fresh("f")
            ar = r.randint(1, 3)
            ps = [self.fresh("a") for _ in range(ar)]
            env = {p_: "int" for p_ in ps}
            kind = r.random()
            if kind < 0.4:
                # recursion over the first parameter: tail or non-tail
                rec = lang.A(f, lang.A("-", lang.V(ps[0]), lang.I(1)), *[self.e_int(1, env) for _ in ps[1:]])
                step = rec if r.random() < 0.5 else lang.A("+", self.e_int(1, env), rec)
                body = ("if", lang.A("<=", lang.V(ps[0]), lang.I(0)), self.e_int(2, env),
                        ("if", lang.A(">", lang.V(ps[0]), lang.I(40)), lang.I(0), step))
                self.funcs[f] = ar
            else:
                body = self.e_int(r.choice([2, 3]), env)
                self.funcs[f] = ar
            forms.append(("define", f, ("lam", ps, None, [body])))
        if self.assign and r.random() < 0.5 and self.funcs:
            # a global variable assigned by a function and read afterwards
            g = self.fresh("gv")
            f = self.fresh("bump")
            forms.append(("define", g, lang.I(r.choice([0, 3, 10]))))
            forms.append(("define", f, ("lam", ["k"], None, [("set", g, lang.A("+", lang.V(g), lang.V("k")))])))
            forms.append(lang.A("+", lang.A(f, lang.I(2)), lang.A(f, lang.I(5)), lang.V(g), self.e_int(2, {})))
            return forms
        forms.append(self.e_int(r.choice([2, 3, 4]), {}))
        return forms


CORE_HEADER = ("From SV Require Import lib.Lang lib.Core lib.Bytecode.\nFrom Coq Require Import ZArith List String Ascii.\n"
               "Import ListNotations.\nOpen Scope string_scope.\n")


def core_model_expr(forms, fuel=20000):
    unit = lang.cq_body(forms)
    return ('match Core.split_unit %s with '
            '| Some (ds, [m]) => (Core.render_result (Core.run_program %d ds m) ++ " / " ++ '
            'Bytecode.render_run (Bytecode.vm_program (N.to_nat 100000%%N) true true %d ds m))%%string '
            '| _ => "OUTSIDE"%%string end' % (unit, fuel, fuel * 40))


CORES_HEADER = ("From SV Require Import lib.Lang lib.Core lib.CoreS lib.Bytecode lib.BytecodeS.\n"
                "From Coq Require Import ZArith List String Ascii.\nImport ListNotations.\nOpen Scope string_scope.\n")


def cores_model_expr(forms, fuel=20000):
    unit = lang.cq_body(forms)
    return ('(S.unit_render_ref %d %s ++ " / " ++ S.unit_render_vm (N.to_nat 100000%%N) true true %d %s ++ " / " ++ '
            'S.unit_render_conv %d %s)%%string' % (fuel, unit, fuel * 40, unit, fuel, unit))


def three_way(ck, n, assign=False):
    """Engine vs big-step core semantics vs model compiler+VM (the two ends of the simulation theorem).
    assign=True: the assignment layer (CoreS reference with a store, boxing pass, heap VM)."""
    g = CoreGen(ck.rng, assign=assign)
    progs = [g.program() for _ in range(n)]
    eng = ck.eval_cases([[lang.unit_to_steel(p)] for p in progs], fresh=True, batch=16, timeout_per_batch=40)
    if assign:
        mod = ck.coq_eval(CORES_HEADER, [cores_model_expr(p) for p in progs], shard=25)
    else:
        mod = ck.coq_eval(CORE_HEADER, [core_model_expr(p) for p in progs], shard=25)
    agree = 0
    for p, e, m in zip(progs, eng, mod):
        r = e[0] if e else {}
        if "ok" in r:
            vals = [v for v in r["ok"] if v != "#<void>"]
            es = "OK " + (vals[-1] if vals else "#<void>")
        elif "err" in r:
            es = "ERR " + r["err"]
        else:
            es = "CRASH " + json.dumps(r)[:80]
        ck.cov["evaluations"] += 1
        if "FUEL" in m or m == "OUTSIDE" or "UNSUPPORTED" in m:
            ck.cov["core_skipped"] = ck.cov.get("core_skipped", 0) + 1
            continue
        parts = m.split(" / ")
        core, vm = parts[0], parts[1]
        case = {"program": lang.unit_to_steel(p), "engine": es, "core_semantics": core, "model_vm": vm}
        if len(parts) > 2 and parts[2] != core:
            # the boxing pass (assign_convert) is not covered by a theorem: a disagreement here is a model defect
            ck.violation("boxing pass changes the meaning in the model (seval vs beval o assign_convert)", {"case": case, "conv": parts[2]},
                         no_input=True, tag="conv")
        if core != vm:
            # the simulation theorem says this cannot happen: the executable definitions disagree
            ck.violation("model compiler/VM and core semantics disagree (contradicts C01_program_render)", {"case": case},
                         no_input=True, tag="sim")
        elif es != core:
            if "CRASH" in es:
                case["engine_jit_off_agrees"] = jit_off_agrees(ck, p, core, core=True)
            ck.failing_input("engine and core semantics differ on a core-fragment program", case, tag="core")
        else:
            agree += 1
    ck.cov["core_three_way_agree" + ("_assign" if assign else "")] = agree
    if progs:
        ck.sample({"core_program": lang.unit_to_steel(progs[0]), "model": mod[0]})


def run(ck):
    ck.cov["trusted_base"] = [
        "Coq 8.16.1 kernel, coqc; vm_compute for model evaluation",
        "reference semantics coq/lib/Lang.v (hand written: the 'direct reading' oracle)",
        "correspondence harness (evalsrv), renderers checks/lang.py (AST -> Steel text, AST -> Coq term)",
        "coq/lib/Core.v (big-step core semantics) and coq/lib/Bytecode.v (model compiler + VM): hand-written mirror of code_gen.rs / vm.rs for the core fragment",
    ]
    proved = ck.proof_stage(["c01", "lib"], ["c01/Reference_C01"], "c01/Pins_C01ref.v")
    import os
    if os.path.exists(os.path.join(common.COQ, "c01", "Pins_C01.v")):
        # simulation theorems for the model compiler / VM (core fragment)
        proved = ck.proof_stage(["c01"], ["c01/Properties_C01"], "c01/Pins_C01.v") and proved
    ck.harness_build(["evalsrv"])
    g = lang.Gen(ck.rng)
    n = 150 if ck.tier == "quick" else 5000
    progs = list(lang.CORPUS) + [g.program() for _ in range(n)]
    ck.cov["corpus_programs"] = len(lang.CORPUS)
    res = compare(ck, [[p] for p in progs])
    nontrivial = set()
    for p, (e, m) in zip(progs, res):
        ck.cov["evaluations"] += 1
        src = lang.unit_to_steel(p)
        case = {"program": src, "engine": e, "reference": m}
        if "FUEL" in m:
            ck.cov["out_of_fuel"] = ck.cov.get("out_of_fuel", 0) + 1
            continue
        nontrivial.add(m)
        if ck.cov["evaluations"] % 40 == 1:
            ck.sample(case)
        if e != m:
            if "CRASH" in e or "HANG" in e:
                ck.cov["crash_or_hang"] = ck.cov.get("crash_or_hang", 0) + 1
                if ck.cov["crash_or_hang"] > 6:
                    continue          # enough replays of this kind; the count is in evidence
                case["engine_jit_off_agrees"] = jit_off_agrees(ck, p, m)
                ck.failing_input("engine %s where the reference semantics gives %s"
                                 % ("crashed" if "CRASH" in e else "did not answer within the time limit", m[:60]), case, tag="sem")
                continue
            small = shrink_case(ck, p)
            (e2, m2), = compare(ck, [[small]])
            case = {"program": lang.unit_to_steel(small), "engine": e2, "reference": m2, "original_program": src}
            ck.failing_input("engine and reference semantics differ", case, tag="sem")
    ck.cov["distinct_nontrivial"] = len(nontrivial)
    ck.cov["rule"] = "type-directed random programs (checks/lang.py Gen); distinct = distinct reference outcomes (values+output+error class)"
    ck.cov["construct_histogram"] = g.stats
    if os.path.exists(os.path.join(common.COQ, "lib", "Bytecode.v")):
        three_way(ck, 70 if ck.tier == "quick" else 3000)
        if os.path.exists(os.path.join(common.COQ, "lib", "BytecodeS.v")):
            three_way(ck, 70 if ck.tier == "quick" else 3000, assign=True)
    if os.path.exists(os.path.join(common.COQ, "c01", "Pins_C01p.v")):
        from checks import c01_passes
        c01_passes.run_passes(ck)
    if not proved and not ck.violations:
        ck.unproved()
