"""C09 — tail calls run in constant space at any iteration count (DESIGN.md section 4, C09).

(P) theorems on the VM of coq/lib/Bytecode.v (coq/c09): tail_call_space, loop_constant_space (any number
    of iterations), args_shuffled_right, deep_recursion_is_error, tail_pos_sound.
(G) coq/gen/Gen_C09.v: STACK_LIMIT, the overflow comparison, the opcode list, the tail-call opcodes and the
    arms of VmCore::vm that reuse the frame — regenerated from vm.rs / opcode.rs on every run.
(C) generated loop shapes run on the real engine at two iteration counts with the hook
    `(#%verif-stack-depth)` sampled at the loop head; the set of distinct (frames, operands) samples must
    be the same for both counts and small, the result must equal a Python oracle, and for the shapes inside
    the modelled fragment the model VM (vm_compute) predicts the depths.  Non-tail recursion beyond
    STACK_LIMIT must end with an error value (run under an address-space cap).
"""
import json
import os
import re
import resource
import subprocess
import threading
import time

from checks import common
from checks.common import TieBroken

# ----------------------------------------------------------------------------- generated facts

MODELLED_TAIL_OPS = ["TAILCALL", "CALLGLOBALTAIL"]
# tail-call opcodes that exist in the engine but are outside the Coq model: covered by the correspondence only
MEASURED_TAIL_OPS = ["TCOJMP", "SELFTAILCALLNOARITY", "TAILCALLNOARITY", "CALLGLOBALTAILNOARITY",
                     "CALLPRIMITIVETAIL", "UNBOXTAIL", "BINOPADDTAIL"]


def translate(ck):
    vm = common.repo_file("crates/steel-core/src/steel_vm/vm.rs")
    op = common.repo_file("crates/steel-gen/src/opcode.rs")
    m = re.search(r"const\s+STACK_LIMIT\s*:\s*usize\s*=\s*([0-9_]+)\s*;", vm)
    if not m:
        raise TieBroken("STACK_LIMIT not found in vm.rs")
    limit = int(m.group(1).replace("_", ""))
    m = re.search(r"const\s+CHECK_STACK_OVERFLOW\s*:\s*bool\s*=\s*(true|false)\s*;", vm)
    if not m:
        raise TieBroken("CHECK_STACK_OVERFLOW not found in vm.rs")
    enabled = m.group(1)
    m = re.search(r"fn\s+check_stack_overflow\s*\(&self\)[^{]*\{(.*?)\n    \}", vm, re.S)
    if not m:
        raise TieBroken("check_stack_overflow not found in vm.rs")
    body = m.group(1)
    c = re.search(r"stack_frames\.len\(\)\s*(>=|>|==)\s*STACK_LIMIT", body)
    if not c or "stop!" not in body:
        raise TieBroken("check_stack_overflow: comparison with STACK_LIMIT / stop! not found")
    cmp_ge = "true" if c.group(1) == ">=" else "false"
    # is the check performed by the closure-call path?
    m = re.search(r"fn\s+handle_function_call_closure\s*\((.*?)\n    \}", vm, re.S)
    if not m:
        raise TieBroken("handle_function_call_closure not found")
    call_checks = "true" if re.search(r"self\.check_stack_overflow\(\)\?", m.group(1)) else "false"
    # opcode enumeration
    m = re.search(r"declare_opcodes!\s*\{\s*\{(.*?)\}\s*\}", op, re.S)
    if not m:
        raise TieBroken("declare_opcodes! not found in opcode.rs")
    txt = re.sub(r"//[^\n]*", "", m.group(1))
    opcodes = [x for x in (y.strip().rstrip("}").strip() for y in txt.split(";")) if x]
    if any(not re.match(r"^[A-Za-z][A-Za-z0-9]*$", x) for x in opcodes):
        raise TieBroken("unexpected token in the opcode list: %r" % [x for x in opcodes if not re.match(r"^[A-Za-z][A-Za-z0-9]*$", x)][:3])
    if len(opcodes) < 50 or "TAILCALL" not in opcodes:
        raise TieBroken("opcode list looks wrong: %d entries" % len(opcodes))
    tail_ops = [o for o in opcodes if "TAIL" in o or o == "TCOJMP"]
    # arms of VmCore::vm that reuse the current frame
    start = vm.find("pub(crate) fn vm(&mut self)")
    end = vm.find("fn move_from_stack", start)
    if start < 0 or end < 0:
        raise TieBroken("VmCore::vm not found")
    loop_src = vm[start:end]
    arms = re.split(r"\n\s*DenseInstruction\s*\{", loop_src)
    reuse = []
    for a in arms[1:]:
        hm = re.match(r"\s*op_code:\s*((?:OpCode::\w+\s*\|?\s*)+)", a)
        if not hm:
            continue
        if a.lstrip().startswith("//"):
            continue
        names = re.findall(r"OpCode::(\w+)", hm.group(1))
        bodytxt = a[hm.end():]
        if ("new_handle_tail_call_closure" in bodytxt or re.search(r"self\.handle_tail_call\(", bodytxt)
                or re.search(r"drain\(self\.sp\.\.back\)", bodytxt)):
            reuse.extend(names)
    reuse = sorted(set(reuse))
    if not reuse:
        raise TieBroken("no frame-reusing arm found in VmCore::vm")
    # new_handle_tail_call_closure: drains stack[offset..back] and reuses the frame
    m = re.search(r"fn\s+new_handle_tail_call_closure\s*\((.*?)\n    \}", vm, re.S)
    if not m:
        raise TieBroken("new_handle_tail_call_closure not found")
    t = m.group(1)
    drains = "true" if (re.search(r"let\s+offset\s*=\s*last\.sp", t) and re.search(r"let\s+back\s*=\s*self\.thread\.stack\.len\(\)\s*-\s*new_arity", t)
                        and re.search(r"stack\.drain\(offset\.\.back\)", t) and "last.set_function(closure)" in t
                        and "stack_frames.push" not in t) else "false"

    def lst(xs):
        return "[" + "; ".join('"%s"' % x for x in xs) + "]"
    content = """(* GENERATED by checks/c09.py from crates/steel-core/src/steel_vm/vm.rs and crates/steel-gen/src/opcode.rs.
   Do not edit: rewritten on every run of the C09 check. *)
From Coq Require Import NArith List String.
Import ListNotations.
Open Scope string_scope.

Definition stack_limit : N := %d%%N.
Definition check_stack_overflow_enabled : bool := %s.
Definition overflow_cmp_is_ge : bool := %s.          (* stack_frames.len() >= STACK_LIMIT *)
Definition closure_call_checks_overflow : bool := %s. (* handle_function_call_closure calls check_stack_overflow *)
Definition tail_call_drains_and_reuses : bool := %s.  (* new_handle_tail_call_closure: drain(last.sp .. len - arity), set_function, no push *)
Definition opcodes : list string := %s.
Definition tail_opcodes : list string := %s.
Definition frame_reuse_arms : list string := %s.
""" % (limit, enabled, cmp_ge, call_checks, drains, lst(opcodes), lst(tail_ops), lst(reuse))
    ck.translate("Gen_C09", content)
    return {"limit": limit, "tail_ops": tail_ops, "reuse": reuse}


# ----------------------------------------------------------------------------- sampling prelude

PRELUDE = """(define *c09-seen* '())
(define *c09-count* 0)
(define (c09-sample!)
  (let ((d (#%verif-stack-depth)))
    (if (member d *c09-seen*)
        #t
        (if (< *c09-count* 40)
            (begin (set! *c09-count* (+ *c09-count* 1)) (set! *c09-seen* (cons d *c09-seen*)))
            (set! *c09-count* (+ *c09-count* 1))))))
(define (c09-report r)
  (let ((s *c09-seen*) (c *c09-count*))
    (set! *c09-seen* '())
    (set! *c09-count* 0)
    (list r c s)))
"""

# ----------------------------------------------------------------------------- loop shapes


def rot_oracle(a, n, init):
    """args x1..xa; each iteration: (x2, ..., xa, x1 + 1).  Returns the final tuple after n iterations."""
    xs = list(init)
    q, r = divmod(n, a)
    # after a iterations every element has been incremented once and the order is restored
    xs = [x + q for x in xs]
    for _ in range(r):
        xs = xs[1:] + [xs[0] + 1]
    return xs


def canon_int(z):
    return ("I%d" if -2**63 <= z < 2**63 else "B%d") % z


def canon_list(zs):
    return "(" + " ".join(canon_int(z) for z in zs) + ")"


class Shape:
    def __init__(self, name, defs, call, oracle, model=None, fragment=None, counts=None):
        self.counts = counts      # (n1, n2) overriding the tier's iteration counts
        self.name = name
        self.defs = defs          # Steel source of the definitions
        self.call = call          # n -> Steel expression (the value of the loop)
        self.oracle = oracle      # n -> canonical string of the expected value
        self.model = model        # n -> (coq defs term, coq main term) for the modelled fragment, or None
        self.fragment = fragment  # description (for evidence)


def cq_I(z):
    return "(EConst (KInt (%d)%%Z))" % z


def cq_V(x):
    return '(EVar "%s")' % x


def cq_A(f, *args):
    return "(EApp %s [%s])" % (cq_V(f) if isinstance(f, str) else f, "; ".join(args))


def cq_lam(ps, body):
    return "(ELam [%s] None %s)" % ("; ".join('"%s"' % p for p in ps), body)


def cq_if(c, t, e):
    return "(EIf %s %s %s)" % (c, t, e)


def cq_let(bs, body):
    return "(ELet [%s] %s)" % ("; ".join('("%s", %s)' % (x, e) for x, e in bs), body)


def cq_defs(ds):
    return "[%s]" % "; ".join('("%s", %s)' % (x, e) for x, e in ds)


def gen_shapes(rng, tier):
    shapes = []
    # 1. direct self tail call, arity 1..5, arguments rotated (argument shuffle)
    for a in sorted(set([1, 2, rng.randint(3, 5)])):
        init = [rng.randint(-5, 5) for _ in range(a)]
        xs = ["x%d" % i for i in range(a)]
        nxt = xs[1:] + ["(+ %s 1)" % xs[0]]
        defs = "(define (self%d i %s) (c09-sample!) (if (= i 0) (list %s) (self%d (- i 1) %s)))" % (
            a, " ".join(xs), " ".join(xs), a, " ".join(nxt))
        # the model returns the first component only (no lists in the core fragment)
        mdefs = cq_defs([("self", cq_lam(["i"] + xs, cq_if(cq_A("=", cq_V("i"), cq_I(0)), cq_V(xs[0]),
                                                             cq_A("self", cq_A("-", cq_V("i"), cq_I(1)),
                                                                  *([cq_V(x) for x in xs[1:]] + [cq_A("+", cq_V(xs[0]), cq_I(1))])))))])
        shapes.append(Shape("self-arity%d" % a, defs,
                            lambda n, a=a, init=init: "(self%d %d %s)" % (a, n, " ".join(map(str, init))),
                            lambda n, a=a, init=init: canon_list(rot_oracle(a, n, init)),
                            model=lambda n, a=a, init=init, mdefs=mdefs: (mdefs, cq_A("self", cq_I(n), *[cq_I(z) for z in init])),
                            fragment=lambda n, a=a, init=init: canon_int(rot_oracle(a, n, init)[0])))
    # 2. mutual recursion among k functions with different arities
    for k in sorted(set([2, rng.randint(3, 5)])):
        fs = []
        mds = []
        for j in range(k):
            extra = ["p%d" % t for t in range(j % 3)]           # arity 2 + (j mod 3)
            nj = (j + 1) % k
            nextra = ["%d" % t for t in range(nj % 3)]
            fs.append("(define (mut%d_%d i acc %s) (c09-sample!) (if (= i 0) acc (mut%d_%d (- i 1) (+ acc %d) %s)))" % (
                k, j, " ".join(extra), k, nj, j, " ".join(nextra)))
            mds.append(("mut_%d" % j, cq_lam(["i", "acc"] + extra,
                                             cq_if(cq_A("=", cq_V("i"), cq_I(0)), cq_V("acc"),
                                                   cq_A("mut_%d" % nj, cq_A("-", cq_V("i"), cq_I(1)), cq_A("+", cq_V("acc"), cq_I(j)),
                                                        *[cq_I(int(t)) for t in nextra])))))

        def orc(n, k=k):
            q, r = divmod(n, k)
            return q * (k * (k - 1) // 2) + r * (r - 1) // 2
        shapes.append(Shape("mutual-%d" % k, "\n".join(fs),
                            lambda n, k=k: "(mut%d_0 %d 0)" % (k, n),
                            lambda n, orc=orc: canon_int(orc(n)),
                            model=lambda n, mds=mds: (cq_defs(mds), cq_A("mut_0", cq_I(n), cq_I(0))),
                            fragment=lambda n, orc=orc: canon_int(orc(n))))
    # 3. through a higher-order parameter
    shapes.append(Shape("higher-order", "(define (ho f i acc) (c09-sample!) (if (= i 0) acc (f f (- i 1) (+ acc 2))))",
                        lambda n: "(ho ho %d 0)" % n, lambda n: canon_int(2 * n),
                        model=lambda n: (cq_defs([("ho", cq_lam(["f", "i", "acc"],
                                                                 cq_if(cq_A("=", cq_V("i"), cq_I(0)), cq_V("acc"),
                                                                       cq_A("f", cq_V("f"), cq_A("-", cq_V("i"), cq_I(1)),
                                                                            cq_A("+", cq_V("acc"), cq_I(2))))))]),
                                         cq_A("ho", cq_V("ho"), cq_I(n), cq_I(0))),
                        fragment=lambda n: canon_int(2 * n)))
    # 4. through apply
    shapes.append(Shape("apply", "(define (ap i acc) (c09-sample!) (if (= i 0) acc (apply ap (list (- i 1) (+ acc 3)))))",
                        lambda n: "(ap %d 0)" % n, lambda n: canon_int(3 * n)))
    shapes.append(Shape("apply-spread", "(define (ap2 i acc) (c09-sample!) (if (= i 0) acc (apply ap2 (- i 1) (list (+ acc 3)))))",
                        lambda n: "(ap2 %d 0)" % n, lambda n: canon_int(3 * n)))
    # 5. rest arguments
    shapes.append(Shape("rest", "(define (rs i . rest) (c09-sample!) (if (= i 0) (car rest) (rs (- i 1) (+ (car rest) 1) 7 8)))",
                        lambda n: "(rs %d 5)" % n, lambda n: canon_int(n + 5)))
    shapes.append(Shape("rest-apply", "(define (rsa i . rest) (c09-sample!) (if (= i 0) (length rest) (apply rsa (- i 1) rest)))",
                        lambda n: "(rsa %d 1 2 3)" % n, lambda n: canon_int(3)))
    # 6. let-bound temporaries at depth 0..4 (+ a captured variable)
    for depth in sorted(set([0, rng.randint(1, 2), rng.randint(3, 4)])):
        body = "(lt%d (- i 1) t%d)" % (depth, depth) if depth else "(lt0 (- i 1) (+ acc 1))"
        mbody = cq_A("lt", cq_A("-", cq_V("i"), cq_I(1)), cq_V("t%d" % depth)) if depth else \
            cq_A("lt", cq_A("-", cq_V("i"), cq_I(1)), cq_A("+", cq_V("acc"), cq_I(1)))
        for d in range(depth, 0, -1):
            prev = "acc" if d == 1 else "t%d" % (d - 1)
            body = "(let ((t%d (+ %s 1)) (u%d %d)) %s)" % (d, prev, d, d, body)
            mbody = cq_let([("t%d" % d, cq_A("+", cq_V(prev), cq_I(1))), ("u%d" % d, cq_I(d))], mbody)
        defs = "(define (lt%d i acc) (c09-sample!) (if (= i 0) acc %s))" % (depth, body)
        inc = max(depth, 1)
        shapes.append(Shape("let-depth%d" % depth, defs,
                            lambda n, depth=depth: "(lt%d %d 0)" % (depth, n),
                            lambda n, inc=inc: canon_int(inc * n),
                            model=lambda n, mbody=mbody: (cq_defs([("lt", cq_lam(["i", "acc"], cq_if(cq_A("=", cq_V("i"), cq_I(0)), cq_V("acc"), mbody)))]),
                                                          cq_A("lt", cq_I(n), cq_I(0))),
                            fragment=lambda n, inc=inc: canon_int(inc * n)))
    step = rng.randint(2, 9)
    shapes.append(Shape("captured",
                        "(define (mkcap step) (define (cp i acc) (c09-sample!) (if (= i 0) acc (let ((t (+ acc step))) (cp (- i 1) t)))) cp)\n"
                        "(define cap-loop (mkcap %d))" % step,
                        lambda n: "(cap-loop %d 0)" % n, lambda n, step=step: canon_int(step * n)))
    # a closure that captures a variable and receives itself as an argument: inside the modelled fragment
    shapes.append(Shape("captured-ho",
                        "(define (mkc step) (lambda (self i acc) (c09-sample!) (if (= i 0) acc (let ((t (+ acc step))) (self self (- i 1) t)))))\n"
                        "(define capho (mkc %d))" % step,
                        lambda n: "(capho capho %d 0)" % n, lambda n, step=step: canon_int(step * n),
                        model=lambda n, step=step: (cq_defs([("mkc", cq_lam(["step"], cq_lam(["self", "i", "acc"],
                                                                cq_if(cq_A("=", cq_V("i"), cq_I(0)), cq_V("acc"),
                                                                      cq_let([("t", cq_A("+", cq_V("acc"), cq_V("step")))],
                                                                             cq_A("self", cq_V("self"), cq_A("-", cq_V("i"), cq_I(1)), cq_V("t"))))))),
                                                             ("capho", cq_A("mkc", cq_I(step)))]),
                                                    cq_A("capho", cq_V("capho"), cq_I(n), cq_I(0))),
                        fragment=lambda n, step=step: canon_int(step * n)))
    # 7. inside cond / when / and / or / begin tails
    shapes.append(Shape("cond", "(define (cn i acc) (c09-sample!) (cond [(= i 0) acc] [(even? i) (cn (- i 1) (+ acc 1))] [else (cn (- i 1) (+ acc 2))]))",
                        lambda n: "(cn %d 0)" % n, lambda n: canon_int((n // 2) * 1 + ((n + 1) // 2) * 2)))
    shapes.append(Shape("when", "(define (wn i acc) (c09-sample!) (when (>= i 0) (if (= i 0) acc (wn (- i 1) (+ acc 1)))))",
                        lambda n: "(wn %d 0)" % n, lambda n: canon_int(n)))
    shapes.append(Shape("and", "(define (an i acc) (c09-sample!) (and #t (> acc -1) (if (= i 0) acc (an (- i 1) (+ acc 1)))))",
                        lambda n: "(an %d 0)" % n, lambda n: canon_int(n)))
    shapes.append(Shape("or", "(define (on i acc) (c09-sample!) (or #f (if (= i 0) acc #f) (on (- i 1) (+ acc 1))))",
                        lambda n: "(on %d 0)" % n, lambda n: canon_int(n)))
    shapes.append(Shape("begin", "(define (bg i acc) (c09-sample!) (begin (+ i 1) (if (= i 0) acc (begin (+ acc 1) (bg (- i 1) (+ acc 1))))))",
                        lambda n: "(bg %d 0)" % n, lambda n: canon_int(n),
                        model=lambda n: (cq_defs([("bg", cq_lam(["i", "acc"],
                                          "(ESeq %s %s)" % (cq_A("+", cq_V("i"), cq_I(1)),
                                                            cq_if(cq_A("=", cq_V("i"), cq_I(0)), cq_V("acc"),
                                                                  "(ESeq %s %s)" % (cq_A("+", cq_V("acc"), cq_I(1)),
                                                                                    cq_A("bg", cq_A("-", cq_V("i"), cq_I(1)), cq_A("+", cq_V("acc"), cq_I(1))))))))]),
                                         cq_A("bg", cq_I(n), cq_I(0))),
                        fragment=lambda n: canon_int(n)))
    # the handler procedure's tail: the loop continues from inside the handler of with-handler
    shapes.append(Shape("handler-tail",
                        "(define (hn i acc) (c09-sample!) (if (= i 0) acc (with-handler (lambda (e) (hn (- i 1) (+ acc 1))) (error \"x\"))))",
                        lambda n: "(hn %d 0)" % n, lambda n: canon_int(n), counts=(60, 240)))
    shapes.append(Shape("case", "(define (cs i acc) (c09-sample!) (case (modulo i 3) [(0) (if (= i 0) acc (cs (- i 1) (+ acc 1)))] [(1) (cs (- i 1) (+ acc 2))] [else (cs (- i 1) (+ acc 3))]))",
                        lambda n: "(cs %d 0)" % n,
                        lambda n: canon_int(sum((1, 2, 3)[i % 3] for i in range(1, n + 1)) if n < 2000 else
                                            (n // 3) * 6 + sum((1, 2, 3)[i % 3] for i in range(1, n % 3 + 1)))))
    # through a local variable bound to the procedure
    shapes.append(Shape("variable", "(define (vr i acc) (c09-sample!) (let ((g vr)) (if (= i 0) acc (g (- i 1) (+ acc 4)))))",
                        lambda n: "(vr %d 0)" % n, lambda n: canon_int(4 * n)))
    shapes.append(Shape("do-loop", "(define (dl n) (do ((i n (- i 1)) (acc 0 (+ acc 1))) ((= i 0) acc) (c09-sample!)))",
                        lambda n: "(dl %d)" % n, lambda n: canon_int(n)))
    # 8. named let
    shapes.append(Shape("named-let", "(define (nl n) (let lp ((i n) (acc 0)) (c09-sample!) (if (= i 0) acc (lp (- i 1) (+ acc i)))))",
                        lambda n: "(nl %d)" % n, lambda n: canon_int(n * (n + 1) // 2)))
    return shapes


# ----------------------------------------------------------------------------- running


def parse_report(s):
    """'(<value> I<count> ((I f I o) ...))' -> (value string, count, set of (f, o)) or None."""
    m = re.match(r"^\((.*) I(\d+) \(((?:\(I\d+ I\d+\) ?)*)\)\)$", s)
    if not m:
        return None
    pairs = set((int(a), int(b)) for a, b in re.findall(r"\(I(\d+) I(\d+)\)", m.group(3)))
    return m.group(1), int(m.group(2)), pairs


def run_capped(ck, units, cap_mb, env, timeout):
    """Run one case on the c09 harness binary under an address-space cap. Returns (res list | None, rc, seconds)."""
    pre = os.path.join(ck.work, "prelude_deep.scm")
    with open(pre, "w") as f:
        f.write("")
    e = dict(os.environ)
    e["RUST_BACKTRACE"] = "0"
    e.update(env)

    def lim():
        resource.setrlimit(resource.RLIMIT_AS, (cap_mb * 2**20, cap_mb * 2**20))
        resource.setrlimit(resource.RLIMIT_CORE, (0, 0))
    t0 = time.time()
    p = subprocess.Popen([ck.harness_bin("c09"), "--prelude", pre], stdin=subprocess.PIPE, stdout=subprocess.PIPE,
                         stderr=subprocess.DEVNULL, text=True, env=e, preexec_fn=lim)
    try:
        out, _ = p.communicate(json.dumps({"id": 0, "units": units}) + "\n", timeout=timeout)
    except subprocess.TimeoutExpired:
        p.kill()
        p.communicate()
        return None, "hang", time.time() - t0
    res = None
    for part in out.split("\n@@VERIF@@ ")[1:]:
        try:
            res = json.loads(part.partition("\n")[0])["res"]
        except Exception:
            pass
    return res, p.returncode, time.time() - t0


COQ_HEADER = ("From Coq Require Import String.\nFrom Coq Require Import ZArith List.\n"
              "From SV Require Import lib.Core lib.Bytecode c09.Model_C09.\nImport ListNotations.\nOpen Scope string_scope.\n")


def c09_handler_tail(case, params):
    """Known-finding class: a loop whose back edge is the tail call of a `with-handler` handler procedure."""
    return case.get("kind") == "loop" and case.get("shape", "").startswith("handler-tail")


def c09_limit_exceeds_memory(case, params):
    """Known-finding class: non-tail recursion whose frames are so wide that STACK_LIMIT frames do not fit in
    the memory available to the process; the process is then killed by the allocator / the OS before the
    depth guard is reached.  Decidable on the inputs: frame width, STACK_LIMIT, cap."""
    if case.get("kind") != "deep" or case["width"] < params.get("min_width", 8):
        return False        # narrow frames must reach the depth guard: never excused
    need = (2 * 16 * (case["width"] + 1) + 64) * params.get("stack_limit", 10000000)
    return need > case["cap_mb"] * 2**20 and case.get("outcome", "").startswith(("crash", "abort"))


def deep_source(width):
    ps = ["a%d" % i for i in range(width)]
    return "(define (dp n %s) (if (< n 0) 0 (+ 1 (dp (+ n 1) %s))))" % (" ".join(ps), " ".join(ps)), \
           "(dp 0 %s)" % " ".join(str(i) for i in range(width))


def run(ck):
    ck.cov["trusted_base"] = [
        "Coq 8.16.1 kernel, coqc; vm_compute for model evaluation",
        "hand-written model coq/lib/Bytecode.v of VmCore::vm (call / tail call / return paths) and coq/lib/Core.v",
        "translator in checks/c09.py (regex over vm.rs / opcode.rs) producing coq/gen/Gen_C09.v",
        "hook #%verif-stack-depth (steel_vm/verif.rs, cfg steel_verif), harness/src/bin/c09.rs (VmRSS/VmHWM from /proc/self/status)",
        "loop shape generator and Python oracles in checks/c09.py",
    ]
    ck.assumptions = [
        "the depth probe is sampled by a helper procedure called at the loop head: it adds one frame to every sample",
        "the engine inlines a self/mutually recursive call once, so a loop head is sampled at two operand depths; the check compares the SET of distinct samples between iteration counts",
        "native code (STEEL_JIT=true) is measured only; the theorems are about the interpreter model",
    ]
    facts = translate(ck)
    proved = ck.proof_stage(["c09"], ["c09/Properties_C09"], "c09/Pins_C09.v")
    ck.harness_build(["c09"])
    limit = facts["limit"]

    quick = ck.tier == "quick"
    n1, n2 = N1, N2 = (1000, 100000) if quick else (1000000, 10000000)
    shapes = gen_shapes(ck.rng, ck.tier)
    corpus_dir = os.path.join(common.ROOT, "corpus", "c09")
    for p in sorted(os.listdir(corpus_dir)) if os.path.isdir(corpus_dir) else []:
        if p.endswith(".json"):
            c = json.load(open(os.path.join(corpus_dir, p)))
            shapes.insert(0, Shape("corpus:" + c["name"], c["defs"], lambda n, c=c: c["call"] % n,
                                   lambda n, c=c: canon_int(eval(c["oracle"], {"n": n}))))

    # ---- engine runs: one case per (shape, jit), units = defs, run n1, run n2
    cases = []
    index = []
    for sh in shapes:
        a, b = sh.counts or (n1, n2)
        units = [sh.defs, "(c09-report %s)" % sh.call(a), "(c09-report %s)" % sh.call(b)]
        cases.append(units)
        index.append(sh)
    results = {}
    for jit in ("true", "false"):
        results[jit] = ck.eval_cases(cases, prelude=PRELUDE, env={"STEEL_JIT": jit}, binary="c09", batch=2,
                                     timeout_per_batch=240 if quick else 1500)

    # ---- model predictions (shapes inside the modelled fragment), at n1 only: by the theorems the depths do
    # not depend on the iteration count
    mshapes = [sh for sh in shapes if sh.model]
    exprs = []
    for sh in mshapes:
        ds, main = sh.model(n1 if quick else 1000)
        exprs.append("loop_heads_render (N.to_nat 100000) (N.to_nat 5000000) %s %s" % (ds, main))
    model_out = {}
    try:
        vals = ck.coq_eval(COQ_HEADER.replace("ZArith List", "ZArith NArith List"), exprs, shard=2)
        for sh, v in zip(mshapes, vals):
            model_out[sh.name] = v
    except TieBroken as ex:
        ck.violation("model evaluation failed: %s" % str(ex)[:500], {"correspondence": "Bytecode.vm_run"}, no_input=True, tag="model")

    distinct = set()
    hist = {}
    rss_growth = []
    for jit in ("true", "false"):
        for sh, res in zip(index, results[jit]):
            ck.cov["evaluations"] += 1
            n1, n2 = sh.counts or (N1, N2)
            case = {"kind": "loop", "shape": sh.name, "jit": jit, "defs": sh.defs, "calls": [sh.call(n1), sh.call(n2)], "counts": [n1, n2]}
            vals = [r for r in res if "out" not in r]
            if len(vals) < 3 or any("ok" not in r for r in vals[:3]):
                case["outcome"] = json.dumps(vals)[:400]
                ck.failing_input("loop %s (jit=%s) did not complete: %s" % (sh.name, jit, case["outcome"]), case, tag="loop")
                continue
            reps = [parse_report(vals[i]["ok"][-1]) for i in (1, 2)]
            if None in reps:
                case["outcome"] = json.dumps(vals)[:400]
                ck.failing_input("loop %s (jit=%s): unexpected report %s" % (sh.name, jit, case["outcome"]), case, tag="loop")
                continue
            (v1, c1, s1), (v2, c2, s2) = reps
            case.update({"values": [v1, v2], "samples": [sorted(s1), sorted(s2)], "sample_counts": [c1, c2],
                         "rss_kb": [vals[1].get("rss_kb"), vals[2].get("rss_kb")]})
            hist[sh.name.split("-")[0].split(":")[0]] = hist.get(sh.name.split("-")[0].split(":")[0], 0) + 1
            distinct.add((sh.name, jit, tuple(sorted(s2))))
            if ck.cov["evaluations"] % 7 == 1:
                ck.sample(case)
            # property oracle 1: constant space = same small set of depths at both counts
            if s1 != s2 or c1 != c2 or c2 > 16 or not s2:
                ck.failing_input("loop %s (jit=%s): stack depths at the loop head differ between %d and %d iterations: %s vs %s"
                                 % (sh.name, jit, n1, n2, sorted(s1)[:6], sorted(s2)[:6]), case, tag="space")
                continue
            # property oracle 2: the value
            if v1 != sh.oracle(n1) or v2 != sh.oracle(n2):
                ck.failing_input("loop %s (jit=%s): result %s / %s, expected %s / %s" % (sh.name, jit, v1, v2, sh.oracle(n1), sh.oracle(n2)),
                                 case, tag="value")
                continue
            # secondary: resident memory must not grow with the count (generous bound)
            r1, r2 = vals[1].get("rss_kb") or 0, vals[2].get("rss_kb") or 0
            rss_growth.append(r2 - r1)
            if r2 - r1 > 256 * 1024:
                ck.failing_input("loop %s (jit=%s): resident set grew by %d MB between %d and %d iterations"
                                 % (sh.name, jit, (r2 - r1) // 1024, n1, n2), case, tag="rss")
                continue
            # correspondence with the model VM
            if sh.name in model_out:
                mo = model_out[sh.name]
                mm = re.match(r"^(.*) \| (.*)$", mo)
                mpairs = set((int(a), int(b)) for a, b in re.findall(r"(\d+),(\d+)", mm.group(2))) if mm else set()
                case["model"] = mo
                nm = n1 if quick else 1000
                if not mm or mm.group(1) != "OK " + sh.fragment(nm) or not mpairs:
                    ck.violation("model VM result for %s is %s, expected OK %s" % (sh.name, mo, sh.fragment(nm)),
                                 {"case": case, "correspondence": "Bytecode.vm_run vs oracle"}, no_input=True, tag="corr")
                    continue
                mframes = set(f for f, _ in mpairs)
                eframes = set(f for f, _ in s2)
                # the probe procedure adds one frame; the engine's one-level inlining only adds let slots
                if len(mframes) != 1 or eframes != set(f + 1 for f in mframes) or min(o for _, o in s2) != min(o for _, o in mpairs):
                    ck.violation("model/implementation correspondence broken on %s (jit=%s): model loop heads %s, engine samples %s"
                                 % (sh.name, jit, sorted(mpairs), sorted(s2)),
                                 {"case": case, "correspondence": "Bytecode.vm_step (frames, operands at loop head) vs #%verif-stack-depth"},
                                 no_input=True, tag="corr")

    # ---- non-tail recursion beyond STACK_LIMIT: error value, not a crash (under an address-space cap)
    deep_cases = []
    for jit in ("true", "false"):
        deep_cases.append({"kind": "deep", "width": 0, "n": "unbounded", "cap_mb": 6000, "jit": jit, "stack_limit": limit, "expect": "error"})
    deep_cases.append({"kind": "deep", "width": 2, "n": "unbounded", "cap_mb": 6000, "jit": "true", "stack_limit": limit, "expect": "error"})
    deep_cases.append({"kind": "deep", "width": 24, "n": "unbounded", "cap_mb": 3000, "jit": "true", "stack_limit": limit, "expect": "either"})
    if not quick:
        deep_cases.append({"kind": "deep", "width": 6, "n": "unbounded", "cap_mb": 8000, "jit": "false", "stack_limit": limit, "expect": "error"})
    out = [None] * len(deep_cases)

    def work(i):
        c = deep_cases[i]
        d, call = deep_source(c["width"])
        out[i] = run_capped(ck, [d, call], c["cap_mb"], {"STEEL_JIT": c["jit"]}, 600)
    ts = [threading.Thread(target=work, args=(i,)) for i in range(len(deep_cases))]
    # at most 3 at a time: each may use > 1 GB
    for k in range(0, len(ts), 3):
        for t in ts[k:k + 3]:
            t.start()
        for t in ts[k:k + 3]:
            t.join()
    for c, (res, rc, secs) in zip(deep_cases, out):
        ck.cov["evaluations"] += 1
        d, call = deep_source(c["width"])
        c = dict(c, defs=d, call=call, seconds=round(secs, 1))
        vals = [r for r in (res or []) if "out" not in r]
        if res is not None and len(vals) >= 2 and "err" in vals[1]:
            c["outcome"] = "error:" + vals[1]["err"] + ":" + vals[1].get("msg", "")[:60]
            c["hwm_mb"] = (vals[1].get("hwm_kb") or 0) // 1024
            if "stack overflow" not in vals[1].get("msg", ""):
                ck.failing_input("deep recursion (width %d, jit=%s) ended with an unexpected error: %s" % (c["width"], c["jit"], c["outcome"]), c, tag="deep")
            distinct.add(("deep", c["width"], c["jit"], "error"))
        elif res is not None and len(vals) >= 2 and "ok" in vals[1]:
            c["outcome"] = "value:" + str(vals[1]["ok"])[:80]
            ck.failing_input("unbounded non-tail recursion returned a value: %s" % c["outcome"], c, tag="deep")
        else:
            c["outcome"] = ("crash:%s" % rc) if rc != "hang" else "hang"
            ck.failing_input("non-tail recursion of frame width %d (jit=%s) under a %d MB cap ended with %s instead of an error value"
                             % (c["width"], c["jit"], c["cap_mb"], c["outcome"]), c, tag="deep")
        if c["width"] in (0, 24):
            ck.sample(c, cap=9)

    ck.cov["distinct_nontrivial"] = len(distinct)
    ck.cov["rule"] = ("loop shapes %s x STEEL_JIT in {true,false}, each at %d and %d iterations with the depth hook sampled at the loop head; "
                      "distinct = distinct (shape, jit, set of (frames, operands) samples); non-trivial = every loop case (>= %d iterations "
                      "through a tail call); plus non-tail recursion probes beyond STACK_LIMIT=%d under an address-space cap"
                      % (sorted(set(s.name for s in shapes)), n1, n2, n1, limit))
    ck.cov["shape_histogram"] = hist
    ck.cov["iteration_counts"] = [n1, n2]
    ck.cov["rss_growth_kb_max"] = max(rss_growth) if rss_growth else None
    ck.cov["modelled_shapes"] = sorted(model_out)
    ck.cov["tail_opcodes_in_source"] = facts["tail_ops"]
    ck.cov["frame_reuse_arms"] = facts["reuse"]
    if not proved and not ck.violations:
        ck.unproved()


def replay(ck, path):
    obj = json.load(open(path))
    case = obj.get("case")
    if not case:
        print(json.dumps(obj, indent=1))
        return
    ck.harness_build(["c09"])
    if case.get("kind") == "deep":
        res, rc, secs = run_capped(ck, [case["defs"], case["call"]], case["cap_mb"], {"STEEL_JIT": case["jit"]}, 600)
        print("deep recursion width %d cap %d MB: rc=%s res=%s" % (case["width"], case["cap_mb"], rc, json.dumps(res)[:300]))
        vals = [r for r in (res or []) if "out" not in r]
        if not (res is not None and len(vals) >= 2 and "err" in vals[1]):
            case = dict(case, outcome=("crash:%s" % rc))
            ck.failing_input("replay: no error value", case, tag="deep")
        return
    units = [case["defs"]] + ["(c09-report %s)" % c for c in case["calls"]]
    res = ck.eval_cases([units], prelude=PRELUDE, env={"STEEL_JIT": case["jit"]}, binary="c09")[0]
    vals = [r for r in res if "out" not in r]
    print("shape:", case["shape"], "jit:", case["jit"])
    for c, r in zip(case["calls"], vals[1:]):
        print(" ", c, "=>", json.dumps(r)[:300])
    reps = [parse_report(r["ok"][-1]) if "ok" in r else None for r in vals[1:3]]
    if None in reps or reps[0][2] != reps[1][2] or reps[0][1] != reps[1][1]:
        ck.failing_input("replay: depths differ between iteration counts", case, tag="space")
