"""C05 — shared-value reference counting (crates/steel-rc/src/lib.rs) is sound under every interleaving.

(G) translator: packed-word constants + the decision shapes / yield-site sequences of every counting
    function are re-read from lib.rs on every run into coq/gen/Gen_C05.v (`repo_cfg`); TieBroken when
    a shape is not recognised.
(P) coq/c05: invariants of the micro-step model for any number of threads / any schedule (fixed_cfg),
    refutation witnesses for the code as it was, `repo_cfg = fixed_cfg`.
(C) correspondence: operation lists x schedules run on the real crate under the baton scheduler of
    hook H1 (harness/src/bin/c05.rs) and on the model (`render repo_cfg ...`, vm_compute) with the
    schedule the harness effectively executed; observables and the site of every step must agree.
    Independently of the model, any quarantine report / double destructor / exclusive access with
    other live references / leak seen by the harness is a failing input for the property.
"""
import itertools
import json
import os
import re
import subprocess
import threading

from checks import common
from checks.common import TieBroken

LIB = "crates/steel-rc/src/lib.rs"

# ------------------------------------------------------------------------------------------------
# translator
# ------------------------------------------------------------------------------------------------


def fn_body(src, name, nth=0):
    """Text of the body of the nth `fn name` (brace matched)."""
    hits = [m.start() for m in re.finditer(r"\bfn\s+%s\b" % re.escape(name), src)]
    if len(hits) <= nth:
        raise TieBroken("lib.rs: fn %s not found" % name)
    i = src.index("{", hits[nth])
    depth = 0
    j = i
    while j < len(src):
        c = src[j]
        if c == "{":
            depth += 1
        elif c == "}":
            depth -= 1
            if depth == 0:
                return src[i:j + 1]
        j += 1
    raise TieBroken("lib.rs: unbalanced braces in fn %s" % name)


def strip_rust_comments(s):
    s = re.sub(r"/\*.*?\*/", "", s, flags=re.S)
    return "\n".join(re.sub(r"//.*$", "", l) for l in s.splitlines())


def norm(s):
    return re.sub(r"\s+", " ", strip_rust_comments(s)).strip()


def one_of(body, what, options):
    """options: list of (regex, value); exactly one must match."""
    hits = [v for rx, v in options if re.search(rx, body)]
    if len(hits) != 1:
        raise TieBroken("lib.rs: shape of %s not recognised (%d candidates matched)" % (what, len(hits)))
    return hits[0]


def sites(body):
    return re.findall(r"verif_yield!\(\s*([A-Z0-9_]+)", body)


EXPECT_SITES = {
    # function -> {flag value -> site sequence}
    "increment": {None: ["INC_RD_OWNER"]},
    "fast_increment": {None: ["INC_FAST"]},
    "slow_increment": {None: ["INC_LOAD", "INC_CAS"]},
    "decrement": {None: ["DEC_RD_OWNER"]},
    "fast_decrement": {False: ["DEC_FAST", "DEC_FAST_LOAD", "DEC_FAST_CAS", "DEC_FAST_FIN"],
                       True: ["DEC_FAST", "DEC_FAST_UNOWN", "DEC_FAST_LOAD", "DEC_FAST_CAS", "DEC_FAST_FIN"]},
    "slow_decrement": {None: ["DEC_LOAD", "DEC_CAS", "DEC_FIN"]},
    "has_unique_ref": {True: ["UNQ_RD_OWNER", "UNQ_NONE_LOAD", "UNQ_NONE_CAS", "UNQ_OWN_RD_BIASED", "UNQ_OWN_LOAD"],
                       False: ["UNQ_RD_OWNER", "UNQ_NONE_LOAD", "UNQ_OWN_RD_BIASED", "UNQ_OWN_LOAD"]},
    "enqueue": {False: ["ENQ_RD_OWNER", "ENQ_PUSH"],
                True: ["ENQ_RD_OWNER", "ENQ_LOAD", "ENQ_CAS", "ENQ_FIN", "ENQ_PUSH"]},
    "run_explicit_merge": {None: ["MRG_UNREG", "MRG_REG"]},
    "finish_thread_merge": {None: ["MRG_FINISH"]},
    "explicit_merge": {False: ["MRG_LOAD", "MRG_CAS", "MRG_FIN"],
                       True: ["MRG_LOAD", "MRG_CAS", "MRG_FIN", "MRG_CAS2", "MRG_FIN2"]},
    "strong_count": {None: ["CNT_LOAD", "CNT_RD_OWNER", "CNT_RD_BIASED"]},
    "try_unwrap": {None: ["UNW_RD_OWNER", "UNW_OWN_RD_BIASED"]},
    "try_unwrap_internal_same_thread": {None: ["UNW_OWN_LOAD"]},
    "try_unwrap_internal": {None: ["UNW_NONE_LOAD", "UNW_NONE_CAS"]},
    "register_thread": {None: ["REGISTER"]},
}


def translate(ck):
    src = common.repo_file(LIB)
    code = strip_rust_comments(src)

    def const(rx, what):
        m = re.search(rx, code)
        if not m:
            raise TieBroken("lib.rs: %s not found" % what)
        return m

    vb = int(const(r"const VALUE_BITS: u32 = (\d+);", "VALUE_BITS").group(1))
    mb = int(const(r"pub const FLAG_MERGED: u32 = 1 << (\d+);", "FLAG_MERGED").group(1))
    qb = int(const(r"pub const FLAG_QUEUED: u32 = 1 << (\d+);", "FLAG_QUEUED").group(1))
    const(r"const VALUE_MASK: u32 = \(1 << VALUE_BITS\) - 1;", "VALUE_MASK = (1 << VALUE_BITS) - 1")
    const(r"const VALUE_SIGN_BIT: u32 = 1 << \(VALUE_BITS - 1\);", "VALUE_SIGN_BIT = 1 << (VALUE_BITS - 1)")
    const(r"pub struct SharedPacked\(AtomicU32\);", "SharedPacked(AtomicU32)")
    if norm(fn_body(code, "value", 0)) != ("{ let raw = self.0 & VALUE_MASK; if raw & VALUE_SIGN_BIT != 0 { "
                                            "(raw | !VALUE_MASK) as i32 } else { raw as i32 } }"):
        raise TieBroken("lib.rs: Packed::value is not the sign-extending read the model assumes")
    if norm(fn_body(code, "set_value", 0)) != ("{ assert!(value >= -(1 << 29) && value < (1 << 29)); let v = (value as u32) "
                                                "& VALUE_MASK; self.0 = (self.0 & !VALUE_MASK) | v; }"):
        raise TieBroken("lib.rs: Packed::set_value is not the range-checked masked write the model assumes")
    rng = 29

    b = {f: fn_body(code, f) for f in EXPECT_SITES if f not in ("register_thread",)}
    b["register_thread"] = fn_body(code, "register_thread", 1)   # QueueHandle::register_thread
    b["merge"] = fn_body(code, "merge", 0)
    n = {k: norm(v) for k, v in b.items()}

    # --- has_unique_ref, owner == None branch
    arm = n["has_unique_ref"]
    i0, i1 = arm.find("None => {"), arm.find("Some(tid) if")
    if i0 < 0 or i1 < i0:
        raise TieBroken("lib.rs: has_unique_ref arms not found")
    none_arm = arm[i0:i1]
    unq_cas = one_of(none_arm, "has_unique_ref (no owner)", [
        (r"compare_exchange", True),
        (r"^None => \{ let meta = &self\.rcword; verif_yield!\(UNQ_NONE_LOAD, self\); let old = meta\.shared\.load\(Ordering::Relaxed\); "
         r"std::sync::atomic::fence\(Ordering::Acquire\); old\.get_counter\(\) == 1 \} $", False)])
    if unq_cas and not re.search(r"old\.set_counter\(1\); new\.set_counter\(0\);", none_arm):
        raise TieBroken("lib.rs: has_unique_ref CAS is not the 1 -> 0 exchange the model assumes")
    own_arm = arm[i1:]
    if not re.search(r"let local_count = self\.rcword\.biased_counter\.get\(\); if local_count == 1 \{ .*"
                     r"let old = meta\.shared\.load\(Ordering::Relaxed\); .* if old\.get_counter\(\) != 0 \{ false \} else \{ true \} \} "
                     r"else \{ false \} \} Some\(_\) => false,", own_arm):
        raise TieBroken("lib.rs: has_unique_ref owner branch not recognised")

    # --- fast_decrement
    fd = n["fast_decrement"]
    p_set, p_cas = fd.find("thread_id.set(None)"), fd.find("compare_exchange")
    if p_set < 0 or p_cas < 0 or fd.count("thread_id.set(None)") != 1:
        raise TieBroken("lib.rs: fast_decrement: thread_id.set(None) / compare_exchange not found")
    fd_unown_first = p_set < p_cas
    fd_guard = one_of(fd, "fast_decrement deallocation test", [
        (r"if new\.get_counter\(\) == 0 \{ DecrementAction::Deallocate \}", False),
        (r"if new\.get_counter\(\) == 0 && !new\.get_queued\(\) \{ DecrementAction::Deallocate \}", True)])
    if not re.search(r"self\.rcword\.biased_counter\.set\(count - 1\); if self\.rcword\.biased_counter\.get\(\) > 0 \{ "
                     r"return DecrementAction::DoNothing; \}", fd) or "new.set_merged(true);" not in fd:
        raise TieBroken("lib.rs: fast_decrement prologue not recognised")
    # --- slow_decrement
    sd = n["slow_decrement"]
    sd_guard = one_of(sd, "slow_decrement decision", [
        (r"if old\.get_queued\(\) != new\.get_queued\(\) \{ DecrementAction::Queue \} else if new\.get_merged\(\) && "
         r"new\.get_counter\(\) == 0 \{ DecrementAction::Deallocate \} else \{ DecrementAction::DoNothing \}", False),
        (r"if old\.get_queued\(\) != new\.get_queued\(\) \{ DecrementAction::Queue \} else if new\.get_merged\(\) && "
         r"new\.get_counter\(\) == 0 && !new\.get_queued\(\) \{ DecrementAction::Deallocate \} else \{ DecrementAction::DoNothing \}", True)])
    if not re.search(r"new\.update_counter\(\|x\| x - 1\); if new\.get_counter\(\) < 0 \{ new\.set_queued\(true\); \}", sd):
        raise TieBroken("lib.rs: slow_decrement update not recognised")
    if not re.search(r"new\.update_counter\(\|x\| x \+ 1\);", n["slow_increment"]):
        raise TieBroken("lib.rs: slow_increment update not recognised")
    # --- try_unwrap
    uwo = one_of(n["try_unwrap_internal_same_thread"], "try_unwrap (owner) test", [
        (r"if old\.get_counter\(\) != 0 \{ Err\(this\) \}", False),
        (r"if old\.get_counter\(\) != 0 \|\| old\.get_queued\(\) \{ Err\(this\) \}", True)])
    uwn_body = n["try_unwrap_internal"]
    uwn = one_of(uwn_body, "try_unwrap (no owner) guard", [
        (r"^(?!.*get_merged)(?!.*get_queued).*$", False),
        (r"if !old\.get_merged\(\) \|\| old\.get_queued\(\) \{ return Err\(this\); \}", True)])
    if not re.search(r"old\.set_counter\(1\); new\.set_counter\(0\);", uwn_body):
        raise TieBroken("lib.rs: try_unwrap_internal CAS is not the 1 -> 0 exchange the model assumes")
    # --- explicit merge (and the unused trait method `merge`, which must have the same shape)
    em = n["explicit_merge"]
    two = []
    for name in ("explicit_merge", "merge"):
        t = n[name]
        if not re.search(r"new\.update_counter\(\|x\| x \+ (value\.meta_outer\(\)|self\.meta\(\))\.biased_counter\.get\(\) as i32\); "
                         r"new\.set_merged\(true\);", t):
            raise TieBroken("lib.rs: %s merge update not recognised" % name)
        two.append(one_of(t, name + " tail", [
            (r"^(?!.*set_queued).*if new\.get_counter\(\) == 0 \{ unsafe \{ (value|self)\.drop_contents_and_maybe_box(_outer)?\(\) \}; \} "
             r"else \{ (value\.meta_outer\(\)|self\.meta\(\))\.thread_id\.set\(None\); \}", False),
            (r"thread_id\.set\(None\); .*new\.set_queued\(false\); .*if new\.get_counter\(\) == 0 \{ unsafe \{ "
             r"(value|self)\.drop_contents_and_maybe_box(_outer)?\(\) \}; \}", True)]))
    if two[0] != two[1]:
        raise TieBroken("lib.rs: explicit_merge and BiasedMerge::merge have different shapes")
    mrg_two = two[0]
    # --- make_mut: uniqueness test, else replace this reference by a fresh copy (drops this reference)
    if norm(fn_body(code, "make_mut")) != ("{ if !this.get_box().has_unique_ref() { *this = Self::new(T::clone(this.data())); } "
                                            "unsafe { Self::get_mut_unchecked(this) } }"):
        raise TieBroken("lib.rs: make_mut is not `if !has_unique_ref() { *this = new(clone(data)) }; get_mut_unchecked`")
    if norm(fn_body(code, "get_mut")) != ("{ if this.get_box().has_unique_ref() { unsafe { Some(Self::get_mut_unchecked(this)) } } "
                                           "else { None } }"):
        raise TieBroken("lib.rs: get_mut is not `if has_unique_ref() { Some(get_mut_unchecked) } else { None }`")
    # --- enqueue
    enq_none = one_of(n["enqueue"], "enqueue of an owner-less box", [
        (r"^(?!.*key\.is_none\(\)).*$", False),
        (r"if key\.is_none\(\) \{", True)])

    flags = {"c_unq_cas": unq_cas, "c_fd_unown_first": fd_unown_first, "c_fd_guard": fd_guard, "c_sd_guard": sd_guard,
             "c_uwo_guard": uwo, "c_uwn_guard": uwn, "c_mrg_two": mrg_two, "c_enq_none": enq_none}
    # --- yield-site sequences (the micro-step structure)
    key = {"fast_decrement": fd_unown_first, "has_unique_ref": unq_cas, "enqueue": enq_none, "explicit_merge": mrg_two}
    for f, exp in EXPECT_SITES.items():
        want = exp[key.get(f)]
        got = sites(b[f])
        if got != want:
            raise TieBroken("lib.rs: yield sites of %s are %s, the model has %s" % (f, got, want))
    cb = lambda v: "true" if v else "false"
    text = ("(* GENERATED by checks/c05.py from %s on every run — do not edit *)\n"
            "From Coq Require Import ZArith Bool.\nFrom SV Require Import c05.Model_C05.\nOpen Scope Z_scope.\n"
            "Definition VALUE_BITS : Z := %d.\nDefinition MERGED_BIT : Z := %d.\nDefinition QUEUED_BIT : Z := %d.\n"
            "Definition ASSERT_RANGE_BITS : Z := %d.\n"
            "Definition repo_cfg : config :=\n  {| %s |}.\n") % (
                LIB, vb, mb, qb, rng, ";\n     ".join("%s := %s" % (k, cb(v)) for k, v in flags.items()))
    ck.translate("Gen_C05", text)
    return flags


# ------------------------------------------------------------------------------------------------
# cases
# ------------------------------------------------------------------------------------------------
OPS = ["clone", "drop", "send", "get_mut", "make_mut", "unwrap", "read", "count", "merge", "register", "exit", "die"]


def coq_op(op):
    if op.startswith("send:"):
        return "Send %s" % op[5:]
    if op.startswith("await:"):
        return "Await %s" % op[6:]
    return {"clone": "Clone", "drop": "Drop", "get_mut": "GetMut", "make_mut": "MakeMut", "unwrap": "Unwrap", "read": "Read",
            "count": "CountOp", "merge": "Merge", "register": "Register", "exit": "Exit", "die": "Die"}[op]


def model_expr(case, sched, cfg="repo_cfg"):
    regs = [i for i, r in enumerate(case["registered"]) if r]
    progs = "[" + "; ".join("[" + "; ".join(coq_op(o) for o in ops) + "]" for ops in case["ops"]) + "]"
    return "render %s %d [%s] %s [%s]" % (cfg, case["creator"], "; ".join(map(str, regs)), progs,
                                          "; ".join(map(str, sched)))


HEADER = ("From Coq Require Import List ZArith String.\nFrom SV Require Import c05.Model_C05 gen.Gen_C05.\n"
          "Import ListNotations.\nOpen Scope nat_scope.")


def gen_ops(rng, n, i, maxlen):
    k = rng.randint(0, maxlen)
    ops = []
    for _ in range(k):
        r = rng.random()
        if r < 0.22:
            ops.append("clone")
        elif r < 0.46:
            ops.append("drop")
        elif r < 0.62 and n > 1:
            ops.append("send:%d" % rng.choice([j for j in range(n) if j != i]))
        elif r < 0.67:
            ops.append("get_mut")
        elif r < 0.70:
            ops.append("make_mut")
        elif r < 0.76:
            ops.append("unwrap")
        elif r < 0.80:
            ops.append("read")
        elif r < 0.84:
            ops.append("count")
        elif r < 0.94:
            ops.append("merge")
        elif r < 0.96:
            ops.append("register")
        else:
            ops.append("clone")
    if rng.random() < 0.25:
        ops.append(rng.choice(["exit", "exit", "die"]))
    return ops


def gen_schedule(rng, n, length):
    s = []
    while len(s) < length:
        t = rng.randrange(n)
        run = 1 if rng.random() < 0.5 else rng.randint(1, 12)
        s.extend([t] * run)
    return s[:length]


def gen_case(rng, maxlen=6):
    n = rng.choice([1, 2, 2, 2, 3, 3, 3])
    creator = rng.randrange(n)
    ops = [gen_ops(rng, n, i, maxlen) for i in range(n)]
    # the creator usually hands references out early
    if n > 1 and rng.random() < 0.8:
        pre = []
        for _ in range(rng.randint(1, 3)):
            pre += ["clone", "send:%d" % rng.choice([j for j in range(n) if j != creator])]
        ops[creator] = pre + ops[creator]
    return {"n": n, "creator": creator, "registered": [rng.random() < 0.7 for _ in range(n)], "ops": ops,
            "schedule": gen_schedule(rng, n, rng.choice([0, 20, 60, 150]))}


# Scenarios of the confirmed defects (DESIGN.md section 6): F1, F17 and its variants.  `await:K` makes
# them independent of the schedule.
CORPUS = [
    # F1: get_mut on a merged box (the owner dropped everything it had), then clone + drop => destroyed while
    # `mine` is alive (the seeds make get_mut run after the owner's merge)
    {"n": 2, "creator": 0, "registered": [True, True],
     "ops": [["clone", "send:1", "await:2", "drop", "drop"],
             ["await:1", "clone", "send:0", "get_mut", "get_mut", "get_mut", "clone", "drop", "read", "drop"]],
     "schedule": [], "seed": 588},
    # F1, leak variant: get_mut on a merged box then plain drop => counter -1, queued under key None
    {"n": 2, "creator": 0, "registered": [True, True],
     "ops": [["clone", "send:1", "await:2", "drop", "drop", "merge"],
             ["await:1", "clone", "send:0", "get_mut", "get_mut", "get_mut", "drop"]], "schedule": [], "seed": 588},
    # F17: deallocation while the box sits in its owner's merge queue
    {"n": 2, "creator": 0, "registered": [True, True],
     "ops": [["clone", "clone", "send:1", "send:1", "await:3", "drop", "drop", "drop", "merge"],
             ["await:2", "drop", "clone", "send:0", "send:0"]], "schedule": []},
    # F17 variant: slow_decrement deallocates a merged box that is still queued
    {"n": 2, "creator": 0, "registered": [True, True],
     "ops": [["clone", "clone", "send:1", "send:1", "await:3", "drop", "drop", "drop", "merge"],
             ["await:2", "drop", "clone", "clone", "send:0", "send:0", "drop"]], "schedule": [], "seed": 1196},
    {"n": 2, "creator": 0, "registered": [True, True],
     "ops": [["clone", "clone", "send:1", "send:1", "await:3", "drop", "drop", "drop", "merge"],
             ["await:2", "drop", "clone", "clone", "send:0", "send:0", "drop"]], "schedule": [], "seed": 324},
    # F17 variant: try_unwrap by the owner of a queued box
    {"n": 2, "creator": 0, "registered": [True, False],
     "ops": [["clone", "clone", "send:1", "send:1", "await:3", "drop", "drop", "unwrap", "merge"],
             ["await:2", "drop", "clone", "send:0", "send:0"]], "schedule": []},
    # the owner clears thread_id after a non-owner has already destroyed the box (found by this check)
    {"n": 2, "creator": 0, "registered": [True, True],
     "ops": [["clone", "send:1", "await:2", "drop", "drop"], ["await:1", "clone", "send:0", "drop"]],
     "schedule": [], "seed": 132},
    # make_mut: unique (kept) and shared (replaced by a copy, this reference dropped through the slow path)
    {"n": 2, "creator": 0, "registered": [True, True],
     "ops": [["make_mut", "clone", "send:1", "make_mut", "merge"], ["await:1", "make_mut", "make_mut"]], "schedule": []},
    # the owner gives the value up between a non-owner's decrement below zero and its enqueue: the enqueuer finds
    # no owner and leaves the queue itself (sites 32-34); second variant: the enqueuer is also the one that deallocates
    {"n": 3, "creator": 0, "registered": [True, True, True],
     "ops": [["clone", "clone", "send:1", "send:2", "await:3", "drop", "drop", "drop"], ["await:1", "drop"],
             ["await:1", "clone", "clone", "send:0", "send:0", "drop"]],
     "schedule": [0] * 12 + [1] * 6 + [2] * 11 + [0] * 40 + [1] * 20 + [2] * 20},
    {"n": 3, "creator": 0, "registered": [True, False, True],
     "ops": [["clone", "clone", "send:1", "send:2", "await:3", "drop", "drop", "drop"], ["await:1", "drop"],
             ["await:1", "clone", "clone", "send:0", "send:0", "drop"]],
     "schedule": [0] * 12 + [1] * 6 + [2] * 11 + [0] * 40 + [2] * 20 + [1] * 20},
    # plain life cycles
    {"n": 1, "creator": 0, "registered": [True], "ops": [["clone", "get_mut", "drop", "get_mut", "count", "unwrap"]], "schedule": []},
    {"n": 3, "creator": 1, "registered": [True, True, False],
     "ops": [["await:1", "clone", "drop", "drop"], ["clone", "send:0", "clone", "send:2", "drop", "merge", "exit"],
             ["await:1", "read", "count", "drop"]], "schedule": []},
]


# ------------------------------------------------------------------------------------------------
# running both sides
# ------------------------------------------------------------------------------------------------
def run_harness(ck, cases, batch=200, timeout_per_batch=120):
    """Run cases on the real crate (worker subprocesses of the c05 harness binary)."""
    results = [None] * len(cases)
    chunks = [list(range(i, min(i + batch, len(cases)))) for i in range(0, len(cases), batch)]
    lock = threading.Lock()
    binp = ck.harness_bin("c05")

    def work():
        while True:
            with lock:
                if not chunks:
                    return
                ids = chunks.pop(0)
            while ids:
                p = subprocess.Popen([binp], stdin=subprocess.PIPE, stdout=subprocess.PIPE, stderr=subprocess.DEVNULL, text=True)
                payload = "".join(json.dumps(dict(cases[i], id=i, max_steps=3000)) + "\n" for i in ids)
                killed = []

                def kill():
                    killed.append(1)
                    p.kill()
                tm = threading.Timer(timeout_per_batch, kill)
                tm.start()
                try:
                    out, _ = p.communicate(payload)
                finally:
                    tm.cancel()
                done = 0
                for line in out.splitlines():
                    try:
                        r = json.loads(line)
                    except Exception:
                        continue
                    if "id" in r:
                        results[r["id"]] = r
                        done += 1
                if done < len(ids):
                    results[ids[done]] = {"hang": timeout_per_batch} if killed else {"crash": p.returncode}
                    ids = ids[done + 1:]
                else:
                    ids = []

    ts = [threading.Thread(target=work) for _ in range(common.NPROC)]
    for t in ts:
        t.start()
    for t in ts:
        t.join()
    return results


def parse_model(s):
    d = dict(kv.split("=", 1) for kv in s.split(";"))
    return {"res": [[x for x in t.split(",") if x] for t in d["res"].split("|")],
            "held": [int(x) for x in d["held"].split(",") if x], "destr": int(d["destr"]), "freed": d["freed"] == "1",
            "uaf": int(d["uaf"]), "excl": int(d["excl"]), "fin": d["fin"] == "1", "q": int(d["q"]),
            "sites": [int(x) for x in d["sites"].split(",") if x]}


def impl_view(r):
    """Observables of a harness result in the model's vocabulary."""
    excl = any("get_mut returned Some while" in b or "try_unwrap returned Ok while" in b for b in r["bad"])
    return {"res": r["res"], "held": r["held"], "destr": r["drops"], "freed": r["deallocs"] >= 1,
            "uaf": bool(r["reports"]), "excl": excl, "sites": [s for _, s in r["trace"]],
            "q": r.get("queue_len")}


def compare(case, r, m):
    """List of differences between the harness result r and the parsed model result m."""
    iv = impl_view(r)
    diffs = []
    if not m["fin"]:
        diffs.append("model not finished after the harness trace")
    for k in ("res", "held", "destr", "freed", "sites"):
        if iv[k] != m[k]:
            diffs.append("%s: harness %s, model %s" % (k, iv[k], m[k]))
    if iv["uaf"] != (m["uaf"] > 0):
        diffs.append("access after deallocation: harness %s, model %d" % (iv["uaf"], m["uaf"]))
    if iv["excl"] != (m["excl"] > 0):
        diffs.append("exclusive access with other live references: harness %s, model %d" % (iv["excl"], m["excl"]))
    if iv["q"] is not None and iv["q"] != m["q"]:
        diffs.append("queue entries left: harness %s, model %d" % (iv["q"], m["q"]))
    return diffs


def oracle(case, r):
    """Property-level failures seen on the real crate, independent of the model."""
    bad = list(r["bad"])
    if (r.get("queue_creator") == 0 and sum(r["held"]) == 0 and r["deallocs"] == 0
            and not r["aborted"] and all(not any(x.startswith("panic") for x in t) for t in r["res"])):
        bad.append("leak: no reference is left, every thread is done, nothing is queued for the owner, "
                   "and the value was never destroyed")
    return bad


def canon(case):
    return {k: case[k] for k in ("n", "creator", "registered", "ops", "schedule") if k in case} | (
        {"seed": case["seed"]} if case.get("seed") is not None else {})


def check_cases(ck, cases, label, stats):
    res = run_harness(ck, cases)
    exprs, idx = [], []
    for i, r in enumerate(res):
        if r is None or "trace" not in r:
            ck.failing_input("%s: harness %s on %s" % (label, r, cases[i]), canon(cases[i]), tag="crash")
            continue
        if r["aborted"]:
            stats["aborted"] += 1
            continue
        exprs.append(model_expr(cases[i], [t for t, _ in r["trace"]]))
        idx.append(i)
    model = ck.coq_eval(HEADER, exprs, shard=max(20, len(exprs) // (2 * common.NPROC) + 1), timeout=2400)
    for i, ms in zip(idx, model):
        r, case = res[i], cases[i]
        m = parse_model(ms)
        ck.cov["evaluations"] += 1
        stats["steps"] += len(r["trace"])
        kinds = set(s for _, s in r["trace"])
        stats["sites"].update(kinds)
        key = (tuple(tuple(re.sub(r"\d", "", o) for o in t) for t in case["ops"]), tuple(tuple(t) for t in r["res"]), r["deallocs"])
        switches = sum(1 for a, b in zip(r["trace"], r["trace"][1:]) if a[0] != b[0])
        if switches >= 2 and len(kinds & {13, 26, 23, 64, 67, 33}) >= 1:
            stats["nontrivial"].add(key)
        if i % 41 == 0:
            ck.sample({"case": canon(case), "results": r["res"], "held": r["held"], "destroyed": r["deallocs"],
                       "steps": len(r["trace"]), "context_switches": switches})
        bad = oracle(case, r)
        if bad:
            stats["bad"] += 1
            c = dict(canon(case), trace=[t for t, _ in r["trace"]], failures=sorted(set(bad)))
            ck.failing_input("%s: %s" % (label, "; ".join(sorted(set(bad))[:3])), c, tag="rc")
        diffs = compare(case, r, m)
        if diffs:
            stats["disagree"] += 1
            ck.violation("model/implementation correspondence broken (%s): %s" % (label, "; ".join(diffs)[:600]),
                         {"case": canon(case), "trace": r["trace"], "harness": {k: r[k] for k in r if k != "trace"},
                          "model": ms, "correspondence": "c05.Model_C05 (repo_cfg) vs crates/steel-rc under the baton scheduler"},
                         no_input=not bad, tag="corr")
    return res


def bounded_schedules(n, length, switches):
    """All schedules of `length` steps over n threads with at most `switches` context switches,
    as (thread, run length) blocks; the scheduler completes round-robin after the prefix."""
    out = []
    for k in range(0, switches + 1):
        for cuts in itertools.combinations(range(1, length), k):
            bounds = [0] + list(cuts) + [length]
            for ths in itertools.product(range(n), repeat=k + 1):
                if any(a == b for a, b in zip(ths, ths[1:])):
                    continue
                s = []
                for j, t in enumerate(ths):
                    s += [t] * (bounds[j + 1] - bounds[j])
                out.append(s)
    return out


def run(ck):
    ck.cov["trusted_base"] = [
        "Coq 8.16.1 kernel, coqc; vm_compute for model evaluation",
        "hand-written model coq/c05/Model_C05.v of crates/steel-rc/src/lib.rs (one box; micro-steps at the yield sites of hook H1)",
        "translator in checks/c05.py (regular expressions over the function bodies of lib.rs): constants, decision shapes, yield-site sequences",
        "hook H1 (crates/steel-rc/src/verif.rs): baton scheduler, quarantine; harness/src/bin/c05.rs",
        "case renderer checks/c05.py (JSON case -> Coq term) and the observable comparison",
    ]
    ck.assumptions = [
        "sequential consistency: every atomic / Cell access at a yield site is one indivisible step (weak memory orderings are below the model)",
        "the dashmap merge queue is modelled as a multiset of entries per (map, key) with the lock held by a running explicit merge",
        "thread ids of live threads are distinct and are not reused while the value exists",
        "fewer than 2^29 references (the 30-bit counter does not overflow; set_value asserts the range)",
        "one value at a time: the payload destructor does not itself drop references to queued values",
        "Reclaim is stated under the hypothesis that the owner merges before it ends (limitation quoted from the BRC paper in lib.rs)",
    ]
    ck.level = "proof"
    ck.notes.append("Inv (any number of threads) is proved for the initial states and preserved by every micro-step and "
                    "every schedule (C05_step_preserves_Inv, C05_schedule_preserves_Inv); C05_no_use_after_free, "
                    "C05_destroyed_once, C05_exclusive_sound are corollaries for repo_cfg (the configuration read from lib.rs)")
    flags = translate(ck)
    ck.cov["repo_cfg"] = flags
    proved = ck.proof_stage(["c05"], ["c05/Properties_C05"], "c05/Pins_C05.v")
    ck.harness_build(["c05"])

    stats = {"aborted": 0, "steps": 0, "sites": set(), "nontrivial": set(), "bad": 0, "disagree": 0}
    corpus = [dict(c) for c in CORPUS]
    cdir = os.path.join(common.ROOT, "corpus", "c05")
    for p in sorted(os.listdir(cdir)) if os.path.isdir(cdir) else []:
        if p.endswith(".json"):
            obj = json.load(open(os.path.join(cdir, p)))
            corpus.append(obj.get("case", obj))
    check_cases(ck, corpus, "corpus", stats)
    n = 6000 if ck.tier == "quick" else 90000
    cases = [gen_case(ck.rng) for _ in range(n)]
    for c in cases:
        if ck.rng.random() < 0.3:
            c["seed"] = ck.rng.randrange(1, 2**31)
    for i in range(0, len(cases), 6000):
        check_cases(ck, cases[i:i + 6000], "random", stats)
        ck.log("random: %d/%d cases, %d micro-steps, %d with a property failure, %d disagreements" % (
            min(i + 6000, len(cases)), len(cases), stats["steps"], stats["bad"], stats["disagree"]))
    if ck.tier == "thorough":
        thorough(ck, stats)
    ck.cov["distinct_nontrivial"] = len(stats["nontrivial"])
    ck.cov["rule"] = ("cases = (1-3 threads, creator, registration, operation lists, schedule); every case runs on the real crate under "
                      "the baton scheduler and on the model with the executed schedule; distinct = distinct (operation-list shape, "
                      "per-operation results, destroyed?); non-trivial = the executed schedule has >= 2 context switches and "
                      "contains at least one compare-exchange step")
    ck.cov["micro_steps_executed"] = stats["steps"]
    ck.cov["yield_sites_covered"] = sorted(stats["sites"])
    ck.cov["cases_with_property_failure"] = stats["bad"]
    ck.cov["model_vs_impl_disagreements"] = stats["disagree"]
    ck.cov["aborted_cases"] = stats["aborted"]
    if not proved and not ck.violations:
        ck.unproved()


def thorough(ck, stats):
    """Systematic schedules for generated operation lists of at most 6 operations: every schedule prefix with
    at most 3 context switches in the first 30 steps (2 threads) / at most 2 in the first 36 steps (3 threads);
    the scheduler completes round-robin afterwards."""
    rng = ck.rng
    cases = []
    for _ in range(30):
        n = rng.choice([2, 2, 3])
        while True:
            c = gen_case(rng, maxlen=2)
            if c["n"] == n and sum(len(o) for o in c["ops"]) <= 6:
                break
        for s in bounded_schedules(n, 36 if n == 3 else 30, 2 if n == 3 else 3):
            cases.append(dict(c, schedule=s, seed=None))
    ck.log("thorough: %d systematic schedules" % len(cases))
    for i in range(0, len(cases), 6000):
        check_cases(ck, cases[i:i + 6000], "systematic", stats)
        ck.log("systematic: %d/%d schedules" % (min(i + 6000, len(cases)), len(cases)))


def replay(ck, path):
    obj = json.load(open(path))
    case = obj.get("case")
    if not case:
        print(json.dumps(obj, indent=1)[:4000])
        return
    translate(ck)
    ck.harness_build(["c05"])
    if case.get("trace"):
        case = dict(case, schedule=case["trace"], seed=None)
    stats = {"aborted": 0, "steps": 0, "sites": set(), "nontrivial": set(), "bad": 0, "disagree": 0}
    res = check_cases(ck, [case], "replay", stats)
    print(json.dumps({k: v for k, v in res[0].items() if k != "trace"}, indent=1))
