"""C18 — arbitrarily deep, wide or cyclic values are handled without exhausting the host (DESIGN.md section 4, C18).

(P) coq/c18: work-list algorithms over a value graph (drop with reference counts under any queue policy, marking,
    equality as marking of the product graph, cycle-aware printing) as single loops over an explicit queue + fuel;
    work-list = naive recursion on trees; drop releases exactly the nodes no other root reaches; fuel bounds.
(G) coq/gen/Gen_C18.v: for each (operation, value kind) whether the implementation's visitor arm pushes to a queue,
    recurses natively (bounded / unbounded) or is a leaf — parsed from rvals/cycles.rs, rvals.rs, values/closed.rs;
    theorem C18_recursive_arms_listed = the set of unbounded-recursive arms equals the committed expected set.
(C) child processes (8 MiB main-thread stack): shape x depth x operation must end with a value or an error value.
"""
import json
import os
import re
import time

from checks import common
from checks.common import TieBroken
from checks.c07 import run_cases, kind_of_outcome

# --------------------------------------------------------------------------------------------------
# translator: visitor arms -> coq/gen/Gen_C18.v
# --------------------------------------------------------------------------------------------------
# SteelVal variants that can hold other SteelVals (rvals.rs enum SteelVal); the others are atoms for every traversal
CONTAINER_KINDS = ["Closure", "VectorV", "Custom", "HashMapV", "HashSetV", "CustomStruct", "IterV", "ReducerV", "StreamV",
                   "ContinuationFunction", "ListV", "Pair", "MutableVector", "BoxedIterator", "SyntaxObject", "Boxed",
                   "HeapAllocated", "Reference"]
VISIT_FN_KIND = {
    "visit_closure": "Closure", "visit_immutable_vector": "VectorV", "visit_custom_type": "Custom", "visit_hash_map": "HashMapV",
    "visit_hash_set": "HashSetV", "visit_steel_struct": "CustomStruct", "visit_transducer": "IterV", "visit_reducer": "ReducerV",
    "visit_stream": "StreamV", "visit_continuation": "ContinuationFunction", "visit_list": "ListV", "visit_pair": "Pair",
    "visit_mutable_vector": "MutableVector", "visit_boxed_iterator": "BoxedIterator", "visit_syntax_object": "SyntaxObject",
    "visit_boxed_value": "Boxed", "visit_heap_allocated": "HeapAllocated", "visit_reference_value": "Reference",
}


def block_after(src, start_re, what):
    """text of the brace block that starts at the first `{` after the match of start_re."""
    m = re.search(start_re, src)
    if not m:
        raise TieBroken("translator C18: cannot find %s (%s)" % (what, start_re))
    i = src.index("{", m.end() - 1)
    depth = 0
    j = i
    n = len(src)
    while j < n:
        c = src[j]
        if c == "{":
            depth += 1
        elif c == "}":
            depth -= 1
            if depth == 0:
                return src[i:j + 1]
        elif c == "/" and src.startswith("//", j):
            j = src.index("\n", j)
            continue
        elif c == '"':
            j += 1
            while src[j] != '"':
                j += 2 if src[j] == "\\" else 1
        elif c == "'" and re.match(r"'(\\.|[^\\'])'", src[j:j + 4]):
            j += len(re.match(r"'(\\.|[^\\'])'", src[j:j + 4]).group(0)) - 1
        j += 1
    raise TieBroken("translator C18: unbalanced block for %s" % what)


def strip_comments(s):
    return re.sub(r"//[^\n]*", "", s)


def visitor_fns(block):
    """{fn name: body} of the `fn visit_*` methods directly inside an impl block."""
    out = {}
    for m in re.finditer(r"\bfn (visit_[a-z_]+)\s*\(", block):
        try:
            body = block_after(block[m.start():], r"\bfn visit_[a-z_]+\s*\([^)]*\)[^{;]*\{", m.group(1))
        except TieBroken:
            continue
        out[m.group(1)] = strip_comments(body)
    return out


def match_arms(block, indent, pat=r"\(?(?:SteelVal::)?([A-Z][A-Za-z]+)\b"):
    """[(kind, body)] of match arms that start at exactly `indent` spaces."""
    lines = block.split("\n")
    arms = []
    cur = None
    for ln in lines:
        m = re.match(r"^ {%d}(?:#\[[^\]]*\]\s*)?%s" % (indent, pat), ln)
        if m and "=>" in ln or (m and cur is None and False):
            cur = [m.group(1), [ln]]
            arms.append(cur)
        elif cur is not None:
            if re.match(r"^ {0,%d}\S" % (indent - 1), ln) and not ln.strip().startswith(("}", ")")):
                cur = None
            else:
                cur[1].append(ln)
    return [(k, strip_comments("\n".join(b))) for k, b in arms]


def classify(body, rec_re, bounded=False):
    q = bool(re.search(r"\bpush_back\s*\(|\.push\s*\(|\.extend\s*\(|mark_and_visit|self\.save\(", body))
    r = bool(re.search(rec_re, body))
    if r:
        return "RecBounded" if bounded else "Rec"
    if q:
        return "Queue"
    return "Leaf"


def translate(ck):
    cyc = common.repo_file("crates/steel-core/src/rvals/cycles.rs")
    rv = common.repo_file("crates/steel-core/src/rvals.rs")
    closed = common.repo_file("crates/steel-core/src/values/closed.rs")
    table = []   # (op, kind, arm)

    # drop: IterativeDropHandler visitor + the Drop impls that start it
    blk = block_after(cyc, r"impl<'a> BreadthFirstSearchSteelValVisitor for IterativeDropHandler<'a>\s*\{", "IterativeDropHandler visitor")
    fns = visitor_fns(blk)
    if len(fns) < 30:
        raise TieBroken("translator C18: only %d visit_* fns in IterativeDropHandler" % len(fns))
    for fn, kind in VISIT_FN_KIND.items():
        if fn not in fns:
            table.append(("drop", kind, "Missing"))
            continue
        # a native recursion would be: dropping the container in place (drop(..)), calling another visitor method
        table.append(("drop", kind, classify(fns[fn], r"\bself\.visit_[a-z_]+\(|\bdrop\s*\(")))
    drop_mod = block_after(cyc, r"pub\(crate\) mod drop_impls\s*\{", "drop_impls")
    drop_mod_nc = strip_comments(drop_mod)
    for ty, kind in [("SteelVector", "VectorV"), ("SteelHashMap", "HashMapV"), ("UserDefinedStruct", "CustomStruct"),
                     ("LazyStream", "StreamV"), ("ByteCodeLambda", "Closure"), ("Pair", "Pair")]:
        m = re.search(r"impl Drop for %s\s*\{" % ty, drop_mod_nc)
        if not m:
            table.append(("drop_entry", kind, "Rec"))     # compiler-generated recursive drop glue
            continue
        body = block_after(drop_mod_nc[m.start():], r"impl Drop for %s\s*\{" % ty, "Drop for " + ty)
        table.append(("drop_entry", kind, "Queue" if "IterativeDropHandler::bfs" in body else "Rec"))

    # equality: RecursiveEqualityHandler::visit match arms
    blk = block_after(cyc, r"impl<'a> RecursiveEqualityHandler<'a>\s*\{", "RecursiveEqualityHandler")
    vis = block_after(blk, r"fn visit\(&mut self\) -> bool\s*\{", "RecursiveEqualityHandler::visit")
    arms = match_arms(vis, 16)
    evis = visitor_fns(block_after(cyc, r"impl<'a> BreadthFirstSearchSteelValVisitor for EqualityVisitor<'a>\s*\{", "EqualityVisitor visitor"))
    seen, guard = {}, {}
    for kind, body in arms:
        if body.split("\n")[0].count(kind + "(") < 2:
            continue        # mixed-kind arm, e.g. (VectorV(l), MutableVector(r))
        if kind in CONTAINER_KINDS and kind not in seen:
            # native recursion: comparing nested SteelVals with == / eq / a fresh handler inside the arm
            c = classify(body, r"SteelVal::eq\(|compare_equality\(|\b(lvalue|rvalue|a|b)\s*==\s*(lvalue|rvalue|a|b)\b")
            for fn in re.findall(r"self\.left\.(visit_[a-z_]+)\(", body):
                if c != "Rec":
                    c = classify(evis.get(fn, ""), r"\bself\.visit_[a-z_]+\(") if fn in evis else "Missing"
            seen[kind] = c
            # does the arm consult the visited set before expanding the pair?  (Rec = expands unconditionally:
            # a cycle through this kind is expanded forever)
            if c == "Queue":
                guard[kind] = "Queue" if "should_visit(" in body else "Rec"
    if len(seen) < 10:
        raise TieBroken("translator C18: only %d container arms found in RecursiveEqualityHandler::visit" % len(seen))
    for kind in CONTAINER_KINDS:
        table.append(("equal", kind, seen.get(kind, "Missing")))
    for kind in CONTAINER_KINDS:
        if kind in guard:
            table.append(("equal_guard", kind, guard[kind]))

    # printer pass 1: CycleCollector (visited set + queue)
    blk = block_after(cyc, r"impl<'a> BreadthFirstSearchSteelValVisitor for CycleCollector<'a>\s*\{", "CycleCollector visitor")
    fns = visitor_fns(blk)
    for fn, kind in VISIT_FN_KIND.items():
        table.append(("print_collect", kind, classify(fns[fn], r"\bself\.visit_[a-z_]+\(") if fn in fns else "Missing"))
    # printer pass 2: format_with_cycles (recursive, guarded by the depth counter)
    fmt = block_after(cyc, r"fn format_with_cycles\(", "format_with_cycles")
    guarded = bool(re.search(r"if self\.depth > (\d+)\s*\{[^}]*return write!\(f, \"\.\.\.\"\)", strip_comments(fmt)))
    farms = {}
    for kind, body in match_arms(fmt, 12):
        if kind in CONTAINER_KINDS and kind not in farms:
            rec = bool(re.search(r"self\.format_with_cycles\(", body))
            # formatting a nested value through Display/Debug starts a fresh detector (depth 0): unbounded
            deleg = bool(re.search(r"write!\(\s*f\s*,\s*\"[^\"]*\{[:#?]*\}[^\"]*\"\s*,\s*&?\s*(?:hm\b|hs\b|b\.read\(\)|b\.get\(\)|[a-z]+\.as_ref\(\)|item\b|last\b|i\b|p\.car\b|p\.cdr\b|[a-z]+\.car\(\)|[a-z]+\.cdr\(\))", body))
            farms[kind] = "Rec" if deleg else (("RecBounded" if guarded else "Rec") if rec else "Leaf")
    if len(farms) < 8:
        raise TieBroken("translator C18: only %d container arms found in format_with_cycles" % len(farms))
    for kind in CONTAINER_KINDS:
        table.append(("print_format", kind, farms.get(kind, "Missing")))

    # hashing: impl Hash for SteelVal
    h = block_after(rv, r"impl Hash for SteelVal\s*\{", "impl Hash for SteelVal")
    harms = {}
    for kind, body in match_arms(h, 12):
        if kind in CONTAINER_KINDS and kind not in harms:
            by_ptr = bool(re.search(r"as_ptr\(|\.id\b", body))
            if kind == "Closure":
                # Gc<ByteCodeLambda>::hash -> impl Hash for ByteCodeLambda (values/functions.rs): by id unless it walks the captures
                fsrc = common.repo_file("crates/steel-core/src/values/functions.rs")
                hb = block_after(fsrc, r"impl core::hash::Hash for ByteCodeLambda\s*\{", "Hash for ByteCodeLambda")
                by_ptr = "captures" not in strip_comments(hb)
            harms[kind] = "Leaf" if by_ptr else "Rec"
    for kind in CONTAINER_KINDS:
        table.append(("hash", kind, harms.get(kind, "Missing")))

    # marking: MarkAndSweepContext visitor
    blk = block_after(closed, r"impl<'a> BreadthFirstSearchSteelValVisitor for MarkAndSweepContext<'a>\s*\{", "MarkAndSweepContext visitor")
    fns = visitor_fns(blk)
    for fn, kind in VISIT_FN_KIND.items():
        table.append(("mark", kind, classify(fns[fn], r"\bself\.visit_[a-z_]+\(") if fn in fns else "Missing"))

    lines = ["(* GENERATED by checks/c18.py from rvals/cycles.rs, rvals.rs, values/closed.rs — do not edit.",
             "   For each (operation, value kind): how the implementation's visitor arm treats nested values. *)",
             "From Coq Require Import List String.", "Import ListNotations.", "Open Scope string_scope.", "",
             "Inductive arm := Queue | Rec | RecBounded | Leaf | Missing.", "",
             "Definition arm_table : list (string * string * arm) := ["]
    lines.append(";\n".join('  ("%s", "%s", %s)' % t for t in table))
    lines.append("].")
    lines.append("")
    lines.append("Definition format_depth_guarded : bool := %s." % ("true" if guarded else "false"))
    ck.translate("Gen_C18", "\n".join(lines) + "\n")
    return table



# --------------------------------------------------------------------------------------------------
# correspondence: shape x depth x operation in child processes
# --------------------------------------------------------------------------------------------------
SHAPES = {
    "list": "(list acc)", "pair-car": "(cons acc 1)", "pair-cdr": "(cons 1 acc)", "ivector": "(immutable-vector acc)",
    "mvector": "(vector acc)", "hash": "(hash 'k acc)", "hashset": "(hashset acc)", "struct": "(c18node acc)",
    "mstruct": "(c18mnode acc)", "box": "(box acc)", "closure": "(let ([p acc]) (lambda () p))",
    "stream": "(stream-cons 1 (let ([p acc]) (lambda () p)))",
    "mixed": "(if (even? i) (list (vector acc) 1) (hash 'k (box (c18node acc))))",
}
WIDE = {"wide-list": "(range 0 N)", "wide-vector": "(list->vector (range 0 N))", "wide-hash": "(transduce (range 0 N) (mapping (lambda (i) (cons i i))) (into-hashmap))",
        "wide-string": "(make-string N #\\a)"}
KIND_SHAPE = {"ListV": "list", "Pair": "pair-car", "VectorV": "ivector", "MutableVector": "mvector", "HashMapV": "hash",
              "HashSetV": "hashset", "CustomStruct": "struct", "HeapAllocated": "box", "Boxed": "box", "Closure": "closure", "StreamV": "stream"}
OPS = {
    "create": "(begin (define c18-a (c18-build N)) 'created)",
    "equal": "(begin (define c18-a (c18-build N)) (define c18-b (c18-build N)) (equal? c18-a c18-b))",
    "hash": "(begin (define c18-a (c18-build N)) (define c18-h (hash-insert (hash) c18-a 1)) (hash-contains? c18-h c18-a))",
    "print": "(begin (define c18-a (c18-build N)) (string-length (to-string c18-a)))",
    "send": "(begin (define c18-a (c18-build N)) (define c18-t (spawn-native-thread (lambda () (if (void? c18-a) 0 1)))) (thread-join! c18-t))",
    "collect": "(begin (define c18-a (c18-build N)) (#%gc-collect) 'collected)",
    "discard": "(begin (define c18-a (c18-build N)) (set! c18-a #f) (#%gc-collect) 'discarded)",
}
OP_OF_TABLE = {"drop": "discard", "drop_entry": "discard", "equal": "equal", "equal_guard": "equal", "print_collect": "print",
               "print_format": "print", "hash": "hash", "mark": "collect"}
PRE = ["(struct c18node (next) #:transparent)", "(struct c18mnode (next) #:mutable #:transparent)"]
PROBE = "(list (+ 1 2) (length (map (lambda (x) x) (list 1 2 3))))"
PROBE_WANT = "(I3 I3)"

# cycles through mutable containers: (name, setup, {op: expression})
CYCLES = [
    ("mvector-self", "(define c1 (vector 1 2)) (vector-set! c1 0 c1) (define c2 (vector 1 2)) (vector-set! c2 0 c2)"),
    ("mvector-2cycle", "(define c1 (vector 0)) (define c1b (vector c1)) (vector-set! c1 0 c1b) (define c2 (vector 0)) (define c2b (vector c2)) (vector-set! c2 0 c2b)"),
    ("box-self", "(define c1 (box 1)) (set-box! c1 c1) (define c2 (box 1)) (set-box! c2 c2)"),
    ("box-list", "(define c1 (box 1)) (set-box! c1 (list 1 c1)) (define c2 (box 1)) (set-box! c2 (list 1 c2))"),
    ("box-hash", "(define c1 (box 0)) (set-box! c1 (hash 'a c1)) (define c2 (box 0)) (set-box! c2 (hash 'a c2))"),
    ("mstruct-self", "(define c1 (c18mnode 1)) (set-c18mnode-next! c1 c1) (define c2 (c18mnode 1)) (set-c18mnode-next! c2 c2)"),
    ("mstruct-vector-box", "(define c1 (c18mnode 1)) (set-c18mnode-next! c1 (vector (box c1))) (define c2 (c18mnode 1)) (set-c18mnode-next! c2 (vector (box c2)))"),
    ("vector-box-long", "(define c1 (vector 0)) (vector-set! c1 0 (let loop ([i 0] [acc c1]) (if (= i 1000) acc (loop (+ i 1) (vector (box acc)))))) "
                        "(define c2 (vector 0)) (vector-set! c2 0 (let loop ([i 0] [acc c2]) (if (= i 1000) acc (loop (+ i 1) (vector (box acc))))))"),
    ("closure-box", "(define c1 (box 0)) (set-box! c1 (lambda () c1)) (define c2 (box 0)) (set-box! c2 (lambda () c2))"),
    # cycles entered through STRONG boxes (box-strong: a reference-counted mutable cell outside the collected heap)
    ("strongbox-self", "(define c1 (box-strong 0)) (set-strong-box! c1 c1) (define c2 (box-strong 0)) (set-strong-box! c2 c2)"),
    ("strongbox-2ring", "(define c1 (box-strong 0)) (define c1b (box-strong c1)) (set-strong-box! c1 c1b) "
                        "(define c2 (box-strong 0)) (define c2b (box-strong c2)) (set-strong-box! c2 c2b)"),
    ("strongbox-list-box", "(define c1 (box-strong 0)) (set-strong-box! c1 (list (box 0) c1)) (define c2 (box-strong 0)) (set-strong-box! c2 (list (box 0) c2))"),
    ("strongbox-vector", "(define c1 (box-strong 0)) (set-strong-box! c1 (vector c1 1)) (define c2 (box-strong 0)) (set-strong-box! c2 (vector c2 1))"),
]
CYCLE_OPS = {"equal": "(equal? c1 c2)", "equal-self": "(equal? c1 c1)", "print": "(string-length (to-string c1))",
             "discard": "(begin (set! c1 #f) (set! c2 #f) (#%gc-collect) 'discarded)", "hash": "(hash-contains? (hash-insert (hash) c1 1) c1)"}


# model <-> engine on cyclic equality: the same small cyclic graphs, hand-encoded for the model (node -> label, children)
COQ_HEADER = """From Coq Require Import List Arith String.
From SV Require Import c18.Model_C18.
Import ListNotations.
Open Scope string_scope.
Definition c18_show (o : option bool) : string := match o with Some true => "#t" | Some false => "#f" | None => "out-of-fuel" end.
Definition g (l : list (nat * (nat * list nat))) : (nat -> nat) * (nat -> list nat) :=
  (fun n => match find (fun p => Nat.eqb (fst p) n) l with Some p => fst (snd p) | None => 0 end,
   fun n => match find (fun p => Nat.eqb (fst p) n) l with Some p => snd (snd p) | None => [] end).
Definition c18_eq (l1 l2 : list (nat * (nat * list nat))) : string :=
  c18_show (eq_loop 50 (fst (g l1)) (fst (g l2)) (snd (g l1)) (snd (g l2)) [(0, 0)] []).
"""
# (name, steel setup defining c1, c2 (isomorphic) and c3 (one leaf differs), model graph of c1/c2, model graph of c3)
EQ_GRAPHS = [
    ("mvector-self", "(define c1 (vector 0 2)) (vector-set! c1 0 c1) (define c2 (vector 0 2)) (vector-set! c2 0 c2) (define c3 (vector 0 3)) (vector-set! c3 0 c3)",
     "[(0, (1, [0; 1])); (1, (102, []))]", "[(0, (1, [0; 1])); (1, (103, []))]"),
    ("box-list", "(define c1 (box 0)) (set-box! c1 (list 1 c1)) (define c2 (box 0)) (set-box! c2 (list 1 c2)) (define c3 (box 0)) (set-box! c3 (list 2 c3))",
     "[(0, (2, [1])); (1, (3, [2; 0])); (2, (101, []))]", "[(0, (2, [1])); (1, (3, [2; 0])); (2, (102, []))]"),
    ("mvector-2cycle-leaf", "(define c1 (vector 0 7)) (define c1b (vector c1)) (vector-set! c1 0 c1b) (define c2 (vector 0 7)) (define c2b (vector c2)) (vector-set! c2 0 c2b) "
                            "(define c3 (vector 0 8)) (define c3b (vector c3)) (vector-set! c3 0 c3b)",
     "[(0, (1, [1; 2])); (1, (1, [0])); (2, (107, []))]", "[(0, (1, [1; 2])); (1, (1, [0])); (2, (108, []))]"),
    ("mstruct-box", "(define c1 (c18mnode 5)) (set-c18mnode-next! c1 (box c1)) (define c2 (c18mnode 5)) (set-c18mnode-next! c2 (box c2)) (define c3 (c18mnode 5)) (set-c18mnode-next! c3 (box (box c3)))",
     "[(0, (4, [1])); (1, (2, [0]))]", "[(0, (4, [1])); (1, (2, [2])); (2, (2, [0]))]"),
]


def eq_correspondence(ck):
    exprs, cases = [], []
    for name, setup, g12, g3 in EQ_GRAPHS:
        exprs += ["c18_eq %s %s" % (g12, g12), "c18_eq %s %s" % (g12, g3)]
        cases += [PRE + [setup, "(equal? c1 c2)"], PRE + [setup, "(equal? c1 c3)"]]
    model = ck.coq_eval(COQ_HEADER, exprs)
    res = run_cases(ck, cases, fresh=True, batch=1, stall=30, mem_gb=4, stack_kb=8192, nproc=8, max_bad_per_case=1)
    bad = 0
    for i, (m, r) in enumerate(zip(model, res)):
        o = r[-1] or {"missing": 1}
        got = (o.get("ok") or ["<%s>" % kind_of_outcome(o)])[-1]
        ck.cov["evaluations"] += 1
        if got != m:
            bad += 1
            name = EQ_GRAPHS[i // 2][0]
            case = {"search": "cycle", "cycle": name, "op": "equal" if i % 2 == 0 else "unequal", "outcome": kind_of_outcome(o) if "ok" not in o else "wrong-answer",
                    "units": cases[i], "model": m, "engine": got}
            if kind_of_outcome(o) in ("hang", "crash", "panic"):
                ck.failing_input("cyclic equal? %s: %s (model: %s)" % (name, kind_of_outcome(o), m), case, tag="cycle")
            else:
                ck.failing_input("cyclic equal? %s: engine %s, coinductive equality (model eq_loop) %s" % (name, got, m), case, tag="cycle")
    ck.cov["eq_correspondence_cases"] = len(cases)
    ck.cov["eq_correspondence_disagreements"] = bad


def deep_case(shape, op, n):
    if shape in WIDE:
        build = "(define (c18-build n) %s)" % WIDE[shape].replace("N", "n")
    else:
        build = "(define (c18-build n) (let loop ([i 0] [acc 0]) (if (= i n) acc (loop (+ i 1) %s))))" % SHAPES[shape]
    return PRE + [build, OPS[op].replace("N", str(n)), PROBE]


def cycle_case(name, op):
    setup = [c[1] for c in CYCLES if c[0] == name][0]
    if op == "recycle":
        # the global-slot recycler (closed.rs GlobalSlotRecycler) walks everything reachable from the live globals
        # once enough shadowed slots have accumulated: 130 redefinitions in separate units while c1 / c2 are live
        redefs = ["(define c18-victim-%d %d)" % (k % 4, k) for k in range(130)]
        return PRE + [setup] + redefs + ["(begin (define c18-fresh 1) (list 'recycled c18-victim-1 (equal? c1 c1)))", PROBE]
    return PRE + [setup, CYCLE_OPS[op], PROBE]


def outcome_of(res, nunits):
    """(class, detail) of the operation unit (second to last) and whether the engine answered the probe."""
    op_o = res[nunits - 2] or {"missing": 1}
    k = kind_of_outcome(op_o)
    pr = res[nunits - 1] or {"missing": 1}
    probe_ok = (pr.get("ok") or [""])[-1] == PROBE_WANT
    # failures while building (earlier units) count for the operation too
    for r in res[:nunits - 2]:
        if kind_of_outcome(r or {"missing": 1}) not in ("ok",):
            return kind_of_outcome(r or {"missing": 1}), r, probe_ok
    return k, op_o, probe_ok


# ---- known-finding predicates -----------------------------------------------------------------------
def c18_recursive_hash(case, params):
    """Hashing (impl Hash for SteelVal) recurses natively through every container kind: using a value nested deeper
    than `min_depth` as a hash-map key overflows the native stack."""
    if not (case.get("search") == "deep" and case.get("depth", 0) >= params.get("min_depth", 10000)):
        return False
    if case.get("shape") in params.get("hash_built_shapes", []):
        # building the value already hashes the nested value at every level (quadratic time, linear native stack)
        return case.get("outcome") in ("crash", "hang")
    if case.get("outcome") != "crash":
        return False
    return case.get("op") == "hash" and case.get("shape") in params.get("shapes", [])


def c18_recursive_print(case, params):
    """format_with_cycles prints hash maps / hash sets / boxes through Display/Debug of the nested value (a fresh
    detector with depth 0 per level): printing such a value nested deeper than `min_depth` overflows the native stack."""
    return (case.get("search") == "deep" and case.get("op") == "print" and case.get("outcome") in ("crash", "hang")
            and case.get("depth", 0) >= params.get("min_depth", 10000) and case.get("shape") in params.get("shapes", []))


def c18_cyclic_print_through_box(case, params):
    """Printing a cycle that passes through a box (HeapAllocated): CycleDetector::start_format looks the box up by the
    address of its content (unwrap on None, cycles.rs) or the box arm recurses through Display without the detector
    (native stack overflow)."""
    return (case.get("search") == "cycle" and case.get("op") == "print" and case.get("outcome") in ("panic", "crash", "hang")
            and case.get("cycle") in params.get("cycles", []))


def c18_strong_box_cycle(case, params):
    """A cycle that goes through a STRONG box (box-strong / set-strong-box!): printing, hashing, the global-slot recycler
    and (for rings of strong boxes) discarding do not terminate or exhaust the stack / memory.  equal? terminates on
    these values and is NOT part of the class."""
    return (case.get("search") == "cycle" and str(case.get("cycle", "")).startswith("strongbox")
            and case.get("op") in ("print", "hash", "recycle", "discard") and case.get("outcome") in ("hang", "crash"))


def c18_cyclic_hash(case, params):
    """Hashing a cyclic structure recurses forever (native stack overflow)."""
    return (case.get("search") == "cycle" and case.get("op") == "hash" and case.get("outcome") == "crash"
            and case.get("cycle") in params.get("cycles", []))


def run(ck):
    ck.cov["trusted_base"] = [
        "Coq 8.16.1 kernel, coqc; vm_compute only on the closed generated table and the closed witnesses",
        "hand-written model coq/c18/Model_C18.v of the work-list loops (IterativeDropHandler, RecursiveEqualityHandler, "
        "CycleCollector, MarkAndSweepContext); the printer's second pass (format_with_cycles) is recursive under a depth "
        "guard in the implementation and is modelled as a work list (the guard is a generated fact)",
        "translator checks/c18.py:translate (regex/brace parser over rvals/cycles.rs, rvals.rs, values/closed.rs, values/functions.rs)",
        "harness/src/bin/c07.rs evaluation server in child processes (8 MiB main-thread stack via RLIMIT_STACK, 4 GiB address space)",
    ]
    ck.assumptions = [
        "native stack use is observed (crash / no crash at depth 10^3, 10^5, 10^6), not proved: the proof is about the "
        "model's loops and about which implementation arms push to a queue",
        "steel-rc reference counting is exact (C05); im-lists / imbl containers drop their own spine without deep recursion",
    ]
    quick = ck.tier == "quick"
    table = translate(ck)
    proved = ck.proof_stage(["c18"], ["c18/Properties_C18"], "c18/Pins_C18.v", extra_obligations=0)
    ck.harness_build(["c07"])
    eq_correspondence(ck)
    rng = ck.rng
    expected_rec = coq_expected_rec()
    rec_now = [(op, k) for (op, k, a) in table if a == "Rec"]
    new_rec = [x for x in rec_now if x not in expected_rec]
    ck.cov["arm_table"] = {"%s/%s" % (op, k): a for (op, k, a) in table}
    ck.cov["recursive_arms"] = ["%s/%s" % x for x in rec_now]

    depths = [1000, 100000] if quick else [1000, 100000, 1000000]
    cases, meta = [], []
    shapes = list(SHAPES)
    for shape in shapes:
        for n in depths:
            ops = list(OPS)
            if quick and n >= 100000:
                ops = rng.sample(ops, 4) if shape not in ("closure", "list", "hash") else ops
                if shape == "hashset":
                    ops = ops[:2]
            for op in ops:
                if shape == "stream" and op in ("print",) and False:
                    continue
                cases.append(deep_case(shape, op, n))
                meta.append({"search": "deep", "shape": shape, "op": op, "depth": n})
    for shape in WIDE:
        for n in ([100000] if quick else [100000, 1000000]):
            for op in (["create", "equal", "hash", "print", "discard"] if not quick else rng.sample(["create", "equal", "hash", "print", "discard"], 3)):
                cases.append(deep_case(shape, op, n))
                meta.append({"search": "deep", "shape": shape, "op": op, "depth": n})
    # a generated arm that turned recursive: synthesise the deep value of that kind and run the operation
    for (op, k) in new_rec:
        if k in KIND_SHAPE and op in OP_OF_TABLE:
            for n in (100000, 1000000):
                cases.append(deep_case(KIND_SHAPE[k], OP_OF_TABLE[op], n))
                meta.append({"search": "deep", "shape": KIND_SHAPE[k], "op": OP_OF_TABLE[op], "depth": n, "because": "%s/%s became recursive" % (op, k)})
    import glob
    for pth in sorted(glob.glob(os.path.join(common.ROOT, "corpus", "c18", "*.json"))):
        for item in json.load(open(pth)):
            cases.append(item["units"])
            meta.append({"search": "corpus", "shape": item["name"], "op": "corpus"})
    for (name, _) in CYCLES:
        for op in list(CYCLE_OPS) + ["recycle"]:
            cases.append(cycle_case(name, op))
            meta.append({"search": "cycle", "cycle": name, "op": op})
    t0 = time.time()
    res = run_cases(ck, cases, prelude="", env=None, fresh=True, batch=1, stall=45 if quick else 240, mem_gb=4, stack_kb=8192,
                    nproc=8, max_bad_per_case=1)
    ck.log("%d cases in %.0fs" % (len(cases), time.time() - t0))
    hist = {}
    distinct = set()
    fails = []
    found_new_rec_failure = False
    for m, units, r in zip(meta, cases, res):
        k, o, probe_ok = outcome_of(r, len(units))
        ck.cov["evaluations"] += 1
        key = "%s:%s" % (m["op"], k)
        hist[key] = hist.get(key, 0) + 1
        distinct.add((m.get("shape") or m.get("cycle"), m["op"], m.get("depth", 0), k))
        d = dict(m, outcome=k, units=units)
        if isinstance(o, dict):
            d.update({kk: v for kk, v in o.items() if kk in ("panic", "crash", "stderr", "hang", "err", "msg")})
        if k in ("ok", "err"):
            if k == "ok":
                d["value"] = o.get("ok")
            # c1 and c2 are isomorphic (equal-self: identical); closures of different lambda expressions are never equal?
            want_true = m["search"] == "cycle" and (m["op"] == "equal-self" or (m["op"] == "equal" and m["cycle"] != "closure-box"))
            if want_true and (k != "ok" or (o.get("ok") or [""])[-1] != "#t"):
                d["outcome"] = "wrong-answer"
                fails.append(d)
                continue
            if not probe_ok and k == "ok":
                d["outcome"] = "engine-unusable-after"
                fails.append(d)
            continue
        fails.append(d)
        if m.get("because"):
            found_new_rec_failure = True
    # a stall can be the machine, not the engine: an unclassified hang counts only if the case alone, with a much longer
    # bound, still does not come back
    hk = [d for d in fails if d["outcome"] == "hang" and ck.classify(d) is None]
    if hk:
        conf = run_cases(ck, [d["units"] for d in hk], fresh=True, batch=1, stall=300, mem_gb=4, stack_kb=8192, nproc=4, max_bad_per_case=1)
        for d, r in zip(hk, conf):
            k, o, probe_ok = outcome_of(r, len(d["units"]))
            if k in ("ok", "err") and probe_ok:
                fails.remove(d)
            elif k != "hang":
                d["outcome"] = k
                if isinstance(o, dict):
                    d.update({kk: v for kk, v in o.items() if kk in ("panic", "crash", "stderr")})
    if os.environ.get("C18_DUMP"):
        json.dump(fails, open(os.environ["C18_DUMP"], "w"), indent=1, default=str)
    for d in fails:
        what = "%s %s %s%s: %s %s" % (d["search"], d.get("shape") or d.get("cycle"), d["op"],
                                      (" depth %d" % d["depth"]) if "depth" in d else "", d["outcome"],
                                      (d.get("panic") or d.get("stderr") or "")[:120].replace("\n", " "))
        ck.failing_input(what, d, tag=d["search"])
    ck.cov["outcome_histogram"] = hist
    ck.cov["distinct_nontrivial"] = len(distinct)
    ck.cov["rule"] = ("distinct = distinct (shape | cycle, operation, depth, outcome class); every case has depth >= 10^3 or is cyclic "
                      "(shapes %s; operations %s; depths %s)" % (sorted(SHAPES) + sorted(WIDE), sorted(OPS), depths))
    ok_samples = [(m, r) for m, r in zip(meta, res) if m["search"] == "deep" and m["depth"] >= 100000][:3]
    for m, r in ok_samples:
        ck.sample({"case": m, "outcome": (r[-2] if len(r) >= 2 else r)})
    for m, r in [(m, r) for m, r in zip(meta, res) if m["search"] == "cycle"][:3]:
        ck.sample({"case": m, "outcome": (r[-2] if len(r) >= 2 else r)})
    if new_rec and not found_new_rec_failure:
        ck.violation("visitor arms became natively recursive (no crashing value found at depth 10^6): %s" % new_rec,
                     {"broken": "C18_recursive_arms_listed", "new_recursive_arms": new_rec}, no_input=True, tag="arms")
    elif not proved and not ck.violations:
        ck.unproved()


def coq_expected_rec():
    src = open(os.path.join(common.COQ, "c18", "Model_C18.v")).read()
    m = re.search(r"Definition expected_rec[^:]*:[^=]*:=\s*\[(.*?)\]\.", src, re.S)
    if not m:
        raise TieBroken("expected_rec not found in Model_C18.v")
    return [tuple(x) for x in re.findall(r'\("([a-z_]+)",\s*"([A-Za-z]+)"\)', m.group(1))]


def replay(ck, path):
    obj = json.load(open(path))
    case = obj.get("case")
    if not case or "units" not in case:
        print(json.dumps(obj, indent=1)[:4000])
        return
    ck.harness_build(["c07"])
    r = run_cases(ck, [case["units"]], fresh=True, batch=1, stall=240, mem_gb=4, stack_kb=8192, nproc=1, max_bad_per_case=1)[0]
    for u, o in zip(case["units"], r):
        print(u[:110], " => ", json.dumps(o)[:240])
    k, o, probe_ok = outcome_of(r, len(case["units"]))
    if k not in ("ok", "err") or (k == "ok" and not probe_ok):
        d = dict(case, outcome=k)
        ck.failing_input("replay: %s" % k, d, tag=case.get("search", "deep"))
