"""C15 — world-stopping operations see other threads only while they are stopped (DESIGN.md section 4, C15).

(P) coq/c15: the handshake model shared with C16; single_stopper / flags_cleared / parked_released for all thread
    counts and schedules of the repaired lock discipline; stw_refuted (the exit window, finding F10) as witness;
    thread creation under the heap guard (spawn_locked, tied to the step order of spawn_native_thread):
    C15_no_unregistered_runner_during_section for every schedule, hence
    C15_mutual_exclusion_outside_exit_window / C15_all_stopped_outside_exit_window for runs that avoid the exit window;
    the former spawn window as witnesses on cfg_pre_spawn_fix; C15_table_generations (every schedule) and
    C15_global_visible (exit-window-free runs: an executing thread holds the current global table).
(C) real script threads with hook H3: the stopper marks a thread's state while it reads / replaces it
    (enumerate_stacks, call_per_ctx); the owner looks the mark up at every instruction dispatch and when it
    retracts its published pointer; injected delays (STEEL_VERIF_DELAY) widen the windows.  No baton scheduler:
    injected delays + repeated runs stand in for schedule control.
"""
import json
import os

from checks import common
from checks.c16 import (EMPTY_TABLE_RERUNS, native_abort_under_concurrent_update, transient_empty_global_table, empty_table_case, abort_case, reproduces, private_bin, run_parallel, run_engine, gen_spec, render_steel, oracle, scan_sources, gen_coq)


# ---- known-finding classes (decidable over the failing-input description this check produces)
# A scan-overlap / stale-global symptom belongs to a KNOWN window only when (a) the run widened exactly that window with
# its injected-delay site and shows the event that window produces, or (b) it could not be reproduced in 3 re-runs with
# the same settings (the natural hit rate of both windows is far below 1 %); anything reproducible without the
# window's delay site is a new defect.
WIDENING = {
    "safepoint exit": ("sp_exit_checked", "poll_exit_checked"),      # owner retracts its pointer while being read
    "instruction dispatch": ("poll_exit_checked",),                  # the poll's exit window: owner dispatches the next instruction
}


def has_site(delay, sites):
    names = [p.split(":")[0] for p in (delay or "").split(",") if p]
    return any(s in names for s in sites)


def exit_window_event(case, params):
    """F10: the owner left a safepoint (or, for the poll's window, dispatched) while a stopper was reading its state."""
    if case.get("kind") != "scan-overlap" or case.get("event") not in WIDENING:
        return False
    return has_site(case.get("delay"), WIDENING[case["event"]]) or case.get("reproduced") is False


def unregistered_thread_stale_global(case, params):
    """A thread that was started but not yet registered when an update ran reads / re-broadcasts the old global table."""
    if case.get("kind") != "stale-global":
        return False
    return has_site(case.get("delay"), ("spawn_unreg",)) or case.get("reproduced") is False


EXIT_WINDOW_UNITS = [
    "(define (c15-worker n acc) (if (= n 0) acc (c15-worker (- n 1) (+ acc (car (list n))))))",
    "(define c15-t (spawn-native-thread (lambda () (c15-worker 60000 0))))",
    "(define (c15-collector n) (if (= n 0) 'ok (begin (#%gc-collect) (c15-collector (- n 1)))))",
    "(c15-collector 12)",
    "(thread-join! c15-t)",
]
# deterministic probe of "a thread created while an update is in flight sees the update": the updater assigns the
# global while main is inside spawn-native-thread (the injected delay sits between the start of the new thread and its
# registration); the new thread reads the global only after main told it to (the global is assigned in its defining unit
# too, so that the reader is not compiled with the constant inlined: open finding C06-INLINE-SET is a different matter).
# Measured: (2 2) in 40 of 40 runs on the unchanged tree; also (2 2) under a hand-made change that releases the guard
# before the registration (an assignment reaches the unregistered thread through the shared slot storage) - that change
# is reported through the broken obligation gen_config_is_fixed with the model's history, no-failing-input-found.
SPAWN_PROBE_UNITS = [
    "(define c15-pf 0)\n(set! c15-pf 0)\n(define c15-pg (channels/new)) (define c15-pg-s (channels-sender c15-pg)) (define c15-pg-r (channels-receiver c15-pg))\n"
    "(define c15-pk (channels/new)) (define c15-pk-s (channels-sender c15-pk)) (define c15-pk-r (channels-receiver c15-pk))\n"
    "(define (c15-preader) (channel/recv c15-pk-r) c15-pf)",
    "(define c15-pupd (spawn-native-thread (lambda () (channel/recv c15-pg-r) (set! c15-pf 1) (set! c15-pf 2) 'updated)))",
    "(define c15-pkid (begin (channel/send c15-pg-s 1) (spawn-native-thread c15-preader)))",
    "(thread-join! c15-pupd)",
    "(begin (channel/send c15-pk-s 1) (list c15-pf (thread-join! c15-pkid)))",
]
SPAWN_WINDOW_UNITS = [
    "(define c15-flag 0)\n(define c15-ch (channels/new)) (define c15-s (channels-sender c15-ch)) (define c15-r (channels-receiver c15-ch))\n"
    "(define c15-go (channels/new)) (define c15-go-s (channels-sender c15-go)) (define c15-go-r (channels-receiver c15-go))\n"
    "(define (c15-updater k n) (if (= k n) 'done (begin (set! c15-flag k) (channel/send c15-s k) (c15-updater (+ k 1) n))))\n"
    "(define (c15-child n stale) (if (= n 0) stale (let ([v (channel/recv c15-r)]) (c15-child (- n 1) (if (< c15-flag v) (+ stale 1) stale)))))",
    "(define c15-upd (spawn-native-thread (lambda () (channel/recv c15-go-r) (c15-updater 1 31))))",
    "(define c15-kid (begin (channel/send c15-go-s 1) (spawn-native-thread (lambda () (c15-child 30 0)))))",
    "(list (thread-join! c15-upd) (thread-join! c15-kid))",
]


def events_of(d):
    ev = d.get("events") or []
    kinds = {}
    for e in ev:
        k = "safepoint exit" if e.startswith("safepoint exit") else ("instruction dispatch" if e.startswith("instruction dispatch") else "other")
        kinds[k] = kinds.get(k, 0) + 1
    return kinds


def recycled_define_units(rng):
    """A server thread evaluates, by name, globals that main defines while the thread is alive.  Main first shadows
    global slots by redefining a few names many times (the slot recycler runs once enough shadowed slots have
    accumulated), so that later definitions of FRESH names land in recycled slots and not at the end of the global
    table; after every definition the server must see the new name with its value ('a definition completed by one
    thread is seen by every thread afterwards')."""
    units = [
        "(define rq (channels/new)) (define rq-s (channels-sender rq)) (define rq-r (channels-receiver rq))\n"
        "(define rp (channels/new)) (define rp-s (channels-sender rp)) (define rp-r (channels-receiver rp))\n"
        "(define (c15-server) (let ([m (channel/recv rq-r)]) (if (eq? m 'stop) 'stopped (begin (channel/send rp-s "
        "(with-handler (lambda (e) 'unbound) (eval m))) (c15-server)))))",
        "(define c15-srv (spawn-native-thread c15-server))",
    ]
    expect = {}
    nv = rng.randint(3, 7)
    rounds = rng.randint(6, 10)
    for rnd in range(rounds):
        for k in range(rng.randint(25, 60)):
            units.append("(define c15-victim-%d %d)" % (k % nv, rnd * 100 + k))
            expect["c15-victim-%d" % (k % nv)] = rnd * 100 + k
        fresh = "c15-fresh-%d" % rnd
        units.append("(define %s %d)" % (fresh, 1000 + rnd))
        expect[fresh] = 1000 + rnd
        for name in (fresh, "c15-victim-%d" % rng.randrange(nv), "c15-fresh-%d" % rng.randrange(rnd + 1)):
            units.append("(begin (channel/send rq-s '%s) (list '%s (channel/recv rp-r) %d))" % (name, name, expect[name]))
    units.append("(begin (channel/send rq-s 'stop) (thread-join! c15-srv))")
    return units


def recycled_define_failures(d):
    """-> list of 'name: thread saw X, defined value Y' for the answers of the server thread"""
    import re
    out = []
    for r in d.get("res") or []:
        for v in (r.get("ok") or []):
            m = re.match(r"^\('\"(c15-[a-z]+-\d+)\" (\S+) I(-?\d+)\)$", v)
            if m and m.group(2) != "I" + m.group(3):
                out.append("%s: the thread saw %s, the completed definition is %s" % (m.group(1), m.group(2), m.group(3)))
    return out


def run(ck):
    ck.cov["trusted_base"] = [
        "Coq 8.16.1 kernel, coqc; vm_compute for the witnesses",
        "hand-written model coq/c15/Model_C15.v of the safepoint handshake (same as C16)",
        "hook H3 (steel_vm/verif.rs): scan marks around the foreign reads/writes in enumerate_stacks / call_per_ctx, looked up at "
        "instruction dispatch and at safepoint exit; injected delays STEEL_VERIF_DELAY",
        "harness/src/bin/c16.rs (watchdog runner), program generator and oracle of checks/c16.py",
    ]
    ck.assumptions = [
        "data races are exhibited through the hook's marks under sequentially consistent atomics, not through the memory model",
        "no deterministic schedule control on the engine: injected delays + repeated runs (a window that is never hit is not observed)",
        "make-thread / forked_thread_handle path of call_per_ctx is outside the model",
    ]
    ck.level = "proof"
    ck.notes.append("proved (all thread counts, scripts incl. spawns, schedules): serialisation of stop-the-world sections, pause flags "
                    "only during a section, parked threads released, C15_flagged_until_resumed (a flagged thread stays flagged until the "
                    "stopper's resume pass, every schedule); C15_no_unregistered_runner_during_section (thread creation under "
                    "the heap guard - spawn_locked, translated from the order of the steps of spawn_native_thread - : while a section is "
                    "in progress every started, unfinished thread is registered, for EVERY schedule), hence "
                    "C15_mutual_exclusion_outside_exit_window / C15_all_stopped_outside_exit_window (Excl15 along every run none of whose "
                    "worlds has a thread between its paused-load and ctx.store(None) with its flag since set); the exit window as a "
                    "refutation witness on the current tree, the former spawn window as witnesses on cfg_pre_spawn_fix "
                    "(C15_global_visible_refuted_spawn_window, C15_unregistered_runner_before_fix). Visibility of completed updates: "
                    "C15_table_generations (every schedule: outside the second pass of an update every started, unfinished thread holds the "
                    "current table generation, inside it the threads below the pass position hold the new one and the others the previous "
                    "one; a new thread copies its spawner's table under the guard) and C15_global_visible (exit-window-free runs: a thread "
                    "that executes an instruction holds the current table)")
    # the generated table of C16 is the tie for the lock discipline this model's cfg_fixed describes
    text, _, _ = gen_coq(*scan_sources())
    ck.translate("Gen_C16", text)
    proved = ck.proof_stage(["c15"], ["c15/Properties_C15", "c16/Properties_C16"], "c15/Pins_C15.v")
    private_bin(ck, "c16")
    quick = ck.tier == "quick"

    # (1) confirmation runs with the known windows widened: expected to produce the KNOWN findings only
    reps = 2 if quick else 8
    jobs = []
    for jit in (True, False):
        for _ in range(reps):
            jobs.append(("exit-window", EXIT_WINDOW_UNITS, jit, "sp_exit_checked:300:20,poll_exit_checked:300:2,scan:400"))
            jobs.append(("spawn-window", SPAWN_WINDOW_UNITS, jit, "spawn_unreg:30000"))
    for jit in (True, False):
        for _ in range(2 if quick else 6):
            jobs.append(("spawn-probe", SPAWN_PROBE_UNITS, jit, "spawn_unreg:30000"))
    # (1b) definitions that land in recycled global slots while another thread is alive
    for jit in (True, False):
        for _ in range(1 if quick else 6):
            jobs.append(("recycled-define", recycled_define_units(ck.rng), jit, None))
    # (2) generated programs, windows of the handshake's ordinary steps widened (not the two known windows)
    ncases = 10 if quick else 60
    specs = [gen_spec(ck.rng, ck.rng.choice([2, 3, 4, 6, 8]), 1) for _ in range(ncases)]
    for sp in specs:
        for jit in (True, False):
            delay = ck.rng.choice(["stop:200:3,scan:200,swap:100,resume:200:2", "update_guard:300:2,scan:300", "sp_enter:50:40,resume:300"])
            jobs.append(("generated", (sp, render_steel(sp)), jit, delay))

    def go(j):
        units = j[1][1] if j[0] == "generated" else j[1]
        return run_engine(ck, units, j[2], delay=j[3])
    res = run_parallel(jobs, go, 6 if quick else 8)
    confirmed = {"exit-window": 0, "spawn-window": 0}
    distinct = set()
    for (kind, payload, jit, delay), d in zip(jobs, res):
        ck.cov["evaluations"] += 1
        ev = events_of(d)
        base = {"jit": jit, "delay": delay}
        ab = abort_case(d, jit, (payload[1] if kind == "generated" else payload), ck, delay)
        if ab:
            ck.failing_input("%s run (JIT on, delays %s): host aborted with a panic inside native code" % (kind, delay), dict(ab, delay=delay), tag="abort")
            continue
        et = empty_table_case(ck, d, (payload[1] if kind == "generated" else payload), jit, delay)
        if et:
            ck.failing_input("%s run (JIT %s, delays %s): a thread ran on the emptied global table (a global read as #<void>)"
                             % (kind, "on" if jit else "off", delay), et, tag="void")
            continue
        if d.get("hang") or "crash" in d:
            ck.failing_input("%s run (JIT %s, delays %s) did not complete: %s" % (kind, "on" if jit else "off", delay, json.dumps(d.get("hang") or d.get("crash"))[:200]),
                             dict(base, kind="hang", units=(payload[1] if kind == "generated" else payload)), tag="hang")
            continue
        # scan overlapping an instruction dispatch of the scanned thread: never acceptable
        for k, n in ev.items():
            units_ = payload[1] if kind == "generated" else payload
            rep = None
            if not has_site(delay, WIDENING.get(k, ())):
                rep = reproduces(ck, units_, jit, delay, lambda r, k=k: events_of(r).get(k, 0) > 0)
            case = dict(base, kind="scan-overlap", event=k, count=n, program=kind, reproduced=rep, units=units_)
            fid = ck.failing_input("%d event(s) '%s while its state was being scanned' (%s program, JIT %s, delays %s)" % (n, k, kind, "on" if jit else "off", delay), case, tag="overlap")
            if fid and kind == "exit-window":
                confirmed["exit-window"] += 1
        if kind == "spawn-window":
            last = d["res"][-1]
            stale = None
            if "ok" in last:
                import re
                m = re.search(r"I(\d+)\)$", last["ok"][-1])
                stale = int(m.group(1)) if m else None
            if stale:
                fid = ck.failing_input("a thread read the old value of a global %d time(s) after the assigning thread's set! had completed "
                                       "(thread started but not yet registered when the update ran)" % stale,
                                       dict(base, kind="stale-global", reader="thread in the spawn window", stale_reads=stale, reproduced=None, units=payload), tag="stale")
                if fid:
                    confirmed["spawn-window"] += 1
            elif stale is None:
                ck.failing_input("spawn-window program failed: %s" % json.dumps(last)[:200], dict(base, kind="error", units=payload), tag="err")
        if kind == "spawn-probe":
            last = d["res"][-1] if d.get("res") else {}
            got = (last.get("ok") or [None])[-1]
            if got != "(I2 I2)":
                ck.failing_input("a thread created while a global was being assigned does not see the completed assignment: main and the "
                                 "new thread read %s (JIT %s, delays %s)" % (got if got else json.dumps(last)[:160], "on" if jit else "off", delay),
                                 dict(base, kind="stale-global-after-spawn", units=payload, got=got), tag="probe")
            else:
                distinct.add(("spawn-probe", jit))
                ck.cov["spawn_probe_new_thread_saw_assignment"] = ck.cov.get("spawn_probe_new_thread_saw_assignment", 0) + 1
        if kind == "recycled-define":
            fails = recycled_define_failures(d)
            answered = sum(1 for r in d.get("res") or [] for v in (r.get("ok") or []) if v.startswith("('\"c15-"))
            ck.cov["recycled_define_answers"] = ck.cov.get("recycled_define_answers", 0) + answered
            if answered == 0:
                ck.failing_input("recycled-define program produced no answer: %s" % json.dumps((d.get("res") or [None])[-1])[:200],
                                 dict(base, kind="error", units=payload), tag="err")
            if fails:
                # one unbound answer can also be the rare empty-table race of the open exit window: a defect of
                # definition visibility shows up again when the same program is run again
                rep = reproduces(ck, payload, jit, None, lambda r: bool(recycled_define_failures(r)), *EMPTY_TABLE_RERUNS)
                if not rep:
                    ck.failing_input("recycled-define run (JIT %s): one transient unbound answer (%s), seen again in fewer than 4 of 12 re-runs"
                                     % ("on" if jit else "off", fails[0]),
                                     dict(base, kind="transient-empty-global-table", reproduced=False, units=payload), tag="void")
                    fails = []
            for f in fails[:3]:
                ck.failing_input("definition not seen by a live thread (JIT %s): %s" % ("on" if jit else "off", f),
                                 dict(base, kind="define-not-visible", fail=f, units=payload), tag="vis")
            if not fails and answered:
                distinct.add(("recycled-define", jit, answered))
        if kind == "generated":
            sp = payload[0]
            fails = oracle(sp, d)
            for f in fails[:2]:
                k2 = "stale-global" if f.startswith("STALE-GLOBAL") else "generated"
                rep = None
                if k2 == "stale-global":
                    rep = reproduces(ck, payload[1], jit, delay, lambda r, sp=sp: any(x.startswith("STALE-GLOBAL") for x in oracle(sp, r)))
                ck.failing_input("generated program (%d threads, JIT %s, delays %s): %s" % (sp["n"], "on" if jit else "off", delay, f),
                                 dict(base, kind=k2, spec=sp, units=payload[1], fail=f, reproduced=rep), tag="prog")
            if not fails and (d.get("progress") or {}).get("stw_finished", 0) > 0:
                distinct.add((sp["n"], jit, delay))
            if len(ck.cov["samples"]) < 3:
                ck.sample({"threads": sp["n"], "jit": jit, "delay": delay, "events": ev, "stw": d["progress"]["stw_finished"], "fails": fails})
        elif len(ck.cov["samples"]) < 6:
            ck.sample({"program": kind, "jit": jit, "delay": delay, "events": ev, "last": d["res"][-1] if d.get("res") else None})
    ck.cov["distinct_nontrivial"] = len(distinct)
    ck.cov["rule"] = ("generated multi-threaded programs (2-8 worker threads: compute, allocate, collect, block on channels / joins / a mutex, "
                      "set! globals, main defining globals between spawns) run with injected delays at stop / scan / env swap / resume / "
                      "safepoint entry; distinct = (thread count, JIT mode, delay spec) for runs that completed at least one "
                      "stop-the-world section with other threads registered, produced no scan-overlap event and passed the oracle "
                      "(every global assigned by a joined thread reads its new value in main)")
    ck.cov["known_window_confirmations"] = confirmed
    ck.notes.append("exit window (F10) confirmed on the engine in %d run(s) with the window widened by injected delays; "
                    "spawn window stale read observed in %d run(s)" % (confirmed["exit-window"], confirmed["spawn-window"]))
    if not proved and not ck.violations:
        sp = scan_sources()[5]
        ordered = 0 < sp["guard"] < sp["copy"] < sp["start"] < sp["register"] < sp["release"]
        if not ordered:
            # the model's failing history for an unprotected thread creation (theorems stated on cfg_pre_spawn_fix)
            ck.violation("proof obligation no longer checks: gen_config_is_fixed - spawn_native_thread does not hold the heap guard from the "
                         "copy of the spawner's state until the registration of the new thread (lines %s); no failing run found on the engine, "
                         "the model's failing history is in the replay" % json.dumps(sp),
                         {"broken": ck.proof_failures, "spawn_steps": sp,
                          "model_history": {"config": "cfg_pre_spawn_fix", "scripts": "spawn_progs = [[ASpawn 2; ASpawn 1; APrim]; [ACompute; ACompute; ACompute]; [AUpdate]]",
                                            "schedule": "spawn_overlap_sched = [0;0;0;0;0;0;0] ++ repeat 2 12",
                                            "theorems": ["C15_unregistered_runner_before_fix", "C15_global_visible_refuted_spawn_window"],
                                            "meaning": "thread 2's stop-the-world section runs while thread 1 has been started and is not registered: "
                                                       "the section neither stops it nor hands it the new global table"}},
                         no_input=True, tag="unproved")
        else:
            ck.unproved()


def replay(ck, path):
    obj = json.load(open(path))
    if "units" in obj and "case" not in obj:        # a corpus reproduction script
        private_bin(ck, "c16")
        for jit in (True, False):
            d = run_engine(ck, obj["units"], jit, delay=obj.get("delay"))
            print("JIT", jit, "events:", events_of(d), "last:", (d.get("res") or [None])[-1])
            for k, n in events_of(d).items():
                ck.failing_input("replay: %d event(s) '%s'" % (n, k),
                                 {"kind": "scan-overlap", "event": k, "delay": obj.get("delay"), "jit": jit, "units": obj["units"]}, tag="overlap")
        return
    c = obj.get("case")
    if not c or "units" not in c:
        print(json.dumps(obj, indent=1)[:3000])
        return
    private_bin(ck, "c16")
    d = run_engine(ck, c["units"], c.get("jit", True), delay=c.get("delay"))
    print("hang:", d.get("hang"), "events:", events_of(d), "last:", (d.get("res") or [None])[-1])
    for k, n in events_of(d).items():
        ck.failing_input("replay: %d event(s) '%s'" % (n, k), dict(c, kind="scan-overlap", event=k), tag="overlap")
