"""C04 -- the collector never reclaims or overwrites reachable mutable storage (DESIGN.md section 4, C04).

(G) coq/gen/Gen_C04.v from closed.rs / rvals.rs / cycles.rs / vm.rs (constants, value kinds, traversing arms of both
    markers, root sets pushed by Heap::mark, "mark queue emptied", "recycler puts the mark bits back");
(P) coq/c04: Model_C04.v, Proofs_C04.v, Properties_C04.v, Pins_C04.v;
(C) generated heap scripts run on the engine with STEEL_VERIF_GC_EVERY (a full collection before every / every N-th
    allocation), small heaps (STEEL_VERIF_GC_CHUNK), both STEEL_JIT settings; after every step the script prints the heap
    statistics and every cell it can still reach.  Oracle: a python reference store (cells keep the last value stored);
    any hook event "access through a handle whose slot is flagged free" is a violation by itself; the Coq model runs the same
    operation list and has to agree on contents and on the slot counts."""
import json
import os

from checks import common
from checks import heapcommon as H
from checks.common import TieBroken

PID = "C04"


def known_none(case, params):
    return False


def run_scripts(ck, scripts, env, label):
    """scripts: list of step lists. Returns per script: list of unit outcomes (unit 0 = initial statistics)."""
    cases = []
    for steps in scripts:
        units = ["(begin (#%gc-collect) (#%verif-heap-stats))"] + [H.steel_step(s) for s in steps] + ["(c04-counters)"]
        cases.append(units)
    e = {"STEEL_VERIF_GC_CHUNK": str(env["chunk"]), "STEEL_VERIF_GC_EVERY": str(env["every"])}
    if not env["jit"]:
        e["STEEL_JIT"] = "false"
    return ck.eval_cases(cases, prelude=H.PRELUDE, env=e, fresh=True, batch=8, timeout_per_batch=240)


def unq(canon):
    """canonical string value "\"...\"" -> text"""
    if canon.startswith('"') and canon.endswith('"'):
        return canon[1:-1].replace('\\"', '"').replace("\\\\", "\\")
    return canon


def check_batch(ck, scripts, env, label, stats):
    res = run_scripts(ck, scripts, env, label)
    ck.log("engine ran %d scripts (%s)" % (len(scripts), label))
    exprs_all = []
    index = []
    engine_obs = []
    for si, (steps, r) in enumerate(zip(scripts, res)):
        case = {"steps": steps, "env": env, "units": [H.steel_step(s) for s in steps]}
        stats["scripts"] += 1
        if not r or "ok" not in r[0]:
            ck.failing_input("heap script %s: engine failed before the first step: %s" % (label, json.dumps(r)[:300]), case, tag="engine")
            continue
        st0 = H.parse_stats(r[0]["ok"][-1])
        (bt, bd, bf, _, bg, _), (vt, vd, vf, _, vg, _), cnt = st0
        init = (bt, bt - bd, bg, vt, vt - vd, vg)
        a0 = cnt[0]
        want, live = H.oracle_run(steps)
        obs = []
        bad = False
        for k, st in enumerate(steps):
            o = r[k + 1] if k + 1 < len(r) else {"missing": True}
            if "ok" not in o:
                ck.failing_input("heap script %s step %d (%s): engine outcome %s" % (label, k, st[0], json.dumps(o)[:300]),
                                 dict(case, step=k), tag="engine")
                bad = True
                break
            text = unq(o["ok"][-1])
            obs.append(text)
            parts = text.split(" | ")
            contents = parts[2].strip() if len(parts) == 3 else text
            ck.cov["evaluations"] += 1
            stats["holders"][st[1] if st[0] == "hold" else st[0]] = stats["holders"].get(st[1] if st[0] == "hold" else st[0], 0) + 1
            cnts = [[int(x) for x in q.split()] for q in parts[:2]] if len(parts) == 3 else None
            if cnts and (cnts[0][1] != cnts[0][2] or cnts[1][1] != cnts[1][2]):
                # count bookkeeping: alloc_count has to equal the number of slots flagged free
                ck.failing_input("heap script %s step %d (%s): alloc_count differs from the number of free slots: boxes %d vs %d, vectors %d vs %d"
                                 % (label, k, st[0], cnts[0][2], cnts[0][1], cnts[1][2], cnts[1][1]), dict(case, step=k, got=text), tag="count")
                bad = True
                break
            if cnts and st[0] == "collect":
                # after an explicit full collection: free slots = total - live (engine-internal live slots + cells the script can reach)
                nb, nv = live[k]
                wb, wv = bt - (init[1] + nb), None
                if cnts[0][1] != cnts[0][0] - (init[1] + nb):
                    ck.failing_input("heap script %s step %d: after a full collection %d box slots are free, expected total %d - live %d (unreachable storage not reclaimed / reachable storage reclaimed)"
                                     % (label, k, cnts[0][1], cnts[0][0], init[1] + nb), dict(case, step=k, got=text), tag="sweep")
                    bad = True
                    break
            if contents != want[k]:
                # the property oracle: a reachable cell does not hold the value last stored in it
                ck.failing_input("heap script %s step %d (%s): reachable cells print %r, last stored values are %r"
                                 % (label, k, st[0], contents, want[k]), dict(case, step=k, got=contents, want=want[k]), tag="contents")
                bad = True
                break
        if bad:
            continue
        fin = r[len(steps) + 1] if len(r) > len(steps) + 1 else {}
        if "ok" in fin:
            c = [int(x[1:]) for x in fin["ok"][-1].strip("()").split()]
            if c[3] or c[4]:
                ck.failing_input("heap script %s: %d access(es) through a handle whose slot is flagged free, %d through a dropped slot"
                                 % (label, c[3], c[4]), dict(case, counters=c), tag="freeslot")
                continue
            stats["allocs_engine"] += c[0] - a0
        expr, allocs = H.model_exprs(steps, init, env["every"], a0, env["chunk"])
        exprs_all.append(expr)
        index.append(si)
        engine_obs.append((si, obs, case, (c[0] - a0) if "ok" in fin else None, allocs))
        if si % 7 == 0:
            ck.sample({"env": env, "units": case["units"][:6], "observations": obs[:6]})
    # ---- the model on the same operation lists
    model = ck.coq_eval(H.COQ_HEADER, exprs_all, shard=max(1, len(exprs_all) // 16 + 1), timeout=600)
    ck.log("model evaluated %d scripts" % len(exprs_all))
    by = {}
    for si, m in zip(index, model):
        by[si] = [x.strip() for x in m.split(" ## ")][:-1] if " ## " in m else [m]
    for si, obs, case, eng_allocs, mod_allocs in engine_obs:
        ms = by.get(si, [])
        hidden = eng_allocs is not None and eng_allocs != mod_allocs
        if hidden:
            stats["hidden_alloc_scripts"] += 1
        for k, (o, m) in enumerate(zip(obs, ms)):
            if o == m:
                stats["agree"] += 1
                continue
            po, pm = o.split(" | "), m.split(" | ")
            if len(po) == 3 and len(pm) == 3 and po[2].strip() == pm[2].strip() and hidden:
                stats["counts_skipped"] += 1      # engine allocated behind the script's back: counts not comparable
                continue
            stats["disagree"] += 1
            ck.violation("model/engine correspondence broken (%s, step %d %s): engine %r, model %r" % (label, k, case["steps"][k][0], o, m),
                         {"case": dict(case, step=k), "engine": o, "model": m, "correspondence": "c04.Model_C04 vs closed.rs"},
                         no_input=True, tag="corr")
            break


CORPUS = [
    # a cycle that is only reachable through a closure capture, then through nothing
    [("alloc_box", ("g", 0), ("atom", 1)), ("alloc_box", ("g", 1), ("reg", "g", 0)), ("store", ("reg", "g", 0), 0, ("reg", "g", 1)),
     ("set", ("g", 2), ("node", "Closure", [("reg", "g", 0)])), ("set", ("g", 0), ("atom", 0)), ("set", ("g", 1), ("atom", 0)),
     ("churn", 5), ("collect",), ("set", ("g", 2), ("atom", 0)), ("collect",), ("churn", 3)],
    # every holder kind around one box
    [("alloc_box", ("g", 0), ("atom", 7)),
     ("hold", "let", ("reg", "g", 0), [("set", ("g", 0), ("atom", 0)), ("churn", 4)]),
     ("alloc_box", ("g", 0), ("atom", 8)),
     ("hold", "arg", ("reg", "g", 0), [("set", ("g", 0), ("atom", 0)), ("cyc", 3)]),
     ("alloc_box", ("g", 0), ("atom", 9)),
     ("hold", "kont", ("reg", "g", 0), [("set", ("g", 0), ("atom", 0)), ("churn", 4)]),
     ("alloc_box", ("g", 0), ("atom", 10)),
     ("hold", "handler", ("reg", "g", 0), [("set", ("g", 0), ("atom", 0)), ("churn", 4)]),
     ("alloc_box", ("g", 0), ("atom", 11)),
     ("hold", "thread", ("reg", "g", 0), [("set", ("g", 0), ("atom", 0)), ("churn", 4)]),
     ("alloc_box", ("t", 0), ("atom", 12)), ("churn", 6), ("collect",)],
]


def kind_case(kind):
    """A script whose only path to a box goes through a value of the given kind (failing-input search for a marker arm)."""
    if kind in H.NODE_KINDS:
        arity = {"Pair": 2, "CustomStruct": 2}.get(kind, 1)
        cs = [("reg", "g", 0)] + [("atom", 3)] * (arity - 1)
        holder = ("set", ("g", 1), ("node", kind, cs))
    elif kind == "MutableVector":
        holder = ("alloc_vec", ("g", 1), [("reg", "g", 0)])
    elif kind == "HeapAllocated":
        holder = ("alloc_box", ("g", 1), ("reg", "g", 0))
    elif kind == "ContinuationFunction":
        return [("alloc_box", ("g", 0), ("atom", 41)), ("hold", "kont", ("reg", "g", 0), [("set", ("g", 0), ("atom", 0)), ("churn", 12)])]
    else:
        return None
    return [("alloc_box", ("g", 0), ("atom", 41)), holder, ("set", ("g", 0), ("atom", 0)), ("collect",), ("churn", 12),
            ("alloc_box", ("g", 2), ("atom", 5)), ("churn", 3)]


def tls_recycle_case():
    """F9: a box held only by thread-local storage across a run of the global-slot recycler, then allocations."""
    return ["(define c04-tls (make-tls (box 7)))\n(define (c04-churn2 n) (if (= n 0) 0 (begin (box n) (c04-churn2 (- n 1)))))"] + \
           ["(define c04-junk %d)" % i for i in range(103)] + ["(c04-churn2 600)", "(unbox (get-tls c04-tls))", "(c04-counters)"]


def run_recycle(ck, stats):
    """Recycler scenarios (default heap geometry, no forced collections): run in their own engines."""
    cases = [tls_recycle_case()]
    # a second recycling round (threshold 200) with the box held by another container in TLS
    c2 = ["(define c04-tls (make-tls (list (box 7) (vector (box 8)))))\n(define (c04-churn2 n) (if (= n 0) 0 (begin (box n) (c04-churn2 (- n 1)))))"] + \
         ["(define c04-junk %d)" % i for i in range(103)] + ["(c04-churn2 300)"] + ["(define c04-junk %d)" % i for i in range(203)] + \
         ["(c04-churn2 600)", "(+ (unbox (car (get-tls c04-tls))) (unbox (vector-ref (car (cdr (get-tls c04-tls))) 0)))", "(c04-counters)"]
    cases.append(c2)
    want = ["I7", "I15"]
    for jit in (True, False):
        res = ck.eval_cases(cases, prelude=H.PRELUDE, env=({} if jit else {"STEEL_JIT": "false"}), fresh=True, batch=1, timeout_per_batch=200)
        for units, r, w in zip(cases, res, want):
            ck.cov["evaluations"] += 1
            stats["recycle_runs"] += 1
            got = r[-2]["ok"][-1] if len(r) == len(units) and "ok" in r[-2] else json.dumps(r[-2:])[:200]
            cnt = r[-1]["ok"][-1] if len(r) == len(units) and "ok" in r[-1] else ""
            c = [int(x[1:]) for x in cnt.strip("()").split()] if cnt else [0] * 9
            case = {"units": units, "jit": jit, "kind": "recycle-tls", "got": got, "want": w, "counters": c}
            if c[5] == 0 and got == w:
                ck.violation("recycler scenario did not trigger the recycler (generator out of date)", {"case": case}, no_input=True, tag="gen")
            if got != w or c[3] or c[4] or c[7]:
                ck.failing_input("box held only by thread-local storage across a global-slot recycling: read back %s, stored %s "
                                 "(free-slot accesses %d, slots flagged free with a live handle after recycling %d)" % (got, w, c[3], c[7]),
                                 case, tag="recycle")


def run_live_handler(ck, stats):
    """F49: storage reachable ONLY through the exception handler installed on a live frame (a box / vector captured
    by the handler closure), across full collections and enough allocations to reuse every freed slot."""
    pre = ("(define c04-keep '())\n(define (c04-hchurn n) (if (= n 0) 0 (begin (set! c04-keep (box (list 'garbage n))) "
           "(set! c04-keep (vector n n)) (c04-hchurn (- n 1)))))\n"
           "(define (c04-mkh) (let ([b (box 'mine)] [v (vector 'mine-too)]) (lambda (e) (list 'handled (unbox b) (vector-ref v 0)))))")
    progs = [
        "(call-with-exception-handler (c04-mkh) (lambda () (begin (#%gc-collect) (c04-hchurn 150000) (error \"y\"))))",
        "(with-handler (c04-mkh) (begin (#%gc-collect) (c04-hchurn 150000) (error \"x\")))",
        "(call-with-exception-handler (c04-mkh) (lambda () (call-with-exception-handler (lambda (e) (error \"again\")) "
        "(lambda () (begin (#%gc-collect) (c04-hchurn 150000) (error \"z\"))))))",
    ]
    want = "('\"handled\" '\"mine\" '\"mine-too\")"
    for jit in (True, False):
        res = ck.eval_cases([[pre, p] for p in progs], env=({} if jit else {"STEEL_JIT": "false"}), fresh=True, batch=1, timeout_per_batch=240)
        for p, r in zip(progs, res):
            ck.cov["evaluations"] += 1
            stats["live_handler_runs"] = stats.get("live_handler_runs", 0) + 1
            got = r[1]["ok"][-1] if len(r) > 1 and "ok" in r[1] else json.dumps(r[-1:])[:200]
            if got != want:
                ck.failing_input("storage reachable only through the handler of a live frame: the handler read %s, stored %s" % (got, want),
                                 {"units": [pre, p], "jit": jit, "kind": "live-handler", "got": got, "want": want}, tag="handler")


def run_boundary_containers(ck, stats):
    """Reachable mutable containers at their boundary sizes (no element, one element), held by a global, a box, a list,
    a hash map and a closure, across full collections and enough vector / box allocations for the allocators to hand
    out every slot they consider free: sizes and contents must be unchanged, and a write through one of them must not
    show up in another."""
    pre = ("(define c04-e0 (mutable-vector)) (define c04-e1 (box (mutable-vector))) (define c04-e2 (list (mutable-vector) (mutable-vector 7)))\n"
           "(define c04-e3 (hash 'k (mutable-vector))) (define c04-e4 (let ([v (mutable-vector)]) (lambda () v)))\n"
           "(define c04-e5 (make-vector 0 0)) (define c04-e6 (mutable-vector (mutable-vector))) (define c04-b0 (box '())) (define c04-b1 (box (box '())))\n"
           "(define (c04-vchurn n) (let loop ([i 0] [last #f]) (if (< i n) (loop (+ i 1) (vector i i i)) last)))\n"
           "(define (c04-bchurn n) (let loop ([i 0] [last #f]) (if (< i n) (loop (+ i 1) (box i)) last)))\n"
           "(define (c04-lens) (list (vector-length c04-e0) (vector-length (unbox c04-e1)) (vector-length (car c04-e2)) (vector->list (cadr c04-e2)) "
           "(vector-length (hash-ref c04-e3 'k)) (vector-length (c04-e4)) (vector-length c04-e5) (vector-length (vector-ref c04-e6 0)) "
           "(unbox c04-b0) (unbox (unbox c04-b1))))")
    units = [pre, "(c04-lens)", "(#%gc-collect)", "(define c04-s1 (c04-vchurn 9000))", "(define c04-s2 (c04-bchurn 9000))", "(c04-lens)",
             "(#%gc-collect)", "(define c04-s3 (c04-vchurn 40000))", "(define c04-s4 (c04-bchurn 40000))", "(c04-lens)",
             "(begin (vector-push! c04-e0 'mine) (set-box! c04-b0 'mine) (list (vector->list c04-e0) (c04-lens)))"]
    want = "(I0 I0 I0 (I7) I0 I0 I0 I0 () ())"
    want_last = "(('\"mine\") (I1 I0 I0 (I7) I0 I0 I0 I0 '\"mine\" ()))"
    for jit in (True, False):
        res = ck.eval_cases([units], env=({} if jit else {"STEEL_JIT": "false"}), fresh=True, batch=1, timeout_per_batch=240)
        r = res[0]
        ck.cov["evaluations"] += 1
        stats["boundary_container_runs"] = stats.get("boundary_container_runs", 0) + 1
        obs = [(x.get("ok") or [json.dumps(x)[:120]])[-1] for x in r]
        got = [obs[i] if i < len(obs) else "MISSING" for i in (1, 5, 9, 10)]
        if got != [want, want, want, want_last]:
            ck.failing_input("reachable boundary-size containers across collections: observed %s, stored %s" % (got, [want, want, want, want_last]),
                             {"units": units, "jit": jit, "kind": "boundary-containers", "got": got, "want": [want, want, want, want_last]}, tag="boundary")


def run(ck):
    ck.cov["trusted_base"] = [
        "Coq 8.16.1 kernel, coqc; vm_compute for model evaluation",
        "translator checks/heapcommon.py:translate_heap (regex/brace-matching line parser over closed.rs, rvals.rs, cycles.rs, vm.rs) and its "
        "payload-type table PAYLOAD_HOLDS_VALUES (which SteelVal payload types can hold values)",
        "hand-written model coq/c04/Model_C04.v of FreeList / Heap / mark / recycler (closed.rs)",
        "hook H2 (cfg steel_verif) in closed.rs: forced collections, statistics, free-slot access reports",
        "script / Coq-term renderers and the python reference store in checks/heapcommon.py; harness evalsrv",
    ]
    ck.assumptions = [
        "slot vector lengths below 2^40 (percent_full is an f64 comparison, modelled exactly)",
        "roots held in native (JIT) registers or in Rust locals of primitives are covered only by the forced-collection correspondence, not by the theorems",
        "threads are stopped while a collection marks (C15); immutable containers are acyclic and freed promptly by reference counting (C05)",
    ]
    text, facts = H.translate_heap()
    ck.translate("Gen_C04", text)
    ck.cov["generated_facts"] = ["Gen_C04: constants %s; %d kinds; %d can hold values; marker arms par %d / seq %d; root sets %s; queue cleared %s; recycler restores marks %s"
                                 % ({k: facts[k] for k in ("reset_limit", "extend_chunk", "init_slots", "full_pct")}, len(facts["kinds"]),
                                    len(facts["can_contain"]), len(facts["marker_par"]), len(facts["marker_seq"]), facts["marked_root_sets"],
                                    facts["mark_queue_cleared"], facts["recycler_restores_marks"]) +
                                 "; marker queue: capacity %d, spill enqueues %s, local enqueues %s, drains both %s, roots enqueued %s"
                                 % (facts["pq_local_capacity"], facts["pq_spill_enqueues"], facts["pq_local_enqueues"], facts["pq_drain_both"], facts["pq_roots_enqueued"])]
    proved = ck.proof_stage(["c04", "gen"], ["c04/Properties_C04"], "c04/Pins_C04.v")
    ck.harness_build(["evalsrv"])
    stats = {"scripts": 0, "agree": 0, "disagree": 0, "counts_skipped": 0, "hidden_alloc_scripts": 0, "holders": {}, "allocs_engine": 0, "recycle_runs": 0}
    quick = ck.tier == "quick"
    # failing-input search directed by the generated facts: kinds that can hold values but have no traversing arm
    missing = [k for k in facts["can_contain"] if k not in facts["marker_par"] or k not in facts["marker_seq"]]
    directed = [c for c in (kind_case(k) for k in missing) if c]
    unsearchable = [k for k in missing if not kind_case(k)]
    nscripts = 40 if quick else 1200
    nsteps = 9 if quick else 14
    envs = [{"chunk": 8, "every": 1, "jit": True}, {"chunk": 8, "every": 1, "jit": False},
            {"chunk": ck.rng.choice([8, 16, 32]), "every": ck.rng.choice([2, 3, 5]), "jit": True},
            {"chunk": ck.rng.choice([16, 32]), "every": ck.rng.choice([2, 3, 7]), "jit": False}]
    first = True
    for env in envs:
        scripts = (CORPUS + directed + [c for c in (kind_case(k) for k in ["ListV", "Closure", "MutableVector", "HeapAllocated", "ContinuationFunction"]) if c]) if first else []
        first = False
        scripts = scripts + [H.gen_script(ck.rng, nsteps) for _ in range(nscripts)]
        check_batch(ck, scripts, env, "chunk=%(chunk)d every=%(every)d jit=%(jit)s" % env, stats)
    run_recycle(ck, stats)
    run_live_handler(ck, stats)
    run_boundary_containers(ck, stats)
    # wide containers: more pending children than the marker's local queue holds (generated capacity)
    queue_ok = all(facts[k] for k in ("pq_spill_enqueues", "pq_local_enqueues", "pq_drain_both", "pq_roots_enqueued"))
    picks = [("mvec", 0, facts["pq_local_capacity"] + 904, {})] + H.wide_picks(ck.rng, ck.tier, force_all=not queue_ok)
    H.run_wide(ck, picks, stats)
    if not quick:
        # default geometry (25600-slot chunks) with sparse forced collections
        env = {"chunk": 0, "every": 997, "jit": True}
    ck.cov["distinct_nontrivial"] = sum(1 for v in stats["holders"].values() if v >= 1) + len(stats.get("wide", {}))
    ck.cov["rule"] = ("steps observed (statistics + printed contents of every reachable cell) after each operation of generated heap scripts; "
                      "distinct = distinct operation / holder kinds exercised at least once among %s + %s (every one involves allocation under forced "
                      "collection, hence non-trivial) + distinct (wide family, element kind) pairs: containers of 5000-12000 boxes / mutable vectors / counter closures, "
                      "i.e. more pending children than the marker's local queue (capacity %d) holds, collected, churned and read back element by element"
                      % (["alloc_box", "alloc_vec", "store", "set", "collect", "churn", "cyc"], H.HOLDERS, facts["pq_local_capacity"]))
    ck.cov["stats"] = stats
    if not proved:
        if not ck.violations:
            ck.unproved(("; ".join(ck.proof_failures))[:3000] + ("; no script template for kinds %s" % unsearchable if unsearchable else ""))


def replay(ck, path):
    obj = json.load(open(path))
    case = obj.get("case")
    if not case:
        print(json.dumps(obj, indent=1)[:4000])
        return
    ck.harness_build(["evalsrv"])
    stats = {"scripts": 0, "agree": 0, "disagree": 0, "counts_skipped": 0, "hidden_alloc_scripts": 0, "holders": {}, "allocs_engine": 0, "recycle_runs": 0}
    if case.get("kind") == "recycle-tls":
        run_recycle(ck, stats)
        return
    if case.get("kind") == "wide":
        H.run_wide(ck, [(case["family"], case["elem_kind"], case["n"], case["env"])], stats)
        print(json.dumps(stats))
        return

    def tup(x):
        return tuple(tup(y) for y in x) if isinstance(x, list) else x
    steps = [tup(s) for s in case["steps"]]
    steps = [s[:3] + (list(s[3]),) if s[0] == "hold" else (s[:2] + (list(s[2]),) if s[0] == "alloc_vec" else s) for s in steps]
    check_batch(ck, [steps], case["env"], "replay", stats)
    print(json.dumps(stats))
