"""C10 — exact arithmetic is exact and the numeric tower is coherent (DESIGN.md section 4, C10)."""
import json
import os
from fractions import Fraction

from checks import common
from checks.common import TieBroken

I32_MIN, I32_MAX = -2**31, 2**31 - 1
ISZ_MIN, ISZ_MAX = -2**63, 2**63 - 1

BOUNDARY = [0, 1, -1, 2, -2, 3, 7, 10, -10, 255, 256, 65535, 65536,
            2**31 - 2, 2**31 - 1, 2**31, 2**31 + 1, -2**31 + 1, -2**31, -2**31 - 1,
            2**32 - 1, 2**32, 2**32 + 1, 2**62 - 1, 2**62, 2**62 + 1,
            2**63 - 2, 2**63 - 1, 2**63, 2**63 + 1, -2**63 + 1, -2**63, -2**63 - 1,
            2**64 - 1, 2**64, 2**64 + 1, 10**30, -10**30, 3 * 2**30, 46341, 46340, -46341,
            65537, 2147483629, 2147483587]


def fbits(x):
    import struct
    if x != x:
        return "F7ff8000000000000"
    return "F%016x" % struct.unpack(">Q", struct.pack(">d", x))[0]


def to_double(x):
    """The double nearest to an exact rational (round to nearest even); doubles are returned unchanged."""
    if isinstance(x, float):
        return x
    try:
        return x.numerator / x.denominator        # int / int true division is correctly rounded
    except OverflowError:
        return float("inf") if x > 0 else float("-inf")


def canon_rep(q):
    """Canonical representation tag of a number, computed independently of the model."""
    if isinstance(q, float):
        return fbits(q)
    n, d = q.numerator, q.denominator
    if d == 1:
        return ("I%d" % n) if ISZ_MIN <= n <= ISZ_MAX else ("B%d" % n)
    if I32_MIN < n <= I32_MAX and d <= I32_MAX:
        return "R%d/%d" % (n, d)
    return "Q%d/%d" % (n, d)


def coq_num(q):
    n, d = q.numerator, q.denominator
    r = canon_rep(q)
    t = r[0]
    z = lambda v: "(%d)" % v
    if t == "I":
        return "IntV %s" % z(n)
    if t == "B":
        return "BigNum %s" % z(n)
    if t == "R":
        return "Rat32 %s %s" % (z(n), z(d))
    return "BigRat %s %s" % (z(n), z(d))


def lit(q):
    if isinstance(q, float):
        if q != q:
            return "+nan.0"
        if q in (float("inf"), float("-inf")):
            return "+inf.0" if q > 0 else "-inf.0"
        import math
        if q == 0.0 and math.copysign(1.0, q) < 0:
            return "(- 0.0)"      # the LITERAL -0.0 reads as 0.0 (known finding C10-F34): build negative zero instead
        r = repr(q)
        return r if ("." in r or "e" in r or "n" in r) else r + ".0"
    n, d = q.numerator, q.denominator
    return str(n) if d == 1 else "%d/%d" % (n, d)


FLOATS = [0.0, -0.0, 1.0, -1.0, 0.5, 1.5, -2.5, 3.0, 7.0, 49.0, 0.1, 1e-7, 5e-324, 2.2250738585072014e-308,
          9007199254740992.0, 9007199254740994.0, 4503599627370497.5, 1e23, 1.7976931348623157e308, 1e308,
          float("inf"), float("-inf"), float("nan"), 2147483648.0, 9.223372036854775807e18, 1.8446744073709552e19]


def gen_operand(rng, allow_float=False):
    if allow_float and rng.random() < 0.3:
        return rng.choice(FLOATS) if rng.random() < 0.7 else rng.uniform(-1e6, 1e6)
    k = rng.random()
    if k < 0.45:
        return Fraction(rng.choice(BOUNDARY) + rng.choice([0, 0, 0, 1, -1]))
    if k < 0.55:
        return Fraction(rng.randint(-1000, 1000))
    if k < 0.62:
        return Fraction(rng.getrandbits(rng.choice([40, 64, 70, 128])) * rng.choice([1, -1]))
    # rationals built from boundary values
    n = rng.choice(BOUNDARY) + rng.choice([0, 1, -1])
    d = rng.choice([2, 3, 4, 5, 6, 7, 9, 10, 12, 2**16, 2**30, 2**31 - 1, 2**31, 2**31 + 1, 2**32, 2**62,
                    2**63, 10**20, 46341, 65536, 65537]) + rng.choice([0, 0, 1])
    if k < 0.75:
        n = rng.randint(-50, 50)
    return Fraction(n, d)


OPS = ["+", "-", "*", "/", "abs", "=", "<", ">", "<=", ">=", "quotient", "remainder", "modulo", "gcd", "lcm", "expt",
       "exact-integer-sqrt", "number->string", "string->number"]
INT_OPS = {"quotient", "remainder", "modulo", "gcd", "lcm"}


def exact(op, xs):
    """The property oracle: exact rational arithmetic (python Fractions)."""
    if op == "+":
        return sum(xs, Fraction(0))
    if op == "*":
        r = Fraction(1)
        for x in xs:
            r *= x
        return r
    if op == "-":
        return -xs[0] if len(xs) == 1 else xs[0] - sum(xs[1:], Fraction(0))
    if op == "/":
        if len(xs) == 1:
            return None if xs[0] == 0 else 1 / xs[0]
        d = Fraction(1)
        for x in xs[1:]:
            d *= x
        return None if d == 0 else xs[0] / d
    if op == "abs":
        return abs(xs[0])
    if op == "=":
        return xs[0] == xs[1]
    if op == "<":
        return xs[0] < xs[1]
    if op == ">":
        return xs[0] > xs[1]
    if op == "<=":
        return xs[0] <= xs[1]
    if op == ">=":
        return xs[0] >= xs[1]
    raise ValueError(op)


def trunc_div(a, b):
    q = abs(a) // abs(b)
    return q if (a >= 0) == (b >= 0) else -q


def float_expected(op, xs):
    """Oracle for operations with an inexact operand: IEEE double arithmetic on the operands converted to
    the nearest double; comparisons by exact value.  Only unary/binary shapes (association order of the
    variadic forms is not fixed by the property)."""
    import math
    if op in ("=", "<", ">", "<=", ">="):
        a, b = xs
        for v in (a, b):
            if isinstance(v, float) and v != v:
                return "#f"
        def ex(v):
            if isinstance(v, float):
                if v in (float("inf"), float("-inf")):
                    return v
                return Fraction(v)
            return v
        a, b = ex(a), ex(b)
        import operator
        return "#t" if {"=": operator.eq, "<": operator.lt, ">": operator.gt, "<=": operator.le, ">=": operator.ge}[op](a, b) else "#f"
    d = [to_double(v) for v in xs]
    if op == "abs":
        return fbits(abs(d[0]))
    if op == "+":
        return fbits(d[0] + d[1]) if len(d) == 2 else fbits(d[0])
    if op == "*":
        return fbits(d[0] * d[1]) if len(d) == 2 else fbits(d[0])
    if op == "-":
        return fbits(d[0] - d[1]) if len(d) == 2 else fbits(-d[0])
    if op == "/":
        if len(d) == 1:
            num, den, exact_den = 1.0, d[0], xs[0]
        else:
            num, den, exact_den = d[0], d[1], xs[1]
        if not isinstance(exact_den, float) and exact_den == 0:
            return "E:divzero"
        if den == 0.0:
            if num != num or num == 0.0:
                return fbits(float("nan"))
            neg = (math.copysign(1.0, num) < 0) != (math.copysign(1.0, den) < 0)
            return fbits(float("-inf") if neg else float("inf"))
        return fbits(num / den)
    return None


def float_division_double_rounding(case, params):
    """Known-finding class C10-F32: a division with an inexact operand whose engine result is exactly
    x * (1/y) in double arithmetic (reciprocal-then-multiply) while IEEE division gives another double."""
    ops = case.get("operands_py", [])
    if case.get("op") != "/" or len(ops) != 2 or not any(o[0] == "f" for o in ops):
        return False
    vals = [float.fromhex(o[1]) if o[0] == "f" else to_double(Fraction(o[1])) for o in ops]
    x, y = vals
    if y == 0.0 or x != x or y != y:
        return False
    try:
        cands = [x * (1.0 / y)]
        if ops[1][0] == "q" and Fraction(ops[1][1]) != 0:
            cands.append(x * to_double(1 / Fraction(ops[1][1])))     # the exact reciprocal, then rounded
        return fbits(x / y) != case.get("impl") and any(fbits(c) == case.get("impl") for c in cands)
    except (OverflowError, ZeroDivisionError):
        return False


def minus_exact_zero_sign(case, params):
    """Known-finding class C10-F36: (- x 0) with x = -0.0 and an EXACT zero subtrahend loses the sign of zero."""
    ops = case.get("operands_py", [])
    return (case.get("op") == "-" and len(ops) == 2 and ops[0] == ["f", (-0.0).hex()] and ops[1] == ["q", "0"])


def negative_zero_literal(case, params):
    """Known-finding class C10-F34: the source literal -0.0 evaluates to 0.0 (string->number and arithmetic keep the sign)."""
    return case.get("op") == "literal" and case.get("args") == ["-0.0"]


def lossy_exact_float_comparison(case, params):
    """Known-finding class C10-F33: `=` / `<` between an exact number and a finite double where the exact
    operand is not representable as a double (the engine converts the exact operand to a double first:
    rvals.rs number_equality / PartialOrd, acknowledged by a TODO in the source)."""
    if case.get("op") not in ("=", "<", ">", "<=", ">="):
        return False
    vals = case.get("operands_py", [])
    if len(vals) != 2:
        return False
    fl = [v for v in vals if v[0] == "f"]
    ex = [v for v in vals if v[0] == "q"]
    if len(fl) != 1 or len(ex) != 1:
        return False
    f = float.fromhex(fl[0][1])
    if f != f or f in (float("inf"), float("-inf")):
        return False
    q = Fraction(ex[0][1])
    try:
        return Fraction(to_double(q)) != q
    except (OverflowError, ValueError):
        return True


def expected_str(op, xs):
    """Exact oracle (python ints / Fractions) rendered in the canonical form of the harness."""
    import math
    if any(isinstance(x, float) for x in xs):
        return float_expected(op, xs) if len(xs) <= 2 else None
    if op in INT_OPS:
        if any(x.denominator != 1 for x in xs):
            # the property speaks about integers here; what a non-integer operand gives is not prescribed
            # (the engine raises TypeMismatch except where it short-cuts, e.g. (lcm 0 1/2) = 0)
            return None
        a, b = int(xs[0]), int(xs[1])
        if op in ("quotient", "remainder", "modulo"):
            if b == 0:
                return "E:divzero"
            q = trunc_div(a, b)
            return canon_rep(Fraction({"quotient": q, "remainder": a - b * q, "modulo": a % b}[op]))
        if op == "gcd":
            return canon_rep(Fraction(math.gcd(a, b)))
        return canon_rep(Fraction(0 if a == 0 or b == 0 else abs(a * b) // math.gcd(a, b)))
    if op == "expt":
        base, e = xs
        if e.denominator != 1:
            return None                      # inexact / irrational: outside the exact oracle
        e = int(e)
        if base == 0 and e < 0:
            return "E:Generic"
        return canon_rep(base ** e)
    if op == "exact-integer-sqrt":
        x = xs[0]
        if x.denominator != 1 or x < 0:
            return "E:TypeMismatch"
        s_ = math.isqrt(int(x))
        return "(%s %s)" % (canon_rep(Fraction(s_)), canon_rep(Fraction(int(x) - s_ * s_)))
    if op == "number->string":
        return '"%s"' % lit(xs[0])
    if op == "string->number":
        return canon_rep(xs[0])
    r = exact(op, xs)
    if r is None:
        return "E:divzero"
    if isinstance(r, bool):
        return "#t" if r else "#f"
    return canon_rep(r)


def model_expr(op, xs):
    if any(isinstance(x, float) for x in xs):
        return None                   # doubles are outside the Coq model (oracle only)
    args = "[" + "; ".join(coq_num(x) for x in xs) + "]"
    if op == "+":
        return "render (add_n %s)" % args
    if op == "*":
        return "render (mul_n %s)" % args
    if op == "-":
        return "render_opt (sub_n %s)" % args
    if op == "/":
        return "render_opt (div_n %s)" % args
    if op == "abs":
        return "render (abs (%s))" % coq_num(xs[0])
    if op == "=":
        return "render_bool (num_eq (%s) (%s))" % (coq_num(xs[0]), coq_num(xs[1]))
    if op == "<":
        return "render_bool (num_lt (%s) (%s))" % (coq_num(xs[0]), coq_num(xs[1]))
    if op in ("quotient", "remainder", "modulo"):
        return "render (%s (%s) (%s))" % (op, coq_num(xs[0]), coq_num(xs[1]))
    if op == "gcd":
        return ("match gcd_loop 400 (%s) (%s) with Some r => render r | None => \"FUEL\"%%string end"
                % (coq_num(xs[0]), coq_num(xs[1])))
    if op == "exact-integer-sqrt":
        return ("match exact_integer_sqrt (%s) with Some (s, r) => (\"(\" ++ render_num s ++ \" \" ++ render_num r ++ \")\")%%string "
                "| None => \"E:TypeMismatch\"%%string end" % coq_num(xs[0]))
    return None          # lcm, expt, number<->string: engine vs exact oracle only


SHAPES = ["literal", "apply", "local", "mixed_literal", "branch", "tail"]


def source(op, xs, shape):
    """Steel source text exercising `op` on xs through one syntactic shape (cf. the quantifier)."""
    ls = [lit(x) for x in xs]
    if op == "string->number":
        ls = ['"%s"' % l for l in ls]
    names = ["x%d" % i for i in range(len(xs))]
    if shape == "literal":          # constant-folding candidate
        return "(%s %s)" % (op, " ".join(ls))
    if shape == "apply":            # the generic variadic primitive
        return "(apply %s (list %s))" % (op, " ".join(ls))
    if shape == "local":            # operands are local variables of a (non-inlined) procedure
        return "(c10-call (lambda (%s) (%s %s)) %s)" % (" ".join(names), op, " ".join(names), " ".join(ls))
    if shape == "mixed_literal":    # first operand local, the rest literal
        return "(c10-call (lambda (x0) (%s x0 %s)) %s)" % (op, " ".join(ls[1:]), ls[0]) if len(xs) > 1 else \
               "(c10-call (lambda (x0) (%s x0)) %s)" % (op, ls[0])
    if shape == "branch":           # result used as / inside a branch condition
        if op in ("=", "<", ">", "<=", ">="):
            return "(c10-call (lambda (%s) (if (%s %s) #t #f)) %s)" % (" ".join(names), op, " ".join(names), " ".join(ls))
        return "(c10-call (lambda (%s) (if (void? (%s %s)) 'no (%s %s))) %s)" % (
            " ".join(names), op, " ".join(names), op, " ".join(names), " ".join(ls))
    if shape == "tail":             # tail position of a named procedure, result of a loop
        return "(c10-call (lambda (%s) (let loop ([i 0]) (if (< i 1) (loop (+ i 1)) (%s %s)))) %s)" % (
            " ".join(names), op, " ".join(names), " ".join(ls))
    if shape in ("opcode", "opcode_nojit"):
        # the operation sits in a function of a REQUIRED MODULE: there the arithmetic primitives compile to the
        # ADD/SUB/MUL/DIV/NUMEQUAL/LT... opcodes (vm.rs handlers; native helpers of jit.rs when the JIT is on),
        # whereas user code at top level calls the global primitive functions
        return "(%s %s)" % (module_fn(op, len(xs)), " ".join(ls))
    raise ValueError(shape)


def module_fn(op, k):
    return "c10m/%s/%d" % (op, k)


def module_text(pairs):
    out = []
    for op, k in sorted(pairs):
        names = " ".join("a%d" % i for i in range(k))
        # a first evaluation in a loop (register operands, tail loop), then the operation in tail position
        out.append("(define (%s %s) (let loop ([i 0] [r #f]) (if (< i 2) (loop (+ i 1) (%s %s)) (%s %s))))"
                   % (module_fn(op, k), names, op, names, op, names))
    out.append("(provide %s)" % " ".join(module_fn(op, k) for op, k in sorted(pairs)))
    return "\n".join(out) + "\n"


PRELUDE = "(define (c10-call f . args) (apply f args))"


def impl_str(res):
    if "ok" in res:
        vals = res["ok"]
        return vals[-1] if vals else "<none>"
    if "err" in res:
        if "division by zero" in res.get("msg", ""):
            return "E:divzero"
        return "E:" + res["err"]
    if "crash" in res:
        return "CRASH:%s" % res["crash"]
    if "hang" in res:
        return "HANG"
    return "P:" + res.get("panic", "?")


def gen_cases(ck, n):
    rng = ck.rng
    cases = []
    for i in range(n):
        op = rng.choice(OPS)
        if op in ("abs", "exact-integer-sqrt", "number->string", "string->number"):
            k = 1
        elif op in ("=", "<", ">", "<=", ">=", "expt") or op in INT_OPS:
            k = 2
        else:
            k = rng.choice([1, 2, 2, 2, 3, 4])
        fl = op in ("+", "-", "*", "/", "abs", "=", "<", ">", "<=", ">=") and k <= 2 and rng.random() < 0.35
        xs = [gen_operand(rng, allow_float=fl) for _ in range(k)]
        if op in INT_OPS or op == "exact-integer-sqrt":
            # integers most of the time; a rational now and then for the type error
            xs = [x if rng.random() < 0.06 else Fraction(x.numerator) for x in xs]
            if op == "exact-integer-sqrt" and rng.random() < 0.85:
                xs = [abs(xs[0])]
            if op == "gcd":
                # keep Euclid short for the model's fuel: second operand below 2^70
                xs[1] = Fraction(int(xs[1]) % (2 ** 70)) if xs[1].denominator == 1 else xs[1]
        if op == "expt":
            xs[1] = Fraction(rng.choice([0, 1, 2, 3, 5, 10, 31, 32, 62, 63, 64, 100, -1, -2, -3, -10]))
            if abs(xs[0].numerator) > 2 ** 70 or xs[0].denominator > 2 ** 70:
                xs[0] = Fraction(rng.randint(-12, 12), rng.choice([1, 1, 2, 3, 7]))
        if op in ("/", "quotient", "remainder", "modulo") and rng.random() < 0.05:
            xs[-1] = Fraction(0)
        cases.append((op, xs))
    return cases


CORPUS = [
    ("/", [Fraction(1), Fraction(-2**31)]),
    ("/", [Fraction(-2**31)]),
    ("abs", [Fraction(-2**31, 3)]),
    ("abs", [Fraction(-2**63)]),
    ("-", [Fraction(-2**63)]),
    ("-", [Fraction(-2**31, 3)]),
    ("*", [Fraction(-2**30, 3), Fraction(2)]),
    ("/", [Fraction(-2**31, 3), Fraction(-2**63)]),
    ("+", [Fraction(2**63 - 1), Fraction(1)]),
    ("*", [Fraction(2**32), Fraction(2**31)]),
    ("=", [Fraction(-2**31, 3), Fraction(-2**31, 3)]),
    ("<", [Fraction(-2**31, 3), Fraction(1, 3)]),
    ("+", [Fraction(1, 2**31 - 1), Fraction(1, 2**31 - 2)]),
    ("/", [Fraction(5), Fraction(0)]),
    ("/", [Fraction(0)]),
]


# every pair from this set is evaluated on every run (quick tier included) for every binary operation:
# the representation boundaries of the tower meet exactly at these magnitudes
SWEEP = [0, 1, -1, 3, -7, 2**31 - 1, 2**31, -2**31, -2**31 - 1, 2**62, 2**63 - 1, 2**63, -2**63, -2**63 - 1,
         2**64, 10**30, -10**30]
SWEEP_RATS = [Fraction(1, 2), Fraction(-2**31 + 1, 3), Fraction(-2**31, 3), Fraction(2**31 - 1, 2**31 - 2),
              Fraction(1, 2**31), Fraction(7, 2**63), Fraction(-3, 10**20)]
SWEEP_OPS = ["+", "-", "*", "/", "=", "<", "quotient", "remainder", "modulo", "gcd", "lcm"]


def sweep_cases():
    out = []
    for op in SWEEP_OPS:
        for a in SWEEP:
            for b in SWEEP:
                out.append((op, [Fraction(a), Fraction(b)]))
    for op in ["+", "-", "*", "/", "=", "<"]:
        for a in SWEEP_RATS:
            for b in SWEEP_RATS + [Fraction(x) for x in (0, 1, -1, 2**31, -2**31, 2**63, -2**63)]:
                out.append((op, [a, b]))
                out.append((op, [b, a]))
    # comparison lattice: every ordered pair of a set closed under floor / ceiling / truncation of its rationals,
    # all five comparison procedures (each has its own primitive and its own PartialOrd arms in rvals.rs)
    base = [Fraction(n, d) for n in (1, 3, 5, 7, 2**31 - 1, 2**31 + 1, 2**63 + 1, 2**64 + 1) for d in (2, 3)] + \
           [Fraction(2**31 - 1, 2**31 - 2), Fraction(10**20 + 1, 10**20)]
    lat = set()
    for r_ in base:
        for q in (r_, -r_):
            lat.update([q, Fraction(q.numerator // q.denominator), Fraction(-((-q.numerator) // q.denominator))])
    lat.update(Fraction(x) for x in (0, 1, -1, 2, -2, 2**31, -2**31, 2**63 - 1, 2**63, -2**63, 2**64))
    lat = sorted(lat)
    for op in ["=", "<", ">", "<=", ">="]:
        for a in lat:
            for b in lat:
                out.append((op, [a, b]))
    fl = [0.0, -0.0, 1.0, 3.0, 49.0, 0.1, 9007199254740992.0, 1e23, 1.8446744073709552e19, 9.223372036854775807e18,
          float("inf"), float("nan"), 5e-324]
    ex = [Fraction(x) for x in (0, 1, 3, 49, 2**53 + 1, 2**63, -2**63, 10**23, 10**23 + 1, 10**30)] + \
         [Fraction(1, 3), Fraction(-2**31 + 1, 3), Fraction(1, 10)]
    for op in ["+", "-", "*", "/", "=", "<"]:
        for a in fl:
            for b in fl[:7]:
                out.append((op, [a, b]))
            for b in ex:
                out.append((op, [a, b]))
                out.append((op, [b, a]))
    for a in fl:
        out.append(("abs", [a]))
        out.append(("-", [a]))
        out.append(("/", [a]))
    for a in SWEEP + SWEEP_RATS:
        out.append(("abs", [Fraction(a)]))
        out.append(("-", [Fraction(a)]))
        out.append(("/", [Fraction(a)]))
        out.append(("number->string", [Fraction(a)]))
        out.append(("string->number", [Fraction(a)]))
        if Fraction(a).denominator == 1:
            out.append(("exact-integer-sqrt", [Fraction(a)]))
        for e in (0, 1, 2, 3, 63, 64, -1, -2, -3):
            if abs(Fraction(a)) < 2**70:
                out.append(("expt", [Fraction(a), Fraction(e)]))
    return out


def run(ck):
    ck.cov["trusted_base"] = [
        "Coq 8.16.1 kernel, coqc; vm_compute for model evaluation (no native_compute)",
        "hand-written model coq/c10/Model_C10.v of numbers.rs / primitives.rs / rvals.rs and of "
        "num-rational 0.4.2 Ratio<i32>::{new,checked_add,checked_sub,checked_mul,recip,neg,abs}, num-integer gcd",
        "correspondence harness (harness/src/bin/evalsrv.rs, canonical value rendering in harness/src/lib.rs)",
        "case renderers in checks/c10.py (Fraction -> Coq term, Fraction -> Steel literal)",
        "oracle: python fractions.Fraction exact arithmetic",
    ]
    ck.assumptions = [
        "BigInt/BigRational (num-bigint, num-rational over BigInt) are exact: modelled by Z arithmetic",
        "floating point and complex operands are outside the Coq model of this check (see DESIGN.md C10)",
    ]
    proved = ck.proof_stage(["c10"], ["c10/Properties_C10"], "c10/Pins_C10.v")

    # ---- correspondence: model vs implementation vs exact oracle
    ck.harness_build(["evalsrv"])
    n = 1200 if ck.tier == "quick" else 40000
    sweep = sweep_cases()
    cases = list(CORPUS) + sweep + gen_cases(ck, n)
    ck.cov["boundary_sweep_cases"] = len(sweep)
    shapes_for = []
    # module holding one function per (operation, operand count): the "opcode" shapes
    import os
    pairs = {(op, len(xs)) for op, xs in cases if op != "string->number"}
    mpath = os.path.join(ck.work, "c10mod.scm")
    with open(mpath, "w") as fh:
        fh.write(module_text(pairs))
    prelude = PRELUDE + "\n;;;;\n(require \"%s\")" % mpath
    units = [prelude]
    index = []
    for ci, (op, xs) in enumerate(cases):
        in_sweep = len(CORPUS) <= ci < len(CORPUS) + len(sweep)
        shapes = SHAPES if (ck.tier == "thorough" or ci < len(CORPUS)) else \
            (["apply", ("local", "literal", "tail")[ci % 3]] if in_sweep else [ck.rng.choice(SHAPES), "apply"])
        shapes = list(shapes)
        if op != "string->number" and (ck.tier == "thorough" or ci < len(CORPUS) or in_sweep or ci % 2 == 0):
            shapes.append("opcode")
        for sh in dict.fromkeys(shapes):
            units.append(source(op, xs, sh))
            index.append((ci, sh))
    # implementation, in worker subprocesses (a panic is caught in-process; a crash kills the worker)
    impl = run_impl(ck, units)
    # the opcode shape once more with the native tier switched off (vm.rs opcode handlers)
    nojit = [(ci, k) for k, (ci, sh) in enumerate(index) if sh == "opcode"]
    impl_nojit = run_impl(ck, [prelude] + [units[1 + k] for _, k in nojit], env={"STEEL_JIT": "false"})
    for (ci, k), r in zip(nojit, impl_nojit[1:]):
        index.append((ci, "opcode_nojit"))
        impl.append(r)
    # model
    exprs = [model_expr(op, xs) for op, xs in cases]
    have = [i for i, e in enumerate(exprs) if e is not None]
    got = ck.coq_eval("From SV Require Import c10.Model_C10.\nFrom Coq Require Import ZArith List String.\nImport ListNotations.\nOpen Scope Z_scope.",
                      [exprs[i] for i in have])
    model = [None] * len(exprs)
    for i, m in zip(have, got):
        model[i] = m
    seen = set()
    nontrivial = set()
    disagree = 0
    for (ci, sh), got in zip(index, impl[1:]):
        op, xs = cases[ci]
        want = expected_str(op, xs)
        mod = model[ci]
        g = impl_str(got)
        if want is None:
            continue
        ck.cov["evaluations"] += 1
        key = (op, tuple(canon_rep(x)[0] for x in xs), want[:2], sh)
        if key not in seen:
            seen.add(key)
            if any(canon_rep(x)[0] != "I" or abs(x) > 2**31 for x in xs):
                nontrivial.add(key)
        case = {"op": op, "args": [lit(x) for x in xs], "shape": sh, "source": source(op, xs, sh),
                "impl": g, "model": mod, "exact": want,
                "operands_py": [["f", x.hex()] if isinstance(x, float) else ["q", str(x)] for x in xs]}
        if ci % 97 == 0:
            ck.sample(case)
        if g != want:
            # the property oracle (exact arithmetic) disagrees with the implementation: failing input
            ck.failing_input("%s on %s (%s): engine returned %s, exact result is %s" % (op, case["args"], sh, g, want),
                             case, tag="arith")
        elif mod is not None and mod != g and mod != "FUEL":
            disagree += 1
            # model and implementation differ although the implementation is right: the model no longer
            # mirrors the code; the theorems are about something else
            ck.violation("model/implementation correspondence broken on %s %s: model %s, engine %s" % (op, case["args"], mod, g),
                         {"case": case, "correspondence": "c10.Model_C10 vs numbers.rs"}, no_input=True, tag="corr")
    # the literal -0.0 (its own probe: operands elsewhere build negative zero with (- 0.0))
    z = run_impl(ck, [PRELUDE, "-0.0"])
    if impl_str(z[1]) != "F8000000000000000":
        ck.failing_input("the literal -0.0 evaluates to %s" % impl_str(z[1]),
                         {"op": "literal", "args": ["-0.0"], "impl": impl_str(z[1]), "exact": "F8000000000000000"}, tag="arith")
    ck.cov["distinct_nontrivial"] = len(nontrivial)
    ck.cov["rule"] = ("operand tuples from a boundary lattice (i32/i64/isize limits +-2, 2^62..2^64, 10^30, random 40-128 bit) "
                      "and rationals built from it; each evaluated through syntactic shapes %s; distinct = distinct "
                      "(operation, operand representation tags, result tag, shape); non-trivial = some operand is not a "
                      "fixnum below 2^31; shapes opcode / opcode_nojit: the operation inside a function of a required "
                      "module, where it compiles to an arithmetic opcode (native helper / vm.rs handler)" % SHAPES)
    ck.cov["shape_histogram"] = {s: sum(1 for _, sh in index if sh == s) for s in SHAPES + ["opcode", "opcode_nojit"]}
    ck.cov["op_histogram"] = {o: sum(1 for op, _ in cases if op == o) for o in OPS}
    ck.cov["model_vs_impl_disagreements"] = disagree
    if not proved and not ck.violations:
        ck.unproved()


def run_impl(ck, units, env=None):
    """Evaluate units (units[0] is the prelude) on the real engine, one case per unit."""
    res = ck.eval_cases([[u] for u in units[1:]], prelude=units[0], env=env)
    return [None] + [r[0] for r in res]


def replay(ck, path):
    obj = json.load(open(path))
    case = obj.get("case")
    if not case:
        print(json.dumps(obj, indent=1))
        return
    ck.harness_build(["evalsrv"])
    prelude, env = PRELUDE, None
    if str(case.get("shape", "")).startswith("opcode"):
        import os
        mpath = os.path.join(ck.work, "c10mod_replay.scm")
        with open(mpath, "w") as fh:
            fh.write(module_text({(case["op"], len(case["args"]))}))
        prelude = PRELUDE + "\n;;;;\n(require \"%s\")" % mpath
        env = {"STEEL_JIT": "false"} if case["shape"] == "opcode_nojit" else None
    impl = run_impl(ck, [prelude, case["source"]], env=env)
    g = impl_str(impl[1])
    print("source:", case["source"])
    print("engine:", g, " exact:", case["exact"], " model:", case["model"])
    if g != case["exact"]:
        ck.failing_input("replay: engine returned %s, exact result is %s" % (g, case["exact"]), case, tag="arith")
