"""C06 translator: facts about the global-slot machinery read from /repo on every run -> coq/gen/Gen_C06.v.

Every parser looks for one stable syntactic shape; when the shape is not found it raises TieBroken
(the model is then no longer known to be a model of the code).  Nothing here executes Rust.
"""
import re

from checks.common import TieBroken, repo_file

MAP_RS = "crates/steel-core/src/compiler/map.rs"
COMPILER_RS = "crates/steel-core/src/compiler/compiler.rs"
PROGRAM_RS = "crates/steel-core/src/compiler/program.rs"
CLOSED_RS = "crates/steel-core/src/values/closed.rs"
ENGINE_RS = "crates/steel-core/src/steel_vm/engine.rs"
JIT_RS = "crates/steel-core/src/steel_vm/vm/jit.rs"
OPCODE_RS = "crates/steel-gen/src/opcode.rs"

# passes that run after the interner in RawProgramWithSymbols::build and were read line by line:
# none of them changes the op code or payload of an instruction that carries a global slot
POST_INTERNER_PASSES_OK = {"specialize_constants", "specialize_read_local", "merge_call_global_if"}


def strip_comments(src):
    src = re.sub(r"/\*.*?\*/", " ", src, flags=re.S)
    return re.sub(r"//[^\n]*", "", src)


def balanced(src, start, open_="{", close="}"):
    """src[start] == open_; return index just past the matching close."""
    assert src[start] == open_, (src[start:start + 20], open_)
    depth = 0
    i = start
    n = len(src)
    while i < n:
        c = src[i]
        if c == open_:
            depth += 1
        elif c == close:
            depth -= 1
            if depth == 0:
                return i + 1
        i += 1
    raise TieBroken("unbalanced braces while parsing Rust source")


def fn_body(src, header_re, what):
    m = re.search(header_re, src)
    if not m:
        raise TieBroken("cannot find %s" % what)
    b = src.index("{", m.end() - 1) if src[m.end() - 1] != "{" else m.end() - 1
    e = balanced(src, b)
    return src[b:e]


def ops_in(pattern_text):
    return re.findall(r"OpCode::(\w+)", pattern_text)


def match_arms(body):
    """Yield (pattern_text, arm_body_text) for `pattern => { ... }` arms found in body (any nesting level)."""
    arms = []
    pos = 0
    last_end = 0
    while True:
        m = re.compile(r"=>\s*\{").search(body, pos)
        if not m:
            break
        b = m.end() - 1
        e = balanced(body, b)
        arms.append((body[last_end:m.start()], body[b:e]))
        # continue *inside* the arm too (nested matches), but remember where this arm's pattern ended
        last_end = e
        pos = e
    return arms


def parse_opcodes():
    src = strip_comments(repo_file(OPCODE_RS))
    m = re.search(r"declare_opcodes!\s*\{\s*\{", src)
    if not m:
        raise TieBroken("opcode.rs: declare_opcodes! { { ... } } not found")
    b = m.end() - 1
    e = balanced(src, b)
    names = [x.strip() for x in src[b + 1:e - 1].split(";")]
    names = [x for x in names if x]
    for n in names:
        if not re.fullmatch(r"[A-Za-z_][A-Za-z0-9_]*", n):
            raise TieBroken("opcode.rs: unexpected variant syntax %r" % n)
    if len(names) < 50 or len(set(names)) != len(names):
        raise TieBroken("opcode.rs: implausible opcode list (%d)" % len(names))
    return names


def parse_interner():
    src = strip_comments(repo_file(COMPILER_RS))
    first = fn_body(src, r"pub fn collect_first_pass_defines\s*\(", "DebruijnIndicesInterner::collect_first_pass_defines")
    second = fn_body(src, r"pub fn collect_second_pass_defines\s*\(", "DebruijnIndicesInterner::collect_second_pass_defines")
    define_ops = []
    for pat, arm in match_arms(first):
        if re.search(r"symbol_map\s*\.\s*add\s*\(", arm):
            if not re.search(r"payload_size\s*=\s*u24::from_usize\(idx\)", arm):
                raise TieBroken("first pass: an arm adds a symbol without writing the slot into the instruction")
            ops = ops_in(pat)
            if not ops:
                raise TieBroken("first pass: defining arm without op code pattern")
            define_ops.append(ops[0])       # the tuple's first component is instructions[i], the one rewritten
    if sorted(set(define_ops)) != ["BIND"]:
        raise TieBroken("first pass: expected exactly the BIND arms to add symbols, found %s" % define_ops)
    interned = []
    for pat, arm in match_arms(second):
        gets = re.search(r"symbol_map\s*\.\s*get\s*\(", arm)
        writes = re.search(r"payload_size\s*=\s*u24::from_usize\(idx\)", arm)
        if gets and writes:
            ops = ops_in(pat)
            if not ops:
                raise TieBroken("second pass: resolving arm without op code pattern")
            for o in ops:
                if o not in interned:
                    interned.append(o)
        elif gets or writes:
            raise TieBroken("second pass: arm with symbol_map.get xor payload rewrite (shape changed)")
    if not interned:
        raise TieBroken("second pass: no arm resolves identifiers to global slots")
    # all defines are added before any reference is resolved, and nothing else touches instructions with a slot
    prog = strip_comments(repo_file(PROGRAM_RS))
    build = fn_body(prog, r"pub fn build\s*\(\s*mut self\s*,\s*name\s*:\s*String\s*,\s*symbol_map", "RawProgramWithSymbols::build")
    i1 = build.find("collect_first_pass_defines")
    i2 = build.find("collect_second_pass_defines")
    if i1 < 0 or i2 < 0 or not i1 < i2:
        raise TieBroken("build: first pass over all expressions must precede the second pass")
    loops = re.findall(r"for\s*\(index,\s*expression\)\s*in\s*self\.instructions\.iter_mut\(\)\.enumerate\(\)\s*\{\s*interner\.(\w+)\(", build)
    if loops != ["collect_first_pass_defines", "collect_second_pass_defines"]:
        raise TieBroken("build: expected two separate loops (first pass, second pass), found %s" % loops)
    passes = re.findall(r"\b(\w+)\(instructions\)", build[i2:])
    unknown = [p for p in passes if p not in POST_INTERNER_PASSES_OK]
    if unknown:
        raise TieBroken("build: bytecode pass(es) %s run after the interner and were not validated against the slot scan" % unknown)
    return define_ops[:1], interned


def parse_recycler():
    src = strip_comments(repo_file(CLOSED_RS))
    m = re.search(r"impl\s+BreadthFirstSearchSteelValVisitor\s+for\s+GlobalSlotRecycler\s*\{", src)
    if not m:
        raise TieBroken("closed.rs: visitor impl for GlobalSlotRecycler not found")
    impl = src[m.end() - 1:balanced(src, m.end() - 1)]
    vc = fn_body(impl, r"fn visit_closure\s*\(", "GlobalSlotRecycler::visit_closure")
    if not re.search(r"for\s+capture\s+in\s+closure\.captures\(\)\s*\{\s*self\.push_back\(capture\.clone\(\)\)", vc):
        raise TieBroken("visit_closure: captures are no longer pushed")
    loop = re.search(r"for\s+(\(\s*index\s*,\s*instruction\s*\)|instruction)\s+in\s+closure\.body_exp\.iter\(\)(\.enumerate\(\))?\s*\{", vc)
    if not loop:
        raise TieBroken("visit_closure: loop over closure.body_exp not found")
    lb = vc[loop.end() - 1:balanced(vc, loop.end() - 1)]
    mm = re.search(r"match\s+([\w.]+)\s*\{", lb[::1])
    # the *last* `match <scrutinee> {` whose arms remove slots is the scan
    scanned = []
    scrutinee = None
    follow = None
    for m2 in re.finditer(r"match\s+([\w.]+)\s*\{", lb):
        mb = lb[m2.end() - 1:balanced(lb, m2.end() - 1)]
        for pat, arm in match_arms(mb[1:-1]):
            if re.search(r"self\.slots\.remove\(", arm):
                scrutinee = m2.group(1)
                for o in ops_in(pat):
                    if o not in scanned:
                        scanned.append(o)
                if not re.search(r"instruction\.payload_size\.to_usize\(\)", arm):
                    raise TieBroken("visit_closure: the removed slot is not the instruction payload")
                f = bool(re.search(r"if\s+self\.slots\.remove\(&slot\)\s*\{\s*if\s+let\s+Some\(value\)\s*=\s*self\.shadowed_values\.remove\(&slot\)\s*\{\s*self\.push_back\(value\)", arm))
                if not f and "shadowed_values" in arm:
                    raise TieBroken("visit_closure: shadowed_values used in an unknown way")
                follow = f if follow is None else (follow and f)
    if not scanned or scrutinee is None:
        raise TieBroken("visit_closure: no match arm removes candidate slots")
    # which op code is matched for instruction 0?
    if scrutinee == "instruction.op_code":
        header = False
    elif scrutinee == "op_code":
        h = re.search(r"let\s+op_code\s*=\s*match\s*\(\s*index\s*,\s*closure\.header\s*\)\s*\{\s*\(\s*0\s*,\s*Some\((\w+)\)\s*\)\s*=>\s*(\w+)\s*,\s*_\s*=>\s*instruction\.op_code\s*,?\s*\}\s*;", lb)
        if not h or h.group(1) != h.group(2) or not loop.group(2):
            raise TieBroken("visit_closure: cannot tell how the matched op code is derived from the header")
        header = True
    else:
        raise TieBroken("visit_closure: unknown scan scrutinee %r" % scrutinee)
    # recycle(): candidates, roots, freeing
    rec = fn_body(src, r"pub fn recycle\s*\(", "GlobalSlotRecycler::recycle")
    need = [
        (r"\.shadowed_slots\s*\.drain\(\.\.\)", "candidates are the drained shadowed slots"),
        (r"for\s*\(index,\s*root\)\s*in\s*roots\.iter\(\)\.enumerate\(\)\s*\{\s*if\s*!self\.slots\.contains\(&index\)\s*\{\s*self\.push_back\(root\.clone\(\)\);", "non-candidate globals are the roots"),
        (r"self\.visit\(\);", "visit"),
        (r"for\s+index\s+in\s+self\.slots\.drain\(\)\s*\{\s*if\s+index\s*<\s*roots\.len\(\)\s*\{\s*symbol_map\.free_list\.free_list\.push\(index\);\s*roots\[index\]\s*=\s*SteelVal::Void;", "unreferenced candidates below roots.len() are freed and voided"),
    ]
    for rx, what in need:
        if not re.search(rx, rec):
            raise TieBroken("recycle: shape changed (%s)" % what)
    keeps = bool(re.search(r"\}\s*else\s*\{\s*self\.shadowed_values\.insert\(index,\s*root\.clone\(\)\);", rec))
    if follow and not keeps:
        raise TieBroken("recycle: visit_closure follows shadowed values but recycle does not record them")
    if keeps and not follow:
        follow = False
    return scanned, header, bool(follow), parse_marks(src, impl, rec)


def parse_marks(src, impl, rec):
    """Does the recycler's walk start from cleared heap mark bits?  (The mark bit `reachable` is the visited set of
    mark_heap_reference / mark_heap_vector, and it is set on every allocated cell.)"""
    # the recycler visits boxes and mutable vectors through the marking context
    for fn, callee in (("visit_heap_allocated", "mark_heap_reference"), ("visit_mutable_vector", "mark_heap_vector")):
        b = fn_body(impl, r"fn %s\s*\(" % fn, "GlobalSlotRecycler::%s" % fn)
        if not re.search(r"queue:\s*&mut self\.queue", b) or not re.search(r"queue\.%s\(" % callee, b):
            raise TieBroken("%s: no longer visits the cell through %s on the recycler's own queue" % (fn, callee))
    m = re.search(r"impl<'a>\s+MarkAndSweepContext<'a>\s*\{", src)
    if not m:
        raise TieBroken("closed.rs: impl MarkAndSweepContext not found")
    ctx = src[m.end() - 1:balanced(src, m.end() - 1)]
    for fn in ("mark_heap_reference", "mark_heap_vector"):
        b = fn_body(ctx, r"fn %s\s*\(" % fn, "MarkAndSweepContext::%s" % fn)
        if not re.search(r"if\s+guard\.is_reachable\(\)\s*\{\s*return;\s*\}\s*guard\.mark_reachable\(\);", b) or "push_back" not in b:
            raise TieBroken("%s: expected `if is_reachable { return } mark_reachable; push contents`" % fn)
    if not re.search(r"pub\(crate\) fn reset\(&mut self\)\s*\{\s*self\.reachable\s*=\s*false;", src):
        raise TieBroken("HeapAllocated::reset: shape changed")
    before = rec[:rec.find("self.visit();")]
    after = rec[rec.find("self.visit();"):]
    lists = ("memory_free_list", "vector_free_list")
    if all(re.search(r"heap\.%s\.take_marks\(\)" % l, before) for l in lists):
        if not all(re.search(r"heap\.%s\.restore_marks\(" % l, after) for l in lists):
            raise TieBroken("recycle: marks are taken but not restored")
        bodies = [mm.end() for mm in re.finditer(r"fn take_marks\(&mut self\)\s*->\s*Vec<bool>\s*", src)]
        if len(bodies) < 1:
            raise TieBroken("take_marks: definition not found")
        clears = []
        for pos in bodies:
            b = src[pos:balanced(src, pos)]
            if re.search(r"\.map\(\|x\|\s*core::mem::replace\(&mut x\.write\(\)\.reachable,\s*false\)\)", b):
                clears.append(True)
            elif not re.search(r"reachable\s*=|replace\(|reset\(\)|mark_reachable", b):
                clears.append(False)            # reads the bits without clearing them
            else:
                raise TieBroken("take_marks: cannot tell whether the mark bits are cleared")
        return all(clears)
    if all(re.search(r"heap\.%s\.mark_all_unreachable\(\)" % l, before) for l in lists):
        if len(re.findall(r"fn mark_all_unreachable\(&mut self\)\s*\{\s*self\.elements\.iter_mut\(\)\.for_each\(\|x\|\s*x\.write\(\)\.reset\(\)\);", src)) < 1:
            raise TieBroken("mark_all_unreachable: shape changed")
        return True
    if re.search(r"take_marks|mark_all_unreachable|reachable|reset\(\)", before):
        raise TieBroken("recycle: cannot tell whether the mark bits are cleared before the walk")
    return False


def parse_map():
    src = strip_comments(repo_file(MAP_RS))
    new = fn_body(src, r"pub fn new\(\)\s*->\s*Self\s*\{\s*SymbolMap", "SymbolMap::new")
    t = re.search(r"threshold:\s*(\d+)", new)
    mu = re.search(r"multiplier:\s*(\d+)", new)
    ep = re.search(r"epoch:\s*(\d+)", new)
    if not (t and mu and ep):
        raise TieBroken("SymbolMap::new: threshold/multiplier/epoch literals not found")
    sc = fn_body(src, r"pub fn should_collect\(&self\)\s*->\s*bool", "FreeList::should_collect")
    if not re.search(r"self\.shadowed_count\(\)\s*>\s*self\.threshold", sc):
        raise TieBroken("should_collect: expected shadowed_count() > threshold")
    if not re.search(r"pub fn shadowed_count\(&self\)\s*->\s*usize\s*\{\s*self\.shadowed_slots\.len\(\)", src):
        raise TieBroken("shadowed_count: expected shadowed_slots.len()")
    ig = fn_body(src, r"pub fn increment_generation\(&mut self\)", "FreeList::increment_generation")
    g = re.search(r"if\s+self\.epoch\s*==\s*(\d+)\s*\{\s*self\.threshold\s*=\s*(\d+);\s*self\.epoch\s*=\s*(\d+);\s*\}\s*else\s*\{\s*"
                  r"self\.threshold\s*\*=\s*self\.multiplier;\s*self\.epoch\s*\+=\s*1;\s*\}", ig)
    if not g:
        raise TieBroken("increment_generation: shape changed")
    add = fn_body(src, r"pub fn add\(&mut self,\s*ident:\s*&InternedString\)\s*->\s*usize", "SymbolMap::add")
    need = [
        (r"let idx = self\s*\.free_list\s*\.pop_next_free\(\)\s*\.unwrap_or_else\(\|\|\s*self\.values\.len\(\)\);", "slot = popped free slot or values.len()"),
        (r"let prev = self\.map\.insert\(\*ident,\s*idx\);", "map.insert(ident, idx)"),
        (r"if let Some\(prev\) = prev\s*\{\s*self\.free_list\.add_shadowed\(prev\);", "previous slot goes to shadowed"),
        (r"if idx == self\.values\.len\(\)\s*\{\s*self\.values\.push\(\*ident\);\s*\}\s*else\s*\{\s*self\.values\[idx\]\s*=\s*\*ident;", "values updated"),
    ]
    for rx, what in need:
        if not re.search(rx, add):
            raise TieBroken("SymbolMap::add: shape changed (%s)" % what)
    if not re.search(r"pub fn add_shadowed\(&mut self,\s*val:\s*usize\)\s*\{\s*self\.shadowed_slots\.push\(val\);", src):
        raise TieBroken("FreeList::add_shadowed: shape changed")
    if not re.search(r"pub fn pop_next_free\(&mut self\)\s*->\s*Option<usize>\s*\{\s*self\.free_list\.pop\(\)", src):
        raise TieBroken("FreeList::pop_next_free: shape changed")
    get = fn_body(src, r"pub fn get\(&self,\s*ident:\s*&InternedString\)\s*->\s*Result<usize>", "SymbolMap::get")
    if not re.search(r"self\.map\s*\.get\(ident\)\s*\.copied\(\)\s*\.ok_or_else\(throw!\(FreeIdentifier", get):
        raise TieBroken("SymbolMap::get: shape changed")
    rb = fn_body(src, r"pub fn roll_back\(&mut self,\s*index:\s*usize\)", "SymbolMap::roll_back")
    if not re.search(r"for value in self\.values\.drain\(index\.\.\)\s*\{\s*self\.map\.remove\(&value\);", rb):
        raise TieBroken("SymbolMap::roll_back: shape changed")
    return {"threshold": int(t.group(1)), "multiplier": int(mu.group(1)), "epoch": int(ep.group(1)),
            "epoch_reset_at": int(g.group(1)), "threshold_reset": int(g.group(2)), "epoch_reset": int(g.group(3))}


def parse_engine():
    src = strip_comments(repo_file(ENGINE_RS))
    run = fn_body(src, r"pub fn run_raw_program\(&mut self,\s*program:\s*RawProgramWithSymbols\)", "Engine::run_raw_program")
    a = run.find("self.raw_program_to_executable(program)?")
    b = run.find("self.gc_shadowed_roots()")
    c = run.find("run_executable(&executable)")
    if not (0 <= a < b < c):
        raise TieBroken("run_raw_program: expected build -> gc_shadowed_roots -> run_executable")
    gc = fn_body(src, r"fn gc_shadowed_roots\(&mut self\)", "Engine::gc_shadowed_roots")
    if not re.search(r"if\s+guard\.symbol_map\.free_list\.should_collect\(\)", gc) or \
       "GlobalSlotRecycler::free_shadowed_rooted_values(" not in gc or \
       not re.search(r"\.free_list\s*\.increment_generation\(\)", gc):
        raise TieBroken("gc_shadowed_roots: shape changed")
    rp = fn_body(src, r"pub fn raw_program_to_executable\(", "Engine::raw_program_to_executable")
    if not re.search(r"let result = program\.build\(", rp) or not re.search(r"if result\.is_err\(\)\s*\{", rp):
        raise TieBroken("raw_program_to_executable: shape changed")
    errb = rp[re.search(r"if result\.is_err\(\)\s*\{", rp).end() - 1:]
    errb = errb[:balanced(errb, 0)]
    before = rp[:rp.find("let result = program.build(")]
    snap = re.search(r"let (\w+) = self\.virtual_machine\.compiler\.read\(\)\.symbol_map\.clone\(\);", before)
    if snap and re.search(r"guard\.symbol_map\s*=\s*%s;" % snap.group(1), errb) and "roll_back" not in errb:
        snapshot = True
    elif re.search(r"let (\w+) = self\.virtual_machine\.compiler\.read\(\)\.symbol_map\.len\(\);", before) and \
            re.search(r"guard\.symbol_map\.roll_back\(\w+\);", errb):
        snapshot = False
    else:
        raise TieBroken("raw_program_to_executable: cannot tell how a failed build is rolled back")
    return snapshot


def parse_jit():
    src = strip_comments(repo_file(JIT_RS))
    body = fn_body(src, r"pub\(crate\) fn jit_compile_lambda\(", "jit_compile_lambda")
    m = re.search(r"func\.header\s*=\s*Some\(instructions\[0\]\.op_code\);\s*instructions\[0\]\.op_code\s*=\s*OpCode::(\w+);", body)
    if not m:
        raise TieBroken("jit_compile_lambda: header save / op code overwrite of instruction 0 not found")
    return m.group(1)


def coq_name(op):
    return "Op_" + op


def generate():
    """Returns (coq_text, facts dict)."""
    ops = parse_opcodes()
    define_ops, interned = parse_interner()
    scanned, header, follow, clears = parse_recycler()
    consts = parse_map()
    snapshot = parse_engine()
    jit_op = parse_jit()
    for o in define_ops + interned + scanned + [jit_op]:
        if o not in ops:
            raise TieBroken("op code %s is not a variant of steel_gen::OpCode" % o)
    needed = ["PUSH", "SET", "CALLGLOBAL", "CALLGLOBALTAIL", "CALLGLOBALNOARITY", "CALLGLOBALTAILNOARITY",
              "CALLPRIMITIVE", "READCAPTURED", "READLOCAL", "PUSHCONST", "BIND", "DynSuperInstruction"]
    for o in needed:
        if o not in ops:
            raise TieBroken("op code %s used by the model no longer exists" % o)
    L = []
    L.append("(* GENERATED by checks/c06_translate.py from /repo on every run of the C06 check -- do not edit. *)")
    L.append("From Coq Require Import List Arith Bool.")
    L.append("Import ListNotations.")
    L.append("")
    L.append("(* crates/steel-gen/src/opcode.rs declare_opcodes! *)")
    L.append("Inductive opcode : Set :=")
    for o in ops:
        L.append("  | %s" % coq_name(o))
    L[-1] += "."
    L.append("")
    L.append("Definition op_idx (o : opcode) : nat :=\n  match o with")
    for i, o in enumerate(ops):
        L.append("  | %s => %d" % (coq_name(o), i))
    L.append("  end.")
    L.append("")
    L.append("Definition op_of_idx (n : nat) : opcode :=\n  match n with")
    for i, o in enumerate(ops[:-1]):
        L.append("  | %d => %s" % (i, coq_name(o)))
    L.append("  | _ => %s" % coq_name(ops[-1]))
    L.append("  end.")
    L.append("")
    L.append("Lemma op_of_idx_idx : forall o, op_of_idx (op_idx o) = o.\nProof. destruct o; reflexivity. Qed.")
    L.append("")
    L.append("Definition op_eqb (a b : opcode) : bool := Nat.eqb (op_idx a) (op_idx b).")
    L.append("")
    L.append("Lemma op_eqb_eq : forall a b, op_eqb a b = true <-> a = b.\nProof.\n  intros a b; unfold op_eqb; rewrite Nat.eqb_eq; split.\n"
             "  - intro H. rewrite <- (op_of_idx_idx a), <- (op_of_idx_idx b), H. reflexivity.\n  - intros ->. reflexivity.\nQed.")
    L.append("")
    lst = lambda xs: "[" + "; ".join(coq_name(x) for x in xs) + "]"
    b = lambda x: "true" if x else "false"
    L.append("(* compiler.rs DebruijnIndicesInterner::collect_first_pass_defines: arms that call symbol_map.add *)")
    L.append("Definition define_ops : list opcode := %s." % lst(define_ops))
    L.append("(* compiler.rs collect_second_pass_defines: arms that resolve symbol_map.get(s) into payload_size *)")
    L.append("Definition interned_ops : list opcode := %s." % lst(interned))
    L.append("(* closed.rs GlobalSlotRecycler::visit_closure: arms that remove the payload from the candidate set *)")
    L.append("Definition scanned_ops : list opcode := %s." % lst(scanned))
    L.append("(* visit_closure matches closure.header instead of body_exp[0].op_code for instruction 0 *)")
    L.append("Definition scan_uses_header : bool := %s." % b(header))
    L.append("(* a candidate slot found referenced has its stored value visited too *)")
    L.append("Definition scan_follows_shadowed : bool := %s." % b(follow))
    L.append("(* closed.rs recycle: take_marks clears the mark bits (the visited set of the walk) before visit() *)")
    L.append("Definition scan_clears_marks : bool := %s." % b(clears))
    L.append("(* engine.rs raw_program_to_executable: failed build restores a snapshot (true) / truncates with roll_back (false) *)")
    L.append("Definition rollback_snapshot : bool := %s." % b(snapshot))
    L.append("(* jit.rs jit_compile_lambda: op code written over instruction 0 *)")
    L.append("Definition jit_entry_op : opcode := %s." % coq_name(jit_op))
    L.append("(* map.rs SymbolMap::new / FreeList::increment_generation *)")
    L.append("Definition initial_threshold : nat := %d." % consts["threshold"])
    L.append("Definition threshold_multiplier : nat := %d." % consts["multiplier"])
    L.append("Definition initial_epoch : nat := %d." % consts["epoch"])
    L.append("Definition epoch_reset_at : nat := %d." % consts["epoch_reset_at"])
    L.append("Definition threshold_reset : nat := %d." % consts["threshold_reset"])
    L.append("Definition epoch_reset : nat := %d." % consts["epoch_reset"])
    L.append("")
    facts = {"opcodes": len(ops), "define_ops": define_ops, "interned_ops": interned, "scanned_ops": scanned,
             "scan_uses_header": header, "scan_follows_shadowed": follow, "scan_clears_marks": clears,
             "rollback_snapshot": snapshot,
             "jit_entry_op": jit_op, "constants": consts}
    return "\n".join(L), facts


# =====================================================================================================
# Histories: a small language of top-level units rendered three ways (Steel source, Coq term, oracle)
# =====================================================================================================
#
# unit  = {"x": bool, "forms": [form]}           x: the unit is rejected before the build (expander error)
# form  = ["def", name, expr] | ["expr", expr]
# expr  = ["const", n] | ["glob", name] | ["lam", arity, [item], cap_expr|None, hc?] | ["pair", a, b] | ["car", e]
#       | ["cdr", e] | ["call", fexpr, arg, thunk?] | ["set", name, expr] | ["fail"] | ["list", [expr]]
#       | ["box", e] | ["vec", e] | ["struct", e]            holders: (box e) (vector e) (c06holder e)
#       | ["unbox", e] | ["vref", e] | ["sref", e]           (unbox e) (vector-ref e 0) (c06holder-f e)
#       | ["setcell", vec?, cell_expr, e]                    (set-box! c e) / (vector-set! c 0 e), yields 0
#         hc: the captured variable is assigned in the body, so it is heap allocated and the closure captures the cell
# item  = ["read", name] | ["set", name, imm] | ["call", name, imm, thunk?] | ["cap", imm, path?] | ["pad", OP, n]
#         path: accessors ("unbox" | "vref" | "sref") leading from the captured value to the procedure it holds
#         (imm: int or None = the closure's argument; thunks only have int operands)
# Every function body is (list item ...), so a call yields the list of what its items yielded.

import json
import os

PRELUDE = "(define (c06-use c v) (if (procedure? c) (c v) c))\n;;;;\n(struct c06holder (f))"
EXPAND_FAIL_FORM = "(if)"


def steel_item(it):
    k = it[0]
    if k == "read":
        return it[1]
    if k == "set":
        return "(set! %s %s)" % (it[1], "v" if it[2] is None else it[2])
    if k == "call":
        return "(%s)" % it[1] if it[3] else "(%s %s)" % (it[1], "v" if it[2] is None else it[2])
    if k == "cap":
        a = "v" if it[1] is None else it[1]
        path = it[2] if len(it) > 2 else None
        if not path:
            return "(c06-use c %s)" % a
        return "(%s %s)" % (steel_access(path, "c"), a)
    return None


ACCESSOR = {"unbox": "(unbox %s)", "vref": "(vector-ref %s 0)", "sref": "(c06holder-f %s)"}
HOLDER_ACCESS = {"box": "unbox", "vec": "vref", "struct": "sref"}


def steel_access(path, base):
    for a in path:
        base = ACCESSOR[a] % base
    return base


def steel_expr(e):
    k = e[0]
    if k == "const":
        return str(e[1])
    if k == "glob":
        return e[1]
    if k == "lam":
        items = " ".join(x for x in (steel_item(i) for i in e[2]) if x is not None)
        hc = len(e) > 4 and e[4]
        lam = "(lambda (%s) %s(list %s))" % ("v" if e[1] == 1 else "", "(set! c c) " if hc else "", items)
        if e[3] is not None:
            return "(let ((c %s)) %s)" % (steel_expr(e[3]), lam)
        return lam
    if k == "pair":
        return "(cons %s %s)" % (steel_expr(e[1]), steel_expr(e[2]))
    if k == "list":
        return "(list %s)" % " ".join(steel_expr(x) for x in e[1])
    if k == "car":
        return "(car %s)" % steel_expr(e[1])
    if k == "cdr":
        return "(cdr %s)" % steel_expr(e[1])
    if k == "call":
        return "(%s)" % steel_expr(e[1]) if e[3] else "(%s %d)" % (steel_expr(e[1]), e[2])
    if k == "set":
        return "(set! %s %s)" % (e[1], steel_expr(e[2]))
    if k == "fail":
        return '(error "c06")'
    if k == "box":
        return "(box %s)" % steel_expr(e[1])
    if k == "vec":
        return "(vector %s)" % steel_expr(e[1])
    if k == "struct":
        return "(c06holder %s)" % steel_expr(e[1])
    if k in ACCESSOR:
        return ACCESSOR[k] % steel_expr(e[1])
    if k == "setcell":
        return ("(begin (vector-set! %s 0 %s) 0)" if e[1] else "(begin (set-box! %s %s) 0)") % (steel_expr(e[2]), steel_expr(e[3]))
    raise ValueError(e)


def steel_unit(u):
    fs = []
    for f in u["forms"]:
        if f[0] == "def":
            fs.append("(define %s %s)" % (f[1], steel_expr(f[2])))
        else:
            fs.append(steel_expr(f[1]))
    if u.get("x"):
        fs.append(EXPAND_FAIL_FORM)
    return "\n".join(fs)


class Names:
    def __init__(self):
        self.ix = {}

    def __call__(self, n):
        if n not in self.ix:
            self.ix[n] = len(self.ix)
        return cn(self.ix[n])


def cn(k):
    """a nat literal; large ones are written in binary (unary literals dominate coqc's elaboration time)"""
    return str(k) if k < 8 else "(nn %d%%N)" % k


def coq_opt(x):
    return "None" if x is None else "(Some %s)" % cn(x)


def coq_item(it, nm):
    k = it[0]
    if k == "read":
        return "SG Op_PUSH %s None" % nm(it[1])
    if k == "set":
        return "SG Op_SET %s %s" % (nm(it[1]), coq_opt(it[2]))
    if k == "call":
        return "SG Op_CALLGLOBAL %s %s" % (nm(it[1]), coq_opt(it[2]))
    if k == "cap":
        return "SL Op_READCAPTURED 0 %s" % coq_opt(it[1])
    if k == "pad":
        return "SL Op_%s %s None" % (it[1], cn(it[2]))
    raise ValueError(it)


def coq_expr(e, nm, jit):
    k = e[0]
    if k == "const":
        return "EConst %s" % cn(e[1])
    if k == "glob":
        return "EGlobal %s" % nm(e[1])
    if k == "lam":
        cap = "EConst 0" if e[3] is None else coq_expr(e[3], nm, jit)
        hc = len(e) > 4 and e[4]
        return "ELam %s %s [%s] (%s)" % ("true" if jit else "false", "true" if hc else "false",
                                         "; ".join(coq_item(i, nm) for i in e[2]), cap)
    if k == "pair":
        return "EPair (%s) (%s)" % (coq_expr(e[1], nm, jit), coq_expr(e[2], nm, jit))
    if k == "list":
        t = "ENil"
        for x in reversed(e[1]):
            t = "EPair (%s) (%s)" % (coq_expr(x, nm, jit), t)
        return t
    if k == "car":
        return "ECar (%s)" % coq_expr(e[1], nm, jit)
    if k == "cdr":
        return "ECdr (%s)" % coq_expr(e[1], nm, jit)
    if k == "call":
        return "ECall (%s) %s" % (coq_expr(e[1], nm, jit), cn(e[2]))
    if k == "set":
        return "ESet %s (%s)" % (nm(e[1]), coq_expr(e[2], nm, jit))
    if k == "fail":
        return "EFail"
    if k == "box":
        return "EBox false (%s)" % coq_expr(e[1], nm, jit)
    if k == "vec":
        return "EBox true (%s)" % coq_expr(e[1], nm, jit)
    if k == "struct":
        return "EPair (%s) ENil" % coq_expr(e[1], nm, jit)
    if k == "unbox":
        return "EUnbox (%s)" % coq_expr(e[1], nm, jit)
    if k == "vref":
        return "ECar (EUnbox (%s))" % coq_expr(e[1], nm, jit)
    if k == "sref":
        return "ECar (%s)" % coq_expr(e[1], nm, jit)
    if k == "setcell":
        return "ESetCell %s (%s) (%s)" % ("true" if e[1] else "false", coq_expr(e[2], nm, jit), coq_expr(e[3], nm, jit))
    raise ValueError(e)


def coq_history(h, jit):
    nm = Names()
    us = []
    for u in h:
        fs = []
        for f in u["forms"]:
            if f[0] == "def":
                fs.append("FDefine %s (%s)" % (nm(f[1]), coq_expr(f[2], nm, jit)))
            else:
                fs.append("FExpr (%s)" % coq_expr(f[1], nm, jit))
        us.append("mkU %s [%s]" % ("true" if u.get("x") else "false", "; ".join(fs)))
    return "[" + ";\n ".join(us) + "]"


# ----------------------------------------------------------------------------------------------------
# The oracle: environment-of-bindings semantics.  No slots, no free list: every define creates a NEW
# binding; code refers to the bindings that its unit's environment gave it when it was compiled; set!
# mutates the binding.  (The property statement made executable.)
# ----------------------------------------------------------------------------------------------------

class Binding:
    __slots__ = ("id", "val", "unit", "late_set")

    def __init__(self, i, unit):
        self.id = i
        self.val = UNASSIGNED
        self.unit = unit
        self.late_set = False


class _Tag:
    def __init__(self, s):
        self.s = s

    def __repr__(self):
        return self.s


UNASSIGNED = _Tag("unassigned")
VOID = _Tag("#<void>")


class Clo:
    __slots__ = ("arity", "items", "cap", "unit")


class Cell:
    """a heap cell: box, one-element mutable vector (val = (x, ())), or an assigned captured variable"""
    __slots__ = ("val",)

    def __init__(self, v):
        self.val = v


def dig(v):
    """look through holders: cell -> contents, one-field vector / struct -> the field"""
    while True:
        if isinstance(v, Cell):
            v = v.val
        elif isinstance(v, tuple) and v != ():
            v = v[0]
        else:
            return v


class RunError(Exception):
    pass


class Unassigned(Exception):
    """A binding was read before its define ran: outside the envelope (engine: error or void)."""


def proper(v):
    while isinstance(v, tuple) and v != ():
        v = v[1]
    return v == ()


def render_val(v):
    if isinstance(v, int):
        return "I%d" % v
    if v is VOID:
        return "#<void>"
    if isinstance(v, Clo):
        return "#<procedure>"
    if isinstance(v, Cell):
        return "#<cell>"
    if v == ():
        return "()"
    if proper(v):
        out = []
        while v != ():
            out.append(render_val(v[0]))
            v = v[1]
        return "(" + " ".join(out) + ")"
    return "(" + render_val(v[0]) + " . " + render_val(v[1]) + ")"


class Oracle:
    def __init__(self):
        self.env = {}
        self.nb = 0
        self.unit_no = 0
        self.taint = set()
        self.last_defs = {}

    # ---- compile
    def _res_item(self, it, env):
        k = it[0]
        if k in ("read", "set", "call"):
            if it[1] not in env:
                raise KeyError(it[1])
            return (k, env[it[1]], it[2] if k != "read" else None)
        if k == "cap":
            return ("cap", None, it[1])
        return ("pad", None, None)

    def _res_expr(self, e, env, defs, passed):
        k = e[0]
        if k in ("const", "fail"):
            return e
        if k == "glob":
            n = e[1]
            if (n in defs and n not in passed) or n not in env:
                raise KeyError(n)
            return ("globb", env[n])
        if k == "lam":
            c = Clo()
            c.arity = e[1]
            c.items = [self._res_item(i, env) for i in e[2]]
            c.unit = self.unit_no
            cap = None if e[3] is None else self._res_expr(e[3], env, defs, passed)
            return ("lamr", c, cap, len(e) > 4 and e[4])
        if k in ("box", "vec", "struct", "unbox", "vref", "sref"):
            return (k, self._res_expr(e[1], env, defs, passed))
        if k == "setcell":
            return ("setcell", e[1], self._res_expr(e[2], env, defs, passed), self._res_expr(e[3], env, defs, passed))
        if k == "pair":
            return ("pair", self._res_expr(e[1], env, defs, passed), self._res_expr(e[2], env, defs, passed))
        if k == "list":
            return ("list", [self._res_expr(x, env, defs, passed) for x in e[1]])
        if k in ("car", "cdr"):
            return (k, self._res_expr(e[1], env, defs, passed))
        if k == "call":
            return ("call", self._res_expr(e[1], env, defs, passed), e[2])
        if k == "set":
            n = e[1]
            if (n in defs and n not in passed) or n not in env:
                raise KeyError(n)
            return ("setb", env[n], self._res_expr(e[2], env, defs, passed))
        raise ValueError(e)

    # ---- run
    def call(self, f, arg, depth=0):
        if not isinstance(f, Clo):
            raise RunError("not a procedure")
        if depth > 200:
            raise Unassigned()          # endless recursion: outside the envelope
        out = []
        for k, b, imm in f.items:
            a = arg if imm is None else imm
            if k == "pad":
                continue
            if k == "cap":
                d = dig(f.cap)
                out.append(self.call(d, a, depth + 1) if isinstance(d, Clo) else d)
                continue
            if b.val is UNASSIGNED:
                raise Unassigned()
            if k in ("read", "call") and b.unit == f.unit and b.late_set:
                self.taint.add("inline")
            if k == "read":
                out.append(b.val)
            elif k == "set":
                out.append(b.val)
                b.val = a
                if f.unit > b.unit:
                    b.late_set = True
            else:
                out.append(self.call(b.val, a, depth + 1))
        r = ()
        for v in reversed(out):
            r = (v, r)
        return r

    def eval(self, e):
        k = e[0]
        if k == "const":
            return e[1]
        if k == "fail":
            raise RunError("error")
        if k == "globb":
            if e[1].val is UNASSIGNED:
                raise Unassigned()
            return e[1].val
        if k == "lamr":
            proto = e[1]
            c = Clo()
            c.arity, c.items, c.unit = proto.arity, proto.items, proto.unit
            c.cap = None if e[2] is None else self.eval(e[2])
            if e[3]:
                c.cap = Cell(c.cap if c.cap is not None else 0)
            return c
        if k == "box":
            return Cell(self.eval(e[1]))
        if k == "vec":
            return Cell((self.eval(e[1]), ()))
        if k == "struct":
            return (self.eval(e[1]), ())
        if k == "unbox":
            v = self.eval(e[1])
            if not isinstance(v, Cell):
                raise RunError("unbox")
            return v.val
        if k == "vref":
            v = self.eval(e[1])
            if not (isinstance(v, Cell) and isinstance(v.val, tuple) and v.val != ()):
                raise RunError("vector-ref")
            return v.val[0]
        if k == "sref":
            v = self.eval(e[1])
            if not (isinstance(v, tuple) and v != ()):
                raise RunError("struct-ref")
            return v[0]
        if k == "setcell":
            c = self.eval(e[2])
            if not isinstance(c, Cell):
                raise RunError("set-cell")
            v = self.eval(e[3])
            c.val = (v, ()) if e[1] else v
            return 0
        if k == "pair":
            a = self.eval(e[1])
            return (a, self.eval(e[2]))
        if k == "list":
            vs = [self.eval(x) for x in e[1]]
            r = ()
            for v in reversed(vs):
                r = (v, r)
            return r
        if k in ("car", "cdr"):
            v = self.eval(e[1])
            if not (isinstance(v, tuple) and v != ()):
                raise RunError("car/cdr")
            return v[0] if k == "car" else v[1]
        if k == "call":
            f = self.eval(e[1])
            return self.call(f, e[2])
        if k == "setb":
            v = self.eval(e[2])
            b = e[1]
            if b.val is UNASSIGNED:
                raise Unassigned()
            old = b.val
            b.val = v
            if self.unit_no > b.unit:
                b.late_set = True
            return old
        raise ValueError(e)

    def run_unit(self, u):
        """-> ("OK v ..." | "ERR" | "UNASSIGNED", taints)"""
        self.unit_no += 1
        self.taint = set()
        self.last_defs = {}
        if u.get("x"):
            return "ERR", set()
        env = dict(self.env)
        defs = [f[1] for f in u["forms"] if f[0] == "def"]
        binds = []
        nb = self.nb
        for f in u["forms"]:
            if f[0] == "def":
                b = Binding(nb, self.unit_no)
                nb += 1
                env[f[1]] = b
                binds.append(b)
            else:
                binds.append(None)
        passed = set()
        code = []
        try:
            for f, b in zip(u["forms"], binds):
                if f[0] == "def":
                    code.append((b, self._res_expr(f[2], env, defs, passed)))
                    passed.add(f[1])
                else:
                    code.append((None, self._res_expr(f[1], env, defs, passed)))
        except KeyError:
            return "ERR", set()          # nothing ran, nothing changed
        self.env = env
        self.nb = nb
        self.last_defs = {f[1]: b for f, b in zip(u["forms"], binds) if b is not None}
        vals = []
        try:
            for b, e in code:
                v = self.eval(e)
                if b is not None:
                    b.val = v
                    vals.append(VOID)
                else:
                    vals.append(v)
        except RunError:
            return "ERR", set(self.taint)
        except Unassigned:
            return "UNASSIGNED", set(self.taint)
        return ("OK " + " ".join(render_val(v) for v in vals)), set(self.taint)


def oracle_run(history):
    o = Oracle()
    return [o.run_unit(u) for u in history]


# ----------------------------------------------------------------------------------------------------
# Generator (drives an Oracle incrementally so that later units can refer to what exists)
# ----------------------------------------------------------------------------------------------------

def names_depth0(e):
    """global names an expression references outside lambda bodies (captured expressions included)"""
    k = e[0]
    if k == "glob":
        return {e[1]}
    if k == "lam":
        return names_depth0(e[3]) if e[3] is not None else set()
    if k == "pair":
        return names_depth0(e[1]) | names_depth0(e[2])
    if k == "list":
        out = set()
        for x in e[1]:
            out |= names_depth0(x)
        return out
    if k in ("car", "cdr", "call", "box", "vec", "struct", "unbox", "vref", "sref"):
        return names_depth0(e[1])
    if k == "set":
        return {e[1]} | names_depth0(e[2])
    if k == "setcell":
        return names_depth0(e[2]) | names_depth0(e[3])
    return set()


def names_any(e):
    """(all global names an expression references at any depth, those it calls)"""
    k = e[0]
    refs, calls = set(), set()
    if k == "glob":
        refs.add(e[1])
    elif k == "lam":
        for it in e[2]:
            if it[0] in ("read", "set", "call"):
                refs.add(it[1])
                if it[0] == "call":
                    calls.add(it[1])
        if e[3] is not None:
            r, c = names_any(e[3])
            refs |= r
            calls |= c
    elif k == "list":
        for x in e[1]:
            r, c = names_any(x)
            refs |= r
            calls |= c
    elif k == "call":
        r, c = names_any(e[1])
        refs |= r
        calls |= c
        if e[1][0] == "glob":
            calls.add(e[1][1])
    elif k == "set":
        refs.add(e[1])
        r, c = names_any(e[2])
        refs |= r
        calls |= c
    elif k == "setcell":
        for x in (e[2], e[3]):
            r, c = names_any(x)
            refs |= r
            calls |= c
    elif k == "pair":
        for x in (e[1], e[2]):
            r, c = names_any(x)
            refs |= r
            calls |= c
    elif k in ("car", "cdr", "box", "vec", "struct", "unbox", "vref", "sref"):
        return names_any(e[1])
    return refs, calls


def unit_in_envelope(u):
    """Generator envelope, checked statically (the shrinker must not leave it): a name is not defined by a unit after
    an earlier form of that unit referred to it -- except a variable (kind x / j) that was only read or assigned
    inside closure bodies; the engine rejects or constant-folds the other shapes (outside this property)."""
    refs, calls, refs0 = set(), set(), set()
    seen = set()
    for f in u["forms"]:
        e = f[2] if f[0] == "def" else f[1]
        if f[0] == "def":
            n = f[1]
            if n in seen:
                return False
            seen.add(n)
            selfref = f[2][0] == "pair" and f[2][1] == ["glob", n]      # the deliberate failing shape
            if not selfref and n in refs and (n[0] not in "xj" or n in calls or n in refs0):
                return False
        r, c = names_any(e)
        refs |= r
        calls |= c
        refs0 |= names_depth0(e)
    return True


MAXLEVEL = 5
POOLS = {"x": 12, "f": 10, "t": 6, "p": 4, "j": 8, "b": 8}     # vars, unary functions, thunks, pairs, junk vars, holders
MUTABLE = ("box", "vec")


class Gen:
    def __init__(self, rng, n_units, profile):
        self.rng = rng
        self.n = n_units
        self.profile = profile
        self.o = Oracle()
        self.h = []
        self.expect = []
        self.level = {}           # binding id -> level of the functions stored in it
        self.hpath = {}           # binding id of a holder -> its shape (holder kinds, outermost first)
        self.unit_paths = {}      # holder names defined by the unit under construction -> shape
        self.fresh = 0
        self.undef = 0
        self.dead = False         # oracle left the envelope (unassigned read)
        self.stats = {"define": 0, "redefine": 0, "set_top": 0, "fail_expand": 0, "fail_freeid": 0,
                      "fail_selfref": 0, "fail_runtime": 0, "probe": 0, "same_unit_ref": 0, "capture": 0,
                      "first_instr_global": 0, "setter": 0, "units": 0, "holder_define": 0, "holder_call": 0,
                      "holder_assign": 0, "holder_capture": 0, "heap_captured_var": 0, "holder_literal_closure": 0}

    # ---- helpers over the oracle's current environment
    def assigned(self, kind, env=None):
        env = self.o.env if env is None else env
        return sorted(n for n, b in env.items() if n[0] == kind and b.val is not UNASSIGNED)

    def pick_name(self, kind, prefer_existing):
        pool = POOLS[kind]
        ex = [n for n in self.o.env if n[0] == kind]
        if ex and self.rng.random() < prefer_existing:
            return self.rng.choice(sorted(ex))
        if kind == "j" or self.rng.random() < 0.5:
            return "%s%d" % (kind, self.rng.randrange(pool))
        self.fresh += 1
        return "%s%d_%d" % (kind, pool, self.fresh)        # a brand-new name (takes a recycled slot if any)

    def lvl(self, name, local):
        if name in local:
            return local[name][1]
        return self.level.get(self.o.env[name].id, 0)

    def holders(self, local=()):
        """assigned holder names (not redefined by the unit under construction) -> (shape, level)"""
        out = {}
        for n in self.assigned("b"):
            b = self.o.env[n]
            if n not in local and b.id in self.hpath:
                out[n] = (self.hpath[b.id], self.level.get(b.id, 0))
        return out

    @staticmethod
    def access(path, base):
        for k in path:
            base = [HOLDER_ACCESS[k], base]
        return base

    @staticmethod
    def wrap(path, leaf):
        for k in reversed(path):
            leaf = [k, leaf]
        return leaf

    def gen_lambda(self, arity, local, maxlevel, force_first_global=False, allow_cap=True, defining=None):
        """local: names defined earlier in the unit under construction -> (kind, level).
        Returns (expr, level) with level <= maxlevel, or None."""
        rng = self.rng
        if local and rng.random() < 0.8:
            local_ = {}
        else:
            local_ = local
        # a name redefined earlier in this unit resolves to the new binding: never offer it as an "old" name
        old_ok = lambda n: n not in local and n != defining      # no self reference (engine: BadSyntax / endless recursion)
        vars_ = [n for n in self.assigned("x") + self.assigned("j") if old_ok(n)] + [n for n, (k, _) in local_.items() if k in "xj"]
        funs = [(n, self.lvl(n, local)) for n in [n for n in self.assigned("f") if old_ok(n)] + [n for n, (k, _) in local_.items() if k == "f"]]
        thks = [(n, self.lvl(n, local)) for n in [n for n in self.assigned("t") if old_ok(n)] + [n for n, (k, _) in local_.items() if k == "t"]]
        funs = [(n, l) for n, l in funs if l < maxlevel]
        thks = [(n, l) for n, l in thks if l < maxlevel]
        items = []
        lev = 0
        n_items = rng.choice([0, 1, 1, 2, 2, 3, 4])
        calls = 0
        for j in range(n_items):
            r = rng.random()
            imm = rng.randrange(1000) if (arity == 0 or rng.random() < 0.3) else None
            if r < 0.35 and vars_:
                items.append(["read", rng.choice(vars_)])
            elif r < 0.55 and vars_:
                items.append(["set", rng.choice(vars_), imm])
                self.stats["setter"] += 1
            elif r < 0.8 and (funs or thks) and calls < 2:
                cands = [(n, l, False) for n, l in funs] + [(n, l, True) for n, l in thks]
                n, l, th = rng.choice(cands)
                items.append(["call", n, None if th else imm, th])
                if th:
                    items[-1][2] = None
                lev = max(lev, l + 1)
                calls += 1
            elif r < 0.9:
                items.append(["pad", rng.choice(["PUSHCONST", "READLOCAL", "PASS"]), rng.randrange(0, 400)])
        if force_first_global and (vars_ or thks):
            if thks and rng.random() < 0.6:
                n, l = rng.choice(thks)
                items.insert(0, ["call", n, None, True])
                lev = max(lev, l + 1)
            elif vars_:
                items.insert(0, ["read", rng.choice(vars_)])
        cap = None
        hc = False
        hold = {n: pl for n, pl in self.holders(local).items() if pl[1] < maxlevel and n != defining}
        if allow_cap and hold and rng.random() < 0.10:
            n = rng.choice(sorted(hold))
            path, l = hold[n]
            cap = ["glob", n]
            lev = max(lev, l + 1)
            items.append(["cap", rng.randrange(1000) if (arity == 0 or rng.random() < 0.3) else None,
                          [HOLDER_ACCESS[k] for k in path]])
            hc = rng.random() < 0.5
            self.stats["holder_capture"] += 1
        elif allow_cap and rng.random() < 0.12:
            hc = rng.random() < 0.4
            if funs and rng.random() < 0.6:
                n, l = rng.choice(funs)
                if n not in local:
                    cap = ["glob", n]
                    lev = max(lev, l + 1)
            elif vars_:
                n = rng.choice(vars_)
                if n not in local:
                    cap = ["glob", n]
            if cap is not None:
                items.append(["cap", rng.randrange(1000) if (arity == 0 or rng.random() < 0.3) else None])
                self.stats["capture"] += 1
        if lev > maxlevel:
            return None
        if items and items[0][0] in ("read", "call") and (items[0][0] == "read" or items[0][3]):
            self.stats["first_instr_global"] += 1
        if any(i[0] in ("read", "set", "call") and i[1] in local for i in items):
            self.stats["same_unit_ref"] += 1
        if cap is None:
            hc = False
        if hc:
            self.stats["heap_captured_var"] += 1
        return ["lam", arity, items, cap, hc], lev

    def gen_value_expr(self, kind, local, defining=None):
        rng = self.rng
        if kind in "xj":
            return ["const", rng.randrange(1000)], 0
        if kind == "p":
            fs = [n for n in self.assigned("f") if n not in local and n != defining]
            a = ["glob", rng.choice(fs)] if fs and rng.random() < 0.8 else ["const", rng.randrange(1000)]
            return ["pair", a, ["const", rng.randrange(1000)]], 0
        if kind == "b":
            path = [rng.choice(["box", "box", "vec", "vec", "struct"]) for _ in range(rng.choice([1, 1, 2, 3]))]
            fs = [n for n in self.assigned("f") if n not in local and n != defining and self.lvl(n, local) < MAXLEVEL]
            lam = None
            if not fs or rng.random() < 0.4:
                lam = self.gen_lambda(1, local, MAXLEVEL - 1, allow_cap=False, defining=defining)
            if lam is not None:
                leaf, lev = lam           # a closure that only ever lives in the holder
                self.stats["holder_literal_closure"] += 1
            elif fs:
                n = rng.choice(fs)
                leaf, lev = ["glob", n], self.lvl(n, local)
            else:
                leaf, lev = ["lam", 1, [], None, False], 0
            self.unit_paths[defining] = path
            self.stats["holder_define"] += 1
            return self.wrap(path, leaf), lev
        arity = 1 if kind == "f" else 0
        for _ in range(5):
            r = self.gen_lambda(arity, local, MAXLEVEL, force_first_global=(rng.random() < 0.35), defining=defining)
            if r is not None:
                return r
        return ["lam", arity, [], None, False], 0

    def gen_top_expr(self, local=()):
        rng = self.rng
        r = rng.random()
        fs, ts, xs, ps = self.assigned("f"), self.assigned("t"), self.assigned("x") + self.assigned("j"), self.assigned("p")
        hold = self.holders(local)
        if hold and rng.random() < 0.2:
            n = rng.choice(sorted(hold))
            path, lv = hold[n]
            mut = [i for i, k in enumerate(path) if k in MUTABLE]
            if mut and rng.random() < 0.4:
                i = mut[-1]
                cands = [f for f in fs if self.level.get(self.o.env[f].id, 0) <= lv]
                lam = None if (cands and rng.random() < 0.5) else self.gen_lambda(1, {}, lv, allow_cap=False)
                leaf = lam[0] if lam is not None else (["glob", rng.choice(cands)] if cands else ["lam", 1, [], None, False])
                self.stats["holder_assign"] += 1
                return ["setcell", path[i] == "vec", self.access(path[:i], ["glob", n]), self.wrap(path[i + 1:], leaf)]
            self.stats["holder_call"] += 1
            return ["call", self.access(path, ["glob", n]), rng.randrange(1000), False]
        if r < 0.3 and fs:
            return ["call", ["glob", rng.choice(fs)], rng.randrange(1000), False]
        if r < 0.45 and ts:
            return ["call", ["glob", rng.choice(ts)], 0, True]
        if r < 0.6 and xs:
            return ["glob", rng.choice(xs)]
        ps = [n for n in ps if n not in local]
        if r < 0.7 and ps:
            p = rng.choice(ps)
            v = self.o.env[p].val
            if isinstance(v, tuple) and isinstance(v[0], Clo):
                return ["call", ["car", ["glob", p]], rng.randrange(1000), False]
            return ["cdr", ["glob", p]]
        if r < 0.85 and xs:
            self.stats["set_top"] += 1
            return ["set", rng.choice(xs), ["const", rng.randrange(1000)]]
        if r < 0.92 and (fs or ts):
            # assign a function binding a new function of the same kind (callees below the binding's level)
            n = rng.choice(fs + ts)
            lv = self.level.get(self.o.env[n].id, 0)
            lam = self.gen_lambda(1 if n[0] == "f" else 0, {}, lv, allow_cap=False, defining=n)
            if lam is not None:
                self.stats["set_top"] += 1
                return ["set", n, lam[0]]
        return ["const", rng.randrange(1000)]

    def probe_unit(self):
        es = []
        for n in self.assigned("f"):
            es.append(["call", ["glob", n], 7, False])
        for n in self.assigned("t"):
            es.append(["call", ["glob", n], 0, True])
        for n in self.assigned("p"):
            v = self.o.env[n].val
            if isinstance(v, tuple) and isinstance(v[0], Clo):
                es.append(["call", ["car", ["glob", n]], 5, False])
            es.append(["cdr", ["glob", n]])
        for n, (path, _) in sorted(self.holders().items()):
            es.append(["call", self.access(path, ["glob", n]), 6, False])
        for n in self.assigned("x") + self.assigned("j"):
            es.append(["glob", n])
        self.stats["probe"] += 1
        return {"forms": [["expr", ["list", es]]], "probe": True}

    def storm_unit(self):
        # pure shadowing pressure
        k = self.rng.choice([1, 1, 1, 2, 3])
        names = self.rng.sample(["j%d" % i for i in range(POOLS["j"])], k)
        return {"forms": [["def", n, ["const", self.rng.randrange(1000)]] for n in names]}

    def normal_unit(self):
        rng = self.rng
        forms = []
        local = {}
        self.unit_paths = {}
        used0 = set()      # names referenced outside lambda bodies so far in this unit
        used_any, used_call = set(), set()      # names referenced / called anywhere so far in this unit
        nforms = rng.choice([1, 1, 1, 2, 2, 3, 4])
        for _ in range(nforms):
            r = rng.random()
            if r < 0.7:
                kind = rng.choice("xxxfffttpjbb")
                name = self.pick_name(kind, 0.6)
                # a name already referenced at top level of this unit is not (re)defined later in it: the engine then
                # either rejects the unit or constant-propagates the later value backwards (outside this property)
                if name in local or name in used0:
                    continue
                # nor one that an earlier closure of this unit refers to (it would silently resolve to the new binding:
                # cycles; the engine also rejects an earlier call of a later non-lambda define) -- plain variables
                # that were only read or assigned are fine and exercise "all defines first, then references"
                if name in used_any and (kind not in "xj" or name in used_call):
                    continue
                e, lev = self.gen_value_expr(kind, local, defining=name)
                forms.append(["def", name, e])
                local[name] = (kind, lev)
                used0 |= names_depth0(e)
                r_, c_ = names_any(e)
                used_any |= r_
                used_call |= c_
                self.stats["redefine" if name in self.o.env else "define"] += 1
            else:
                e = self.gen_top_expr(local)
                forms.append(["expr", e])
                used0 |= names_depth0(e)
                r_, c_ = names_any(e)
                used_any |= r_
                used_call |= c_
        if not forms:
            forms.append(["expr", ["const", 1]])
        u = {"forms": forms}
        # failing shapes
        r = rng.random()
        if r < 0.04:
            u["x"] = True
            self.stats["fail_expand"] += 1
        elif r < 0.09:
            self.undef += 1
            forms.insert(rng.randrange(len(forms) + 1), ["expr", ["glob", "zz_undefined_%d" % self.undef]])
            self.stats["fail_freeid"] += 1
        elif r < 0.12:
            xs = self.assigned("x")
            if xs:
                n = rng.choice(xs)
                if n not in local:
                    forms.insert(rng.randrange(len(forms) + 1), ["def", n, ["pair", ["glob", n], ["const", 1]]])
                    self.stats["fail_selfref"] += 1
        elif r < 0.17:
            xs_ = [n for n in self.assigned("x") if n not in local]
            bad = rng.choice([["fail"], ["car", ["const", 5]]] + ([["call", ["glob", rng.choice(xs_)], 1, False]] if xs_ else []))
            # mostly at the end (so every define of the unit has run); sometimes in the middle
            pos = len(forms) if rng.random() < 0.8 else rng.randrange(len(forms) + 1)
            forms.insert(pos, ["expr", bad])
            self.stats["fail_runtime"] += 1
        return u, local

    def push(self, u, local=None):
        out, taint = self.o.run_unit(u)
        self.h.append(u)
        self.expect.append((out, sorted(taint)))
        self.stats["units"] += 1
        if out == "UNASSIGNED":
            self.dead = True
        if local:
            for n, b in self.o.last_defs.items():      # empty when the unit did not compile
                if n in local:
                    self.level[b.id] = local[n][1]
                    if n in self.unit_paths:
                        self.hpath[b.id] = self.unit_paths[n]
        # set! of a function binding keeps the binding's level (callees were chosen below it)

    def run(self):
        rng = self.rng
        storm_left = 0
        since_probe = 0
        probe_every = 6 if self.n <= 60 else (20 if self.n <= 250 else 45)
        while len(self.h) < self.n and not self.dead:
            if storm_left > 0:
                self.push(self.storm_unit())
                storm_left -= 1
            else:
                u, local = self.normal_unit()
                self.push(u, local)
                if self.profile != "short" and rng.random() < 0.03:
                    storm_left = rng.choice([10, 25, 40])
            since_probe += 1
            if since_probe >= probe_every and storm_left == 0 and not self.dead:
                self.push(self.probe_unit())
                since_probe = 0
        if not self.dead:
            self.push(self.probe_unit())
        return self.h, self.expect


# =====================================================================================================
# The check
# =====================================================================================================

COQ_HEADER = ("From Coq Require Import String List Arith Bool NArith.\nFrom SV Require Import gen.Gen_C06 c06.Model_C06.\n"
              "Import ListNotations.\nOpen Scope list_scope.\nDefinition nn (x : N) : nat := N.to_nat x.")
MODEL_FUEL = 60


def engine_str(res_list, i):
    if res_list is None:
        return "NORESULT"
    if len(res_list) == 1 and ("crash" in res_list[0] or "hang" in res_list[0]) and i >= 0:
        r = res_list[0]
        return "CRASH:%s" % r["crash"] if "crash" in r else "HANG"
    if i >= len(res_list):
        return "MISSING"
    r = res_list[i]
    if "ok" in r:
        return "OK " + " ".join(r["ok"])
    if "err" in r:
        return "ERR"
    if "panic" in r:
        return "PANIC:" + r["panic"][:200]
    return "?" + json.dumps(r)[:100]


def c06_inline_set(case, params):
    """Known-finding class (decidable over the failing input): the first unit on which the engine departs
    from the reference evaluation runs a closure that reads/calls a binding defined in the closure's own
    compilation unit after that binding was assigned by code of a later unit."""
    try:
        exp = oracle_run(case["history"])
        eng = case["engine"]
        for i, (out, taint) in enumerate(exp):
            if out == "UNASSIGNED":
                return False
            if i >= len(eng) or eng[i] != out:
                return "inline" in taint and i == case.get("index") and eng[i].startswith("OK")
        return False
    except Exception:
        return False


def first_mismatch(expect, got):
    """-> (index, tainted?) of the first unit whose outcome differs, None if none before the envelope exit."""
    for i, (out, taint) in enumerate(expect):
        if out == "UNASSIGNED":
            return None
        g = got[i] if i < len(got) else "MISSING"
        if g != out:
            return i, ("inline" in taint)
    return None


def run_engine(ck, histories, jit):
    cases = [[steel_unit(u) for u in h] for h in histories]
    env = {} if jit else {"STEEL_JIT": "false"}
    res = ck.eval_cases(cases, prelude=PRELUDE, batch=2, timeout_per_batch=240, env=env, fresh=True)
    out = []
    for h, r in zip(histories, res):
        out.append([engine_str(r, i) for i in range(len(h))])
    return out


def run_model(ck, histories, jit, cfg="cfg_now", trace=False):
    exprs = ["run_full %s %d (%s)" % (cfg, MODEL_FUEL, coq_history(h, jit)) for h in histories]
    # longest first so that the shards finish together
    order = sorted(range(len(exprs)), key=lambda i: -len(exprs[i]))
    shards = [[] for _ in range(min(16, max(1, len(exprs))))]
    for k, i in enumerate(order):
        shards[k % len(shards)].append(i)
    flat = [i for sh in shards for i in sh]
    per = max(len(sh) for sh in shards) if shards else 1
    # coq_eval shards consecutively in chunks of `shard`; pad shards to equal length with a trivial expression
    padded = []
    for sh in shards:
        padded += [exprs[i] for i in sh] + ['""%string'] * (per - len(sh))
    vals = ck.coq_eval(COQ_HEADER, padded, shard=per)
    outs = [None] * len(exprs)
    traces = [None] * len(exprs)
    for si, sh in enumerate(shards):
        for k, i in enumerate(sh):
            v = vals[si * per + k]
            o, t = v.split("@")
            outs[i] = o.split(";")
            traces[i] = t.split(";")
    return outs, (traces if trace else [])


def shrink(ck, h, jit, budget=30):
    """Greedy removal of units while an untainted engine/oracle mismatch remains."""
    def bad(hh):
        if not all(unit_in_envelope(u) for u in hh):
            return False
        exp = oracle_run(hh)
        got = run_engine(ck, [hh], jit)[0]
        m = first_mismatch(exp, got)
        return m is not None and not m[1]
    cur = list(h)
    n = 2
    runs = 0
    while len(cur) >= 2 and runs < budget:
        chunk = max(1, len(cur) // n)
        reduced = False
        for s in range(0, len(cur), chunk):
            cand = cur[:s] + cur[s + chunk:]
            runs += 1
            if cand and bad(cand):
                cur = cand
                n = max(n - 1, 2)
                reduced = True
                break
            if runs >= budget:
                break
        if not reduced:
            if chunk == 1:
                break
            n = min(len(cur), n * 2)
    return cur


def make_case(h, got, exp, i, jit):
    return {"history": h, "units": [steel_unit(u) for u in h], "index": i, "jit": jit,
            "engine": got[:i + 1], "oracle": [e[0] for e in exp[:i + 1]],
            "oracle_taint_at_index": exp[i][1] if i < len(exp) else []}


def compare(ck, histories, expects, tag, do_shrink=True):
    """Engine (both JIT settings) vs oracle, model vs oracle.  Returns coverage info."""
    info = {"compared": 0, "post_recycle_outputs": set(), "envelope_exits": 0, "known_inline": 0, "model_recycles": [],
            "shrunk": 0, "model_predicted": 0}
    model, traces = run_model(ck, histories, True, trace=True)
    model_nojit, _ = run_model(ck, histories, False)
    # where did the model recycle?  (threshold or epoch changes)
    first_recycle = []
    for tr in traces:
        fr = None
        n_rec = 0
        prev = None
        for i, t in enumerate(tr):
            key = t.split("/")[:2]
            if prev is not None and key != prev:
                n_rec += 1
                if fr is None:
                    fr = i
            prev = key
        first_recycle.append(fr)
        info["model_recycles"].append(n_rec)
    # where does the model of the code as it is now depart from the reference evaluation?
    model_bad = {}
    for hi, (h, exp) in enumerate(zip(histories, expects)):
        for mname, m in (("jit", model[hi]), ("nojit", model_nojit[hi])):
            mm = first_mismatch(exp, m)
            if mm is not None and hi not in model_bad:
                model_bad[hi] = (mname, mm[0], m[mm[0]] if mm[0] < len(m) else "MISSING")
    engine_bad = set()
    for jit in (True, False):
        got_all = run_engine(ck, histories, jit)
        for hi, (h, exp, got) in enumerate(zip(histories, expects, got_all)):
            m = first_mismatch(exp, got)
            upto = len(exp)
            for i, (out, taint) in enumerate(exp):
                if out == "UNASSIGNED":
                    info["envelope_exits"] += 1
                    upto = i
                    break
            if m is not None:
                upto = min(upto, m[0])
            for i in range(upto):
                info["compared"] += 1
                ck.cov["evaluations"] += 1
                if first_recycle[hi] is not None and i > first_recycle[hi] and any(f[0] == "expr" for f in h[i]["forms"]):
                    info["post_recycle_outputs"].add(exp[i][0])
            if m is None:
                continue
            i, tainted = m
            engine_bad.add(hi)
            case = make_case(h, got, exp, i, jit)
            what = ("history of %d units (%s, JIT %s): unit %d `%s` evaluated to %s; the reference evaluation (every define creates a new "
                    "binding, code keeps the bindings it was compiled against) gives %s"
                    % (len(h), tag, "on" if jit else "off", i, steel_unit(h[i])[:160].replace("\n", " "), got[i][:200] if i < len(got) else "MISSING", exp[i][0][:200]))
            fid = ck.classify(case)
            if fid:
                info["known_inline"] += 1
                ck.failing_input(what, case, tag="hist")
                continue
            if do_shrink and len(h) > 3 and info["shrunk"] < 3:
                info["shrunk"] += 1
                try:
                    small = shrink(ck, h[:i + 1], jit)
                    e2 = oracle_run(small)
                    g2 = run_engine(ck, [small], jit)[0]
                    m2 = first_mismatch(e2, g2)
                    if m2 is not None and not m2[1]:
                        case = make_case(small, g2, e2, m2[0], jit)
                        what += " [shrunk to %d units]" % len(small)
                except Exception as ex:      # keep the unshrunk case
                    ck.log("shrink failed: %s" % ex)
            ck.failing_input(what, case, tag="hist")
    # a departure of the model where the engine is right means the model no longer mirrors the code; where the engine
    # departs too, the model *predicted* the failure and the engine's failing input above is the verdict
    for hi, (mname, i, g) in sorted(model_bad.items()):
        if hi in engine_bad:
            info["model_predicted"] += 1
            continue
        h = histories[hi]
        ck.violation("model/engine correspondence broken (%s, closures %s): unit %d `%s`: the model of the code evaluates it to %s, the engine "
                     "and the reference evaluation to %s" % (tag, mname, i, steel_unit(h[i])[:200], g[:300], expects[hi][i][0][:300]),
                     {"correspondence": "c06.Model_C06.run_history vs engine", "history": h, "index": i,
                      "model": g, "oracle": expects[hi][i][0]}, no_input=True, tag="corr")
    return info


# ----------------------------------------------------------------------------------------------------
# Corpus (confirmed defects, now repaired in /repo -- they run first on every run) and synthesised
# histories for a broken scan obligation
# ----------------------------------------------------------------------------------------------------

def U(*forms):
    return {"forms": [list(f) for f in forms]}


def corpus_histories():
    out = {}
    # F2: the only reference to a shadowed binding is a set!  (recycler did not scan OpCode::SET)
    h = [U(["def", "x0", ["const", 1]], ["def", "f0", ["lam", 1, [["set", "x0", None]], None]]),
         U(["def", "x0", ["const", 2]])]
    h += [U(["def", "j0", ["const", i]]) for i in range(120)]
    h += [U(["def", "x%d" % (100 + i), ["const", i]]) for i in range(150)]
    h += [U(["expr", ["call", ["glob", "f0"], 99, False]]), U(["expr", ["glob", "x0"]])]
    probe = ["list", [["glob", "x%d" % (100 + i)] for i in range(150)]]
    h += [U(["expr", probe]), U(["expr", ["call", ["glob", "f0"], 5, False]])]
    out["F2-set-not-scanned"] = h
    # F3: first instruction of an earlier thunk is the global call (JIT overwrote its op code)
    h = []
    for i in range(105):
        h += [U(["def", "t%da" % i, ["lam", 0, [], None]]),
              U(["def", "t%db" % i, ["lam", 0, [["call", "t%da" % i, None, True]], None]]),
              U(["def", "t%da" % i, ["lam", 0, [["pad", "PUSHCONST", 1]], None]])]
    h += [U(["def", "x%d" % (100 + i), ["const", i]]) for i in range(40)]
    h += [U(["expr", ["call", ["glob", "t0b"], 0, True]]), U(["expr", ["call", ["glob", "t50b"], 0, True]]),
          U(["expr", ["call", ["glob", "t104b"], 0, True]])]
    out["F3-jit-header"] = h
    # transitive: g -> old f -> old h; old f's slot is kept because g names it, but its closure was not visited
    h = [U(["def", "f0", ["lam", 1, [["pad", "PUSHCONST", 1]], None]]),
         U(["def", "f1", ["lam", 1, [["pad", "PUSHCONST", 1], ["call", "f0", None, False]], None]]),
         U(["def", "f2", ["lam", 1, [["pad", "PUSHCONST", 1], ["call", "f1", None, False]], None]]),
         U(["def", "f0", ["lam", 1, [["read", "f0"]], None]]) if False else U(["def", "f0", ["lam", 1, [], None]]),
         U(["def", "f1", ["lam", 1, [], None]])]
    h += [U(["def", "j0", ["const", i]]) for i in range(120)]
    h += [U(["expr", ["call", ["glob", "f2"], 3, False]])]
    h += [U(["def", "x%d" % (100 + i), ["const", i]]) for i in range(60)]
    h += [U(["expr", ["call", ["glob", "f2"], 3, False]])]
    out["transitive-shadowed-value"] = h
    # F4: failing unit that redefines an existing name (free identifier / reference before definition)
    out["F4-rollback-free-identifier"] = [
        U(["def", "x0", ["const", 5]]), U(["def", "f0", ["lam", 1, [["read", "x0"]], None]]),
        U(["def", "x0", ["const", 6]], ["expr", ["glob", "zz_undefined_0"]]),
        U(["expr", ["glob", "x0"]]), U(["expr", ["call", ["glob", "f0"], 1, False]]),
        U(["def", "x0", ["pair", ["glob", "x0"], ["const", 1]]]),
        U(["expr", ["glob", "x0"]]), U(["def", "x1", ["const", 8]]), U(["expr", ["pair", ["glob", "x0"], ["glob", "x1"]]])]
    # the same with recycled slots in play: failing units after a recycling round
    h = [U(["def", "x0", ["const", 5]]), U(["def", "f0", ["lam", 1, [["read", "x0"], ["set", "x0", None]], None]])]
    h += [U(["def", "j0", ["const", i]]) for i in range(110)]
    for k in range(12):
        h += [U(["def", "x0", ["const", 60 + k]], ["def", "x%d" % (20 + k), ["const", k]], ["expr", ["glob", "zz_undefined_%d" % k]]),
              U(["expr", ["pair", ["glob", "x0"], ["call", ["glob", "f0"], k, False]]])]
    h += [U(["def", "x%d" % (100 + i), ["const", i]]) for i in range(30)]
    h += [U(["expr", ["pair", ["glob", "x0"], ["call", ["glob", "f0"], 77, False]]])]
    out["F4-rollback-after-recycle"] = h
    # known finding (open): same-unit referrer is compiled against the constant / the inlined body
    out["inline-then-set"] = [
        U(["def", "x0", ["const", 6]], ["def", "f0", ["lam", 1, [["read", "x0"]], None]]),
        U(["expr", ["set", "x0", ["const", 7]]]), U(["expr", ["call", ["glob", "f0"], 1, False]])]
    return out


def holder_history(path=(), hc=False, second_round=True):
    """The referrer closure is reachable ONLY through mutable heap state: held in a holder of shape `path` that a
    global names, and/or captured through a heap-allocated (assigned) variable.  Chain: holder -> old f1 -> old f0
    -> old x0; then f1, f0, x0 are redefined, >100 shadowings, fresh defines take the freed slots, and the old
    closure is called through the holder."""
    path = list(path)
    h = [U(["def", "x0", ["const", 1]]),
         U(["def", "f0", ["lam", 1, [["read", "x0"], ["set", "x0", None]], None, False]]),
         U(["def", "f1", ["lam", 1, [["call", "f0", None, False]], None, False]])]
    held = Gen.wrap(path, ["glob", "f1"])
    if hc:
        h.append(U(["def", "f2", ["lam", 1, [["cap", None, [HOLDER_ACCESS[k] for k in path]]], held, True]]))
        probe = ["call", ["glob", "f2"], 7, False]
    else:
        h.append(U(["def", "b0", held]))
        probe = ["call", Gen.access(path, ["glob", "b0"]), 7, False]
    h += [U(["def", "f1", ["const", 11]]), U(["def", "f0", ["const", 12]]), U(["def", "x0", ["const", 13]])]
    h += [U(["def", "j0", ["const", i]]) for i in range(120)]
    h += [U(["expr", probe])]
    h += [U(["def", "x%d" % (100 + i), ["const", i]]) for i in range(150)]
    h += [U(["expr", probe]), U(["expr", ["list", [["glob", "x%d" % (100 + i)] for i in range(150)]]])]
    if second_round:
        h += [U(["def", "j0", ["const", i]]) for i in range(230)]
        h += [U(["def", "x%d" % (300 + i), ["const", i]]) for i in range(240)]
        h += [U(["expr", probe]), U(["expr", ["list", [["glob", "x%d" % (300 + i)] for i in range(240)]]]),
              U(["expr", ["list", [["glob", "x0"], ["glob", "f0"], ["glob", "f1"]]]])]
    return h


def holder_corpus():
    return {
        "heap-only-box": holder_history(["box"]),
        "heap-only-vector": holder_history(["vec"], second_round=False),
        "heap-only-struct": holder_history(["struct"], second_round=False),
        "heap-only-nested-vector-box-struct": holder_history(["vec", "box", "struct"], second_round=False),
        "heap-only-assigned-captured-variable": holder_history([], hc=True),
        "heap-only-captured-variable-holding-vector-box": holder_history(["vec", "box"], hc=True, second_round=False),
    }


def synth_sources(op, storm=None):
    """A history (Steel source units) whose only reference to a shadowed binding is an instruction with op code
    `op`, long enough for two recycling rounds; returns (units, {unit index: expected outcome})."""
    T = "c06tgt"
    R = "c06ref"
    storm1 = ["(define c06junk %d)" % i for i in range(130)]
    fresh1 = ["(define c06fresh%d %d)" % (i, i) for i in range(140)]
    storm2 = ["(define c06junk %d)" % i for i in range(230)]
    fresh2 = ["(define c06more%d %d)" % (i, 1000 + i) for i in range(240)]
    allfresh = "(list " + " ".join("c06fresh%d" % i for i in range(140)) + ")"
    allfresh_exp = "OK (" + " ".join("I%d" % i for i in range(140)) + ")"
    if op == "PUSH":
        pre = ["(define %s 1)" % T, "(define %s (lambda () %s))" % (R, T), "(define %s 2)" % T]
        probe, exp = "(%s)" % R, "OK I1"
    elif op == "SET":
        pre = ["(define %s 1)" % T, "(define %s (lambda (v) (set! %s v)))" % (R, T), "(define %s 2)" % T]
        probe, exp = "(begin (%s 1) %s)" % (R, allfresh), allfresh_exp
    elif op in ("CALLGLOBAL", "CALLGLOBALNOARITY"):
        pre = ["(define %s (lambda () 1))" % T, "(define %s (lambda () (+ 1 (%s))))" % (R, T), "(define %s (lambda () 5))" % T]
        if op == "CALLGLOBALNOARITY":
            pre = ["(define %s (lambda (a b c) (list a b c (list a b c) (list c b a))))\n(define %s (lambda (v) (car (%s v 2 3))))" % (T, R, T),
                   "(define %s (lambda () 5))" % T]
            probe, exp = "(%s 1)" % R, "OK I1"
        else:
            probe, exp = "(%s)" % R, "OK I2"
    elif op in ("CALLGLOBALTAIL", "CALLGLOBALTAILNOARITY"):
        pre = ["(define %s (lambda () 1))" % T, "(define %s (lambda () (%s)))" % (R, T), "(define %s (lambda () 5))" % T]
        if op == "CALLGLOBALTAILNOARITY":
            pre = ["(define %s (lambda (a b c) (list a b c (list a b c) (list c b a))))\n(define %s (lambda (v) (%s v 2 3)))" % (T, R, T),
                   "(define %s (lambda () 5))" % T]
            probe, exp = "(car (%s 1))" % R, "OK I1"
        else:
            probe, exp = "(%s)" % R, "OK I1"
    elif op == "CALLPRIMITIVE":
        pre = ["(define %s (lambda (v) (list v v)))" % R, "(define #%prim.list (lambda args 5))"]
        probe, exp = "(%s 3)" % R, "OK (I3 I3)"
    else:
        return None
    early = [] if op == "SET" else [probe]        # the SET probe reads the fresh globals
    units = pre + storm1 + early + fresh1 + [probe] + storm2 + [probe] + fresh2 + [probe]
    idx = [i for i, u in enumerate(units) if u == probe]
    return units, {i: exp for i in idx}


def closure_instance_sources(n=4):
    """Several live closures made from ONE lambda expression (a factory) capture different functions; each captured
    function is the only referrer of a shadowed binding.  After the redefinitions the old functions are reachable
    only through the captures of the instances: the recycler has to scan the captures of EVERY instance."""
    units = ["(define c06mk (lambda (f) (lambda () (f))))"]
    for j in range(1, n + 1):
        units += ["(define c06k%d %d)" % (j, 100 + j), "(define c06h%d (lambda () (list %d c06k%d)))" % (j, j, j),
                  "(define c06c%d (c06mk c06h%d))" % (j, j)]
    for j in range(1, n + 1):
        units += ["(define c06h%d 0)" % j, "(define c06k%d 0)" % j]
    probe = "(list " + " ".join("(c06c%d)" % j for j in range(1, n + 1)) + ")"
    exp = "OK (" + " ".join("(I%d I%d)" % (j, 100 + j) for j in range(1, n + 1)) + ")"
    storm1 = ["(define c06junk %d)" % i for i in range(130)]
    fresh1 = ["(define c06fresh%d %d)" % (i, i) for i in range(140)]
    storm2 = ["(define c06junk %d)" % i for i in range(230)]
    fresh2 = ["(define c06more%d %d)" % (i, 1000 + i) for i in range(240)]
    units = units + storm1 + [probe] + fresh1 + [probe] + storm2 + [probe] + fresh2 + [probe]
    return units, {i: exp for i, u in enumerate(units) if u == probe}


def run_sources(ck, cases, jit):
    env = {} if jit else {"STEEL_JIT": "false"}
    res = ck.eval_cases([c[0] for c in cases], prelude=PRELUDE, batch=1, timeout_per_batch=240, env=env, fresh=True)
    return [[engine_str(r, i) for i in range(len(c[0]))] for c, r in zip(cases, res)]


def check_sources(ck, named_cases, why):
    """named_cases: [(name, (units, {index: expected}))].  Returns number of failing inputs found."""
    found = 0
    for jit in (True, False):
        got = run_sources(ck, [c for _, c in named_cases], jit)
        for (name, (units, exp)), g in zip(named_cases, got):
            for i in sorted(exp):
                ck.cov["evaluations"] += 1
                if g[i] != exp[i]:
                    found += 1
                    case = {"units": units[:i + 1], "index": i, "jit": jit, "engine": g[:i + 1],
                            "oracle": [exp.get(k) for k in range(i + 1)], "synthesised_for": name}
                    ck.failing_input("%s: history whose only reference to a shadowed binding is a %s instruction (JIT %s): unit %d `%s` "
                                     "evaluated to %s, expected %s" % (why, name, "on" if jit else "off", i, units[i][:80], g[i][:200], exp[i][:200]),
                                     case, tag="synth")
                    break
    return found


def size_plan(ck):
    """[(profile, number of units)] for the random histories of this run."""
    if ck.tier == "quick":
        return [("short", ck.rng.randrange(5, 40)) for _ in range(28)] + \
               [("medium", ck.rng.randrange(120, 260)) for _ in range(10)] + \
               [("long", ck.rng.randrange(400, 800)) for _ in range(4)]
    return [("short", ck.rng.randrange(5, 60)) for _ in range(300)] + \
           [("medium", ck.rng.randrange(120, 300)) for _ in range(120)] + \
           [("long", ck.rng.randrange(350, 800)) for _ in range(60)]


def run(ck):
    ck.cov["trusted_base"] = [
        "Coq 8.16.1 kernel, coqc; vm_compute for model evaluation",
        "hand-written model coq/c06/Model_C06.v of compiler/map.rs, the two interner passes of compiler/compiler.rs, "
        "Engine::run_raw_program / raw_program_to_executable, GlobalSlotRecycler::{recycle,visit_closure,visit_heap_allocated,"
        "visit_mutable_vector} with MarkAndSweepContext::{mark_heap_reference,mark_heap_vector} and take_marks/restore_marks, "
        "jit_compile_lambda (entry op code overwrite), env.rs slot accessors",
        "translator in checks/c06.py (regex parsers over the named functions; a shape it cannot find is a broken tie)",
        "history renderers in checks/c06.py (history -> Steel source, history -> Coq term) and the correspondence harness "
        "(harness/src/bin/evalsrv.rs, canonical value rendering in harness/src/lib.rs)",
        "oracle: reference evaluation in checks/c06.py (every define creates a new binding; code keeps the bindings its unit "
        "resolved; set! mutates the binding) -- independent of slots, free list and recycler",
    ]
    ck.assumptions = [
        "run-time semantics of closures is abstracted to the global-touching instructions of (list item ...) bodies; local "
        "computation, the optimiser and native code generation are outside the model (C01/C02)",
        "heap cells (boxes, mutable vectors, assigned captured variables) are modelled as one kind of cell visited through "
        "the mark bits; an allocated cell is taken to carry its mark outside a collection (allocate sets it); structs are "
        "modelled as immutable one-field records",
        "references to globals held only by native frames or by other threads' stacks and module requires are not "
        "generated in this version",
        "reading a binding whose define has not run yet is outside the envelope (engine: error or void depending on the slot)",
    ]
    # long histories are deep terms / long strings for coqc: lift the stack soft limit for the child processes
    try:
        import resource
        soft, hard = resource.getrlimit(resource.RLIMIT_STACK)
        resource.setrlimit(resource.RLIMIT_STACK, (hard, hard))
    except Exception as ex:
        ck.log("could not raise the stack limit: %s" % ex)
    # ---- generated facts
    tie_error = None
    try:
        text, facts = generate()
        ck.translate("Gen_C06", text)
    except TieBroken as ex:
        # a translator no longer finds the shape it parses: the generated facts are stale, hence unproved; the search for
        # a failing input still runs, engine against the reference evaluation only (the model's configuration is unknown)
        tie_error = str(ex)
        ck.log("translator: %s" % tie_error)
        facts = {"interned_ops": ["PUSH", "SET", "CALLGLOBAL", "CALLGLOBALNOARITY", "CALLPRIMITIVE", "CALLGLOBALTAIL",
                                  "CALLGLOBALTAILNOARITY"], "scanned_ops": [], "stale": True}
    ck.cov["generated"] = facts
    missing = [o for o in facts["interned_ops"] if o not in facts["scanned_ops"]]
    proved = ck.proof_stage(["c06"], ["c06/Properties_C06"], "c06/Pins_C06.v", extra_obligations=1)
    if tie_error is None and proved:
        pass
    elif tie_error is not None:
        ck.cov["discharged"] = max(0, ck.cov["discharged"] - 1)      # the generated-facts obligation
        proved = False
    ck.log("proof stage: %s (%d obligations)" % ("ok" if proved else "BROKEN", ck.cov["obligations"]))
    ck.harness_build(["evalsrv"])

    # ---- corpus first
    corp = corpus_histories()
    corp.update(holder_corpus())
    cdir = os.path.join(os.path.dirname(os.path.dirname(os.path.abspath(__file__))), "corpus", "c06")
    for p in sorted(os.listdir(cdir)) if os.path.isdir(cdir) else []:
        if p.endswith(".json"):
            try:
                obj = json.load(open(os.path.join(cdir, p)))
                if "history" in obj:
                    corp.setdefault("corpus/" + p, obj["history"])
            except Exception as ex:
                raise TieBroken("corpus file %s unreadable: %s" % (p, ex))
    names = sorted(corp)
    hs = [corp[n] for n in names]
    exps = [oracle_run(h) for h in hs]
    model_ok = tie_error is None
    try:
        info0 = compare(ck, hs, exps, "corpus") if model_ok else compare_engine_only(ck, hs, exps, "corpus")
    except TieBroken as ex:
        # the model no longer compiles (a proof or generated fact broke): the engine-vs-oracle part must still run
        model_ok = False
        ck.log("model evaluation unavailable: %s" % str(ex)[:300])
        info0 = compare_engine_only(ck, hs, exps, "corpus")
    ck.log("corpus: %d histories compared" % len(hs))
    # ---- synthesised single-op histories (always run; they are the failing-input search for scan_covers_refs)
    synth = [(o, synth_sources(o)) for o in facts["interned_ops"]]
    synth = [(o, s) for o, s in synth if s is not None]
    pri = [x for x in synth if x[0] in missing] + [x for x in synth if x[0] not in missing]
    n_synth_fail = check_sources(ck, pri, "scan_covers_refs" if missing else "single-reference history")

    n_synth_fail += check_sources(ck, [("capture of a closure instance (several instances of one lambda)", closure_instance_sources())],
                                  "closure instances")
    ck.log("single-reference histories: %d failing" % n_synth_fail)
    # ---- random histories
    plan = size_plan(ck)
    hs, exps, stats = [], [], {}
    for profile, n in plan:
        g = Gen(ck.rng, n, profile)
        h, e = g.run()
        hs.append(h)
        exps.append(e)
        for k, v in g.stats.items():
            stats[k] = stats.get(k, 0) + v
    if model_ok:
        info = compare(ck, hs, exps, "generated")
    else:
        info = compare_engine_only(ck, hs, exps, "generated")
    ck.log("generated: %d histories, %d units compared" % (len(hs), info["compared"]))
    post = info["post_recycle_outputs"] | info0["post_recycle_outputs"]
    ck.cov["distinct_nontrivial"] = len(post)
    ck.cov["rule"] = ("histories of 5-800 top-level units (define, redefine, set!, closures reading / assigning / calling globals, captured "
                      "and pair-held closures, calls of earlier functions, units failing at expansion / symbol resolution / run time, "
                      "shadowing storms) on one engine, both STEEL_JIT settings; every unit's outcome is compared with the reference "
                      "evaluation; distinct non-trivial = distinct outcome texts of expression/probe units evaluated after the model's "
                      "first slot-recycling round in their history")
    ck.cov["histories"] = len(hs) + len(names)
    ck.cov["history_lengths"] = sorted(len(h) for h in hs)
    ck.cov["model_recycling_rounds_per_history"] = sorted(info["model_recycles"] + info0["model_recycles"])
    ck.cov["generator_stats"] = stats
    ck.cov["envelope_exits"] = info["envelope_exits"]
    ck.cov["known_inline_hits"] = info["known_inline"] + info0["known_inline"]
    ck.cov["corpus"] = names
    for h, e in list(zip(hs, exps))[:3]:
        ck.sample({"units": [steel_unit(u) for u in h[:6]], "expected": [x[0] for x in e[:6]], "length": len(h)})
    if not proved and not ck.violations:
        if tie_error is not None:
            ck.violation("tie between model and /repo broken: %s" % tie_error, {"tie": tie_error}, no_input=True, tag="tie")
        else:
            ck.unproved()


def compare_engine_only(ck, histories, expects, tag):
    """compare() without the model (used when the Coq side does not build)."""
    saved = globals()["run_model"]

    def fake(ck_, hs, jit, cfg="cfg_now", trace=False):
        outs = [[e[0] for e in ex] for ex in expects]
        return outs, ([["0/0/0/0"] * len(o) for o in outs] if trace else [])
    globals()["run_model"] = fake
    try:
        return compare(ck, histories, expects, tag)
    finally:
        globals()["run_model"] = saved


def replay(ck, path):
    obj = json.load(open(path))
    case = obj.get("case")
    if not case or "units" not in case:
        print(json.dumps(obj, indent=1)[:4000])
        return
    ck.harness_build(["evalsrv"])
    units = case["units"]
    jit = case.get("jit", True)
    got = run_sources(ck, [(units, {})], jit)[0]
    i = case["index"]
    want = case["oracle"][i]
    for k in range(max(0, len(units) - 6), len(units)):
        print("unit %d: %s\n   engine: %s" % (k, units[k][:200].replace("\n", " "), got[k][:300]))
    print("unit %d: engine %s ; reference evaluation %s (JIT %s)" % (i, got[i][:300], (want or "?")[:300], "on" if jit else "off"))
    if want is not None and got[i] != want:
        ck.failing_input("replay: unit %d evaluated to %s, reference evaluation gives %s" % (i, got[i][:200], want[:200]), case, tag="replay")
