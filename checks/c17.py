"""C17 — a running script can always be interrupted (DESIGN.md section 4, C17).

(P) coq/c17: VM-level model of the poll at every dispatch, the interrupt flag, nested activations (bytecode calls,
    callbacks from built-ins, handler frames); interrupt_latency, region_bounded, resume_usable.
(G) coq/gen/Gen_C17.v: the poll is the first statement of the dispatch loop, its Interrupted arm raises, both
    safepoint exit loops break on Interrupted.
(C) every non-terminating program shape x JIT on/off on the real engine (harness/src/bin/c17.rs): a host thread calls
    ThreadStateController::interrupt() after a random delay; the evaluation must return Err within a generous bound;
    after resume() probe programs must evaluate normally.
"""
import json
import os
import re
import subprocess
import time

from checks import common
from checks.common import TieBroken
from checks.c16 import private_bin, run_parallel

SRC = "crates/steel-core/src/"

LOOP = "(let c17-lp () (c17-lp))"
SETUP = [
    "(define c17-shared 0)",
    "(define (c17-forever) (c17-forever))",
    "(define (c17-a) (c17-b)) (define (c17-b) (c17-a))",
    "(define (c17-count i) (c17-count (+ i 1)))",
    "(define (c17-deep n) (if (= n 0) 0 (+ 1 (c17-deep (- n 1)))))",
    "(define (c17-deep-forever) (c17-deep 500) (c17-deep-forever))",
    "(define c17-cell (box 0))",
    "(define (c17-cb x) (let c17-lp () (set-box! c17-cell (+ 1 (unbox c17-cell))) (c17-lp)))",
    "(define (c17-vec-loop v i) (vector-set! v 0 i) (c17-vec-loop v (+ i 1)))",
]
# name -> looping expression (never terminates on its own)
SHAPES = {
    # the interrupted evaluation runs while ANOTHER script thread keeps starting stop-the-world sections (global set!)
    "loop-while-thread-updates-globals": "(begin (define c17-w (spawn-native-thread (lambda () (let lp ((k 0)) (if (< k 100000000) "
                                         "(begin (set! c17-shared k) (lp (+ k 1))) 'done))))) (c17-forever))",
    "self-tail-loop": "(c17-forever)",
    "mutual-tail-loop": "(c17-a)",
    "counting-loop": "(c17-count 0)",
    "named-let-loop": LOOP,
    "non-tail-recursion-in-loop": "(c17-deep-forever)",
    "map-callback-loop": "(map c17-cb (list 1 2 3))",
    "map-lambda-loop": "(map (lambda (x) %s) (list 1 2 3))" % LOOP,
    "foldl-callback-loop": "(foldl (lambda (x acc) %s) 0 (list 1 2 3))" % LOOP,
    "for-each-callback-loop": "(for-each c17-cb (list 1 2 3))",
    "filter-callback-loop": "(filter (lambda (x) %s) (list 1 2 3))" % LOOP,
    "transduce-mapping-loop": "(transduce (list 1 2 3) (mapping (lambda (x) %s)) (into-list))" % LOOP,
    "transduce-filtering-loop": "(transduce (range 0 10) (filtering (lambda (x) %s)) (into-list))" % LOOP,
    "apply-loop": "(apply c17-cb (list 1))",
    "sort-comparator-loop": "(sort (list 3 1 2) (lambda (a b) %s))" % LOOP,
    "loop-in-handler": "(with-handler (lambda (e) %s) (error \"boom\"))" % LOOP,
    "loop-under-handler": "(with-handler (lambda (e) 'caught) %s)" % LOOP,
    "loop-under-nested-handlers": "(with-handler (lambda (e) 'outer) (with-handler (lambda (e) 'inner) (car (list %s))))" % LOOP,
    "loop-in-wind-body": "(dynamic-wind (lambda () #t) (lambda () %s) (lambda () #t))" % LOOP,
    "loop-in-wind-before": "(dynamic-wind (lambda () %s) (lambda () 1) (lambda () #t))" % LOOP,
    "loop-in-wind-after": "(dynamic-wind (lambda () #t) (lambda () 1) (lambda () %s))" % LOOP,
    "callcc-generator-loop": "(let c17-g ([i 0]) (call/cc (lambda (k) (k i))) (c17-g (+ i 1)))",
    "callcc-reentry-loop": "(let ([k2 #f] [n 0]) (call/cc (lambda (k) (set! k2 k))) (set! n (+ n 1)) (k2 n))",
    "vector-mutation-loop": "(c17-vec-loop (vector 0) 0)",
    "hash-loop": "(let c17-h ([h (hash)] [i 0]) (c17-h (hash-insert h (modulo i 50) i) (+ i 1)))",
    "string-builtin-loop": "(let c17-s ([i 0]) (string-append \"a\" (number->string i)) (c17-s (+ i 1)))",
    "closure-alloc-loop": "(let c17-c ([f (lambda () 0)] [i 0]) (c17-c (lambda () (+ i (f))) 0))",
}
PROBE = ["(+ 1 2)", "(define (c17-probe n) (if (= n 0) 'ok (c17-probe (- n 1))))", "(c17-probe 1000)",
         "(map (lambda (x) (* x x)) (list 1 2 3))", "(with-handler (lambda (e) 'handled) (error \"x\"))"]
PROBE_EXPECT = ["I3", "#<void>", "'\"ok\"", "(I1 I4 I9)", "'\"handled\""]


def translate(ck):
    vm = common.repo_file(SRC + "steel_vm/vm.rs")
    head = bool(re.search(r"loop\s*\{\s*self\.safepoint_or_interrupt\(\)\?;", vm))
    m = re.search(r"pub fn safepoint_or_interrupt\(&mut self\) -> Result<\(\)> \{(.*?)\n    \}\n", vm, re.S)
    if not m:
        raise TieBroken("safepoint_or_interrupt not found in vm.rs")
    body = m.group(1)
    raises = bool(re.search(r"ThreadState::Interrupted\s*=>\s*\{\s*stop!\(", body)) and \
        bool(re.search(r"\.paused\s*\.load\(", body))
    breaks = len(re.findall(r"if let ThreadState::Interrupted = self\.synchronizer\.state\.state\.load\(\)\s*\{\s*break;", vm))
    # ThreadStateController::interrupt must publish the state before the flag: a thread leaving a safepoint parks
    # while the flag is set unless the state says Interrupted, and nothing unparks it after an interrupt (F45)
    mi = re.search(r"pub fn interrupt\(&self\) \{(.*?)\n    \}\n", vm, re.S)
    if not mi:
        raise TieBroken("ThreadStateController::interrupt not found in vm.rs")
    ib = re.sub(r"//[^\n]*", "", mi.group(1))
    ps, ss = ib.find("self.paused"), ib.find("self.state.store(ThreadState::Interrupted)")
    state_first = 0 <= ss < ps
    text = ("(* GENERATED by checks/c17.py from /repo — do not edit. *)\n"
            "Definition poll_at_dispatch_loop_head : bool := %s.\n"
            "Definition interrupted_arm_raises : bool := %s.\n"
            "Definition safepoint_exit_breaks_on_interrupt : nat := %d.\n"
            "Definition interrupt_publishes_state_first : bool := %s.\n"
            "Definition poll_facts : bool := andb poll_at_dispatch_loop_head (andb interrupted_arm_raises (andb (Nat.eqb safepoint_exit_breaks_on_interrupt 2) interrupt_publishes_state_first)).\n"
            "Lemma poll_facts_ok : poll_facts = true. Proof. reflexivity. Qed.\n"
            % ("true" if head else "false", "true" if raises else "false", breaks, "true" if state_first else "false"))
    ck.translate("Gen_C17", text)
    return head, raises, breaks


def c17_interrupt_lost_during_stop_the_world(case, params):
    """The interrupted evaluation shares the engine with a script thread that keeps running stop-the-world sections: the
    request is overwritten and the evaluation does not stop."""
    return case.get("shape") == "loop-while-thread-updates-globals" and "did not return within" in str(case.get("why", ""))


def run_case(ck, case, jit, bound):
    env = dict(os.environ)
    env["RUST_BACKTRACE"] = "0"
    if not jit:
        env["STEEL_JIT"] = "false"
    else:
        env.pop("STEEL_JIT", None)
    t0 = time.time()
    try:
        p = subprocess.run([os.path.join(ck.work, "c17.bin")], input=json.dumps(dict(case, bound_s=bound)),
                           capture_output=True, text=True, env=env, timeout=bound + 240)
    except subprocess.TimeoutExpired:
        return {"hang": True, "why": "harness timed out", "wall": time.time() - t0}
    i = p.stdout.rfind("@@C17@@ ")
    if i < 0:
        return {"crash": p.returncode, "stderr": p.stderr[-300:], "wall": time.time() - t0}
    d = json.loads(p.stdout[i + 8:].splitlines()[0])
    d["wall"] = time.time() - t0
    return d


def judge(d, bound):
    """The property oracle: Err within the bound, engine usable afterwards."""
    if "crash" in d:
        return "host process died (rc %s) %s" % (d["crash"], d.get("stderr", ""))
    if d.get("hang"):
        return "evaluation did not return within %ss of interrupt() (%s instruction dispatches after the request)" % (bound, d.get("steps_after_interrupt"))
    if d.get("finished_before_interrupt"):
        return "shape terminated before the interrupt: %s" % json.dumps(d["res"])[:200]
    r = d["res"]
    if "err" not in r:
        return "evaluation returned %s instead of an error after interrupt()" % json.dumps(r)[:200]
    got = [(x.get("ok") or [json.dumps(x)])[-1] for x in d["probe"]]
    if got != PROBE_EXPECT:
        return "after resume() the probes evaluated to %s, expected %s" % (got, PROBE_EXPECT)
    return None


def run(ck):
    ck.cov["trusted_base"] = [
        "Coq 8.16.1 kernel, coqc",
        "hand-written VM model coq/c17/Model_C17.v (poll at dispatch vm.rs 2534-2535, 1792-1821; safepoint exit 868-877); native code is NOT modelled",
        "translator in checks/c17.py (three regular expressions over vm.rs)",
        "harness/src/bin/c17.rs (host thread calling interrupt()/resume(), wall-clock latency), hook H3 dispatch counter",
        "program shapes and probes in checks/c17.py",
    ]
    ck.assumptions = [
        "natively compiled code returns to a polling dispatch loop within a bounded number of steps — not proved, measured per shape with JIT on",
        "built-ins terminate (their non-polling region is finite); long-running built-ins are measured, not bounded",
        "time bound: 60 s after interrupt() (typical latency < 5 ms)",
    ]
    head, raises, breaks = translate(ck)
    proved = ck.proof_stage(["c17"], ["c17/Properties_C17"], "c17/Pins_C17.v", extra_obligations=1)
    private_bin(ck, "c17")
    quick = ck.tier == "quick"
    bound = 60.0
    reps = 1 if quick else 6
    jobs = []
    for name, src in SHAPES.items():
        for jit in (True, False):
            for _ in range(reps):
                delay = ck.rng.choice([0, 1, 3, 10, 30, 80, 200]) + ck.rng.randint(0, 5)
                jobs.append((name, jit, {"setup": SETUP, "looping": src, "probe": PROBE, "delay_ms": delay}))
    res = run_parallel(jobs, lambda j: run_case(ck, j[2], j[1], bound), 8)
    lat = []
    ok_shapes = set()
    for (name, jit, case), d in zip(jobs, res):
        ck.cov["evaluations"] += 1
        why = judge(d, bound)
        if why is None:
            ok_shapes.add((name, jit))
            lat.append((d["latency_ms"], d["steps_after_interrupt"], name, jit))
        else:
            ck.failing_input("%s (JIT %s, interrupt after %d ms): %s" % (name, "on" if jit else "off", case["delay_ms"], why),
                             {"shape": name, "jit": jit, "case": case, "why": why}, tag="intr")
    lat.sort(reverse=True)
    for l in lat[:3]:
        ck.sample({"shape": l[2], "jit": l[3], "latency_ms": round(l[0], 2), "dispatches_after_interrupt": l[1]})
    # ---- the same shapes running on a native thread, interrupted from the script with (thread-interrupt t)
    tcases, tmeta = [], []
    names = list(SHAPES) if not quick else ck.rng.sample(list(SHAPES), 8)
    for name in names:
        if "call/cc" in SHAPES[name] or "callcc" in name or "spawn-native-thread" in SHAPES[name]:
            continue
        tcases.append(list(SETUP) + ["(define c17-t (spawn-native-thread (lambda () %s)))" % SHAPES[name],
                                     "(let c17-w ([i 0]) (if (< i 20000) (c17-w (+ i 1)) 'waited))",
                                     "(thread-interrupt c17-t)",
                                     "(with-handler (lambda (e) 'interrupted) (begin (thread-join! c17-t) 'returned))"] + list(PROBE))
        tmeta.append(name)
    for jit in (True, False):
        tres = ck.eval_cases(tcases, fresh=True, env=({} if jit else {"STEEL_JIT": "false"}), batch=4, timeout_per_batch=90)
        for name, units, r in zip(tmeta, tcases, tres):
            ck.cov["evaluations"] += 1
            k = len(SETUP) + 3
            got = r[k] if r and len(r) > k else (r[-1] if r else {"missing": 1})
            val = (got.get("ok") or [json.dumps(got)[:100]])[-1] if isinstance(got, dict) else str(got)
            probes = [(x.get("ok") or [json.dumps(x)])[-1] for x in (r[k + 1:k + 1 + len(PROBE)] if r else [])]
            if val != "'\"interrupted\"" or probes != PROBE_EXPECT:
                ck.failing_input("%s on a native thread (JIT %s): (thread-interrupt t) then (thread-join! t) gave %s, probes %s"
                                 % (name, "on" if jit else "off", val, probes),
                                 {"shape": name, "jit": jit, "units": units, "outcome": val, "kind": "thread-interrupt"}, tag="tintr")
            else:
                ok_shapes.add(("thread:" + name, jit))
    ck.cov["thread_interrupt_shapes"] = len(tmeta)
    ck.cov["max_latency_ms"] = round(lat[0][0], 2) if lat else None
    ck.cov["max_dispatches_after_interrupt"] = max([l[1] for l in lat]) if lat else None
    ck.cov["distinct_nontrivial"] = len(ok_shapes)
    ck.cov["rule"] = ("distinct = (non-terminating program shape, JIT mode) pairs for which the evaluation was still running "
                      "when interrupt() was called, returned an error within the bound, and all %d probes evaluated "
                      "correctly after resume(); %d shapes x 2 modes generated" % (len(PROBE), len(SHAPES)))
    if not proved and not ck.violations:
        ck.unproved()


def replay(ck, path):
    obj = json.load(open(path))
    c = obj.get("case")
    if not c or "case" not in c:
        print(json.dumps(obj, indent=1)[:3000])
        return
    private_bin(ck, "c17")
    d = run_case(ck, c["case"], c["jit"], 60.0)
    why = judge(d, 60.0)
    print("shape:", c["shape"], "jit:", c["jit"], "->", why or "interrupted in %.2f ms" % d["latency_ms"])
    if why:
        ck.failing_input("replay: %s" % why, c, tag="intr")
