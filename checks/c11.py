"""C11 — equal? is structural, hashing agrees with it, collections behave as their models
(DESIGN.md section 4, C11).

Part 1 (equality / hashing): value DAGs with deliberate sharing are rendered BOTH as Steel source
(let* bindings keep the sharing) and as a Coq graph term; observables `equal?` (both argument orders)
and `hash-contains?` / `hashset-contains?` / `hash-ref` with one value as key and the other as probe.
Oracle (independent of the model's algorithm): python structural equality on the unfolded trees.

Part 2 (collections): generated operation sequences on lists, vectors, hash maps, hash sets, strings
and byte vectors are run on the engine and on the Coq collection model (coq/c11/Coll_C11.v);
printed canonical results and error classes are compared (see checks/c11_coll.py section below).
"""
import json
import os
import struct

from checks import common
from checks.common import TieBroken

# =====================================================================================================
# value graphs
# =====================================================================================================
# node = tuple: ("int", z) ("big", z) ("rat", n, d) ("bigrat", n, d) ("flo", bits) ("bool", b) ("char", cp)
#               ("str", s) ("sym", s) ("bytes", [..]) ("void",)
#               ("list", [ids]) ("pair", a, d) ("ivec", [ids]) ("mvec", [ids]) ("map", [(k, v)..])
#               ("set", [ids]) ("struct", ty, [ids]) ("box", c)
ATOMS = ("int", "big", "rat", "bigrat", "flo", "bool", "char", "str", "sym", "bytes", "void")
STRUCTS = {0: ("c11sa", 1), 1: ("c11sb", 2), 2: ("c11sc", 2)}   # type id -> (name, arity)
PRELUDE = "\n".join("(struct %s (%s) #:transparent)" % (n, " ".join("f%d" % i for i in range(k)))
                    for n, k in STRUCTS.values())
NAN_BITS = 0x7ff8000000000000


def fbits(x):
    return struct.unpack("<Q", struct.pack("<d", x))[0]


FLOATS = [1.5, -0.5, 2.0, 2.25, 1e10, 0.1, 3.0, 100.125]
BIGS = [10**23, -10**23, 2**63, 2**64 + 1]
ATOM_POOL = (
    [("int", v) for v in (0, 1, 2, 3, -1, 7, 2**62, -2**63, 2**63 - 1)] +
    [("big", v) for v in BIGS] +
    [("rat", 1, 2), ("rat", -3, 4), ("rat", 2, 3), ("rat", 2147483647, 2)] +
    [("bigrat", 10**23, 3), ("bigrat", 1, 2**40), ("bigrat", -(10**23), 7)] +
    [("flo", fbits(v)) for v in FLOATS] +
    [("bool", True), ("bool", False)] +
    [("char", ord(c)) for c in "abz0"] + [("char", 955)] +
    [("str", s) for s in ("", "a", "ab", "abc", "2")] +
    [("sym", s) for s in ("a", "ab", "foo", "x2")] +
    [("bytes", b) for b in ([], [1], [1, 2], [255, 0])] +
    [("void",)]
)


def children(n):
    k = n[0]
    if k in ("list", "ivec", "mvec", "set"):
        return list(n[1])
    if k == "pair":
        return [n[1], n[2]]
    if k == "map":
        return [x for kv in n[1] for x in kv]
    if k == "struct":
        return list(n[2])
    if k == "box":
        return [n[1]]
    return []


def tree_sizes(g):
    w = []
    for n in g:
        w.append(1 + sum(w[c] for c in children(n)))
    return w


def unfold(g, a, memo=None):
    """The mathematical value: nested tuples without identity."""
    if memo is None:
        memo = {}
    if a in memo:
        return memo[a]
    n = g[a]
    k = n[0]
    if k in ATOMS:
        t = ("atom",) + n
    elif k == "list":
        t = ("ord", "list", 0, tuple(unfold(g, c, memo) for c in n[1]))
    elif k == "pair":
        t = ("ord", "pair", 0, (unfold(g, n[1], memo), unfold(g, n[2], memo)))
    elif k in ("ivec", "mvec"):
        t = ("ord", "vec", k, tuple(unfold(g, c, memo) for c in n[1]))
    elif k == "struct":
        t = ("ord", "struct", n[1], tuple(unfold(g, c, memo) for c in n[2]))
    elif k == "box":
        t = ("ord", "box", 0, (unfold(g, n[1], memo),))
    elif k == "map":
        t = ("map", tuple((unfold(g, x, memo), unfold(g, y, memo)) for x, y in n[1]))
    elif k == "set":
        t = ("set", tuple(unfold(g, x, memo) for x in n[1]))
    else:
        raise ValueError(k)
    memo[a] = t
    return t


def oracle_eq(s, t, strict=False):
    """Property oracle: same shape and equal leaves (python, on trees; knows nothing of work lists,
    visited sets or pointers).  Vector mutability is not part of the shape unless strict."""
    if s[0] != t[0]:
        return False
    if s[0] == "atom":
        return s[1:] == t[1:]          # NaN equals itself here: equal? is to be an equivalence
    if s[0] == "ord":
        if s[1] != t[1]:
            return False
        if s[1] == "vec":
            if strict and s[2] != t[2]:
                return False
        elif s[2] != t[2]:
            return False
        return len(s[3]) == len(t[3]) and all(oracle_eq(x, y, strict) for x, y in zip(s[3], t[3]))
    if s[0] == "map":
        return len(s[1]) == len(t[1]) and all(
            any(oracle_eq(k, k2, strict) and oracle_eq(v, v2, strict) for k2, v2 in t[1]) for k, v in s[1])
    if s[0] == "set":
        return len(s[1]) == len(t[1]) and all(any(oracle_eq(k, k2, strict) for k2 in t[1]) for k in s[1])
    raise ValueError(s[0])


def key_positions(t, out):
    """all subtrees of t that sit in key position of a hash map / member position of a hash set"""
    if t[0] == "ord":
        for c in t[3]:
            key_positions(c, out)
    elif t[0] == "map":
        for k, v in t[1]:
            out.append(k)
            key_positions(k, out)
            key_positions(v, out)
    elif t[0] == "set":
        for k in t[1]:
            out.append(k)
            key_positions(k, out)
    return out


def contains(t, pred):
    if pred(t):
        return True
    if t[0] == "ord":
        return any(contains(c, pred) for c in t[3])
    if t[0] == "map":
        return any(contains(k, pred) or contains(v, pred) for k, v in t[1])
    if t[0] == "set":
        return any(contains(k, pred) for k in t[1])
    return False


def is_nan_atom(t):
    return t[0] == "atom" and t[1] == "flo" and (t[2] >> 52) & 0x7ff == 0x7ff and (t[2] & ((1 << 52) - 1)) != 0


def is_unordered(t):
    return t[0] in ("map", "set") and len(t[1]) >= 2


def flags_for(ta, tb, probe):
    """Canonical, decidable description of the known-finding classes a case falls into."""
    ka = key_positions(ta, [ta] if probe else [])
    kb = key_positions(tb, [tb] if probe else [])
    fl = []
    if contains(ta, is_nan_atom) or contains(tb, is_nan_atom):
        fl.append("nan")
    if any(contains(k, is_unordered) for k in ka + kb):
        fl.append("unordered_key")
    if any(oracle_eq(k, k2) and not oracle_eq(k, k2, strict=True) for k in ka for k2 in kb):
        fl.append("mixed_vector_key")
    return fl


# ---- known-finding class predicates (looked up by ck.classify; listed in known_findings.d/C11.json)
def c11_nan(case, params):
    return "nan" in case.get("flags", [])


def c11_unordered_key(case, params):
    return "unordered_key" in case.get("flags", [])


def c11_mixed_vector_key(case, params):
    return "mixed_vector_key" in case.get("flags", [])


# ---------------------------------------------------------------------------------------- generator
class Gen:
    def __init__(self, rng, keys_wild=False):
        self.rng = rng
        self.g = []
        self.keys_wild = keys_wild     # allow mutable vectors / maps / sets inside keys

    def add(self, n):
        self.g.append(n)
        return len(self.g) - 1

    def atom(self):
        return self.add(self.rng.choice(ATOM_POOL))

    def child(self, depth, key=False, no_list=False):
        """a child: drawn from the pool of existing nodes with probability 1/2, else fresh"""
        rng = self.rng
        if self.g and rng.random() < 0.5:
            for _ in range(6):
                c = rng.randrange(len(self.g))
                if no_list and self.g[c][0] == "list":
                    continue
                if key and not self.keys_wild and not self.stable(c):
                    continue
                return c
        return self.node(depth - 1, key=key, no_list=no_list)

    def stable(self, a):
        n = self.g[a]
        if n[0] in ("mvec", "map", "set"):
            return False
        return all(self.stable(c) for c in children(n))

    def node(self, depth, key=False, no_list=False):
        rng = self.rng
        if depth <= 0 or rng.random() < 0.25:
            return self.atom()
        kinds = ["list", "list", "pair", "ivec", "mvec", "map", "set", "struct", "box"]
        if key and not self.keys_wild:
            kinds = ["list", "list", "pair", "ivec", "struct", "box"]
        if no_list:
            kinds = [k for k in kinds if k != "list"]
        k = rng.choice(kinds)
        if k in ("list", "ivec", "mvec"):
            cs = [self.child(depth, key=key) for _ in range(rng.choice([0, 1, 2, 2, 3, 4]))]
            return self.add((k, cs))
        if k == "pair":
            a = self.child(depth, key=key)
            d = self.child(depth, key=key, no_list=True)   # (cons x <list>) is a list, not a pair
            return self.add(("pair", a, d))
        if k == "box":
            return self.add(("box", self.child(depth, key=key)))
        if k == "struct":
            ty = rng.choice(list(STRUCTS))
            return self.add(("struct", ty, [self.child(depth, key=key) for _ in range(STRUCTS[ty][1])]))
        if k == "map":
            kvs = []
            for _ in range(rng.choice([0, 1, 2, 3])):
                kk = self.child(depth, key=True)
                vv = self.child(depth, key=key)
                kvs.append((kk, vv))
            return self.add(("map", self.dedupe(kvs, lambda kv: kv[0])))
        if k == "set":
            ks = [self.child(depth, key=True) for _ in range(rng.choice([0, 1, 2, 3]))]
            return self.add(("set", self.dedupe(ks, lambda x: x)))
        raise ValueError(k)

    def dedupe(self, items, keyf):
        out = []
        memo = {}
        for it in items:
            t = unfold(self.g, keyf(it), memo)
            if not any(oracle_eq(t, unfold(self.g, keyf(o), memo)) for o in out):
                out.append(it)
        return out

    # ---- a second value related to node a
    def copy(self, a, memo, p_same=0.2, p_memo=0.6, flip=0.0, path=None):
        """Deep copy of a with different sharing.  Each child copy is the original node itself (shared
        between the two sides), the memoised copy (sharing kept) or a fresh copy (sharing undone).
        `path` (list of child indices) leads to a leaf that is replaced by a different atom; nodes
        along the path are always copied afresh."""
        rng = self.rng
        n = self.g[a]
        on_path = path is not None
        if not on_path:
            if rng.random() < p_same:
                return a
            if a in memo and rng.random() < p_memo:
                return memo[a]
        k = n[0]
        if k in ATOMS:
            if on_path:
                assert path == []
                alt = rng.choice([x for x in ATOM_POOL if x != n])
                return self.add(alt)
            return self.add(n)
        cs = children(n)
        new = []
        for i, c in enumerate(cs):
            sub = None
            if on_path and path and path[0] == i:
                sub = path[1:]
            new.append(self.copy(c, memo, p_same, p_memo, flip, sub))
        if k in ("list", "set"):
            m = (k, new)
        elif k in ("ivec", "mvec"):
            kk = k
            if rng.random() < flip:
                kk = "mvec" if k == "ivec" else "ivec"
            m = (kk, new)
        elif k == "pair":
            m = ("pair", new[0], new[1])
        elif k == "map":
            m = ("map", [(new[2 * i], new[2 * i + 1]) for i in range(len(n[1]))])
        elif k == "struct":
            m = ("struct", n[1], new)
        elif k == "box":
            m = ("box", new[0])
        r = self.add(m)
        if not on_path:
            memo[a] = r
        return r

    def leaf_path(self, a):
        """random root-to-leaf path in the unfolding of a (None if a has no leaf, e.g. empty list)"""
        path = []
        while True:
            n = self.g[a]
            if n[0] in ATOMS:
                return path
            cs = children(n)
            if not cs:
                return None
            i = self.rng.randrange(len(cs))
            path.append(i)
            a = cs[i]

    def structural_mutation(self, a, memo):
        """copy of a whose root differs in shape: element dropped / added, kind changed"""
        rng = self.rng
        n = self.g[a]
        k = n[0]
        if k in ("list", "ivec", "mvec"):
            cs = list(n[1])
            ch = rng.choice(["drop", "add", "kind", "swap"])
            if ch == "drop" and cs:
                cs.pop(rng.randrange(len(cs)))
            elif ch == "add":
                cs.insert(rng.randrange(len(cs) + 1), self.atom())
            elif ch == "swap" and len(cs) >= 2:
                cs[0], cs[-1] = cs[-1], cs[0]
            else:
                k = {"list": "ivec", "ivec": "list", "mvec": "list"}[k]
            return self.add((k, cs))
        if k == "struct":
            alt = [t for t in STRUCTS if t != n[1] and STRUCTS[t][1] == STRUCTS[n[1]][1]]
            if alt:
                return self.add(("struct", alt[0], list(n[2])))
        if k == "pair":
            return self.add(("pair", n[2], n[1])) if self.g[n[1]][0] != "list" else self.add(("list", [n[1], n[2]]))
        if k == "box":
            return self.add(("ivec", [n[1]]))
        if k == "map" and n[1]:
            kvs = list(n[1])
            i = rng.randrange(len(kvs))
            kvs[i] = (kvs[i][0], self.atom())
            return self.add(("map", kvs))
        if k == "set" and n[1]:
            return self.add(("set", list(n[1])[1:]))
        return self.atom()


def wf(g):
    """children precede parents; map keys / set members pairwise distinct (as the engine stores them)"""
    memo = {}
    for i, n in enumerate(g):
        if any(c >= i for c in children(n)):
            return False
        if n[0] == "pair" and g[n[2]][0] == "list":
            return False
        ks = [kv[0] for kv in n[1]] if n[0] == "map" else (n[1] if n[0] == "set" else [])
        ts = [unfold(g, k, memo) for k in ks]
        for x in range(len(ts)):
            for y in range(x + 1, len(ts)):
                if oracle_eq(ts[x], ts[y]):
                    return False
    return True


MODES = ["identical", "resharing", "resharing_flip", "one_leaf", "one_leaf", "shape", "unrelated", "wild_keys"]


def gen_case(rng, mode, max_tree=1500):
    for _ in range(50):
        gen = Gen(rng, keys_wild=(mode == "wild_keys"))
        depth = rng.choice([2, 3, 3, 4])
        a = gen.node(depth)
        if gen.g[a][0] in ATOMS and rng.random() < 0.8:
            continue
        if mode == "identical":
            b = a if rng.random() < 0.5 else gen.copy(a, {}, p_same=0.7, p_memo=0.9)
        elif mode in ("resharing", "wild_keys"):
            b = gen.copy(a, {}, p_same=rng.choice([0.0, 0.2, 0.5]), p_memo=rng.choice([0.0, 0.5, 1.0]))
        elif mode == "resharing_flip":
            b = gen.copy(a, {}, p_same=0.2, p_memo=0.5, flip=0.5)
        elif mode == "one_leaf":
            p = gen.leaf_path(a)
            if p is None:
                continue
            b = gen.copy(a, {}, p_same=rng.choice([0.0, 0.3]), p_memo=rng.choice([0.3, 1.0]), path=p)
        elif mode == "shape":
            memo = {}
            inner = gen.copy(a, memo, p_same=0.3)
            b = gen.structural_mutation(inner, memo)
        else:
            b = gen.node(depth)
        g = gen.g
        if not wf(g):
            continue
        w = tree_sizes(g)
        if w[a] > max_tree or w[b] > max_tree or len(g) > 120:
            continue
        return {"g": g, "a": a, "b": b, "mode": mode}
    raise TieBroken("C11 generator could not produce a well-formed case in mode %s" % mode)


# ---------------------------------------------------------------------------------------- renderers
def steel_atom(n):
    k = n[0]
    if k in ("int", "big"):
        return str(n[1])
    if k in ("rat", "bigrat"):
        return "%d/%d" % (n[1], n[2])
    if k == "flo":
        if n[1] == NAN_BITS:
            return "+nan.0"
        return repr(struct.unpack("<d", struct.pack("<Q", n[1]))[0])
    if k == "bool":
        return "#t" if n[1] else "#f"
    if k == "char":
        return "#\\" + chr(n[1])
    if k == "str":
        return '"%s"' % n[1]
    if k == "sym":
        return "'" + n[1]
    if k == "bytes":
        return "(bytes%s)" % "".join(" %d" % b for b in n[1])
    if k == "void":
        return "void"
    raise ValueError(k)


def steel_node(n):
    k = n[0]
    v = lambda i: "n%d" % i
    if k in ATOMS:
        return steel_atom(n)
    if k == "list":
        return "(list%s)" % "".join(" " + v(c) for c in n[1])
    if k == "pair":
        return "(cons %s %s)" % (v(n[1]), v(n[2]))
    if k == "ivec":
        return "(immutable-vector%s)" % "".join(" " + v(c) for c in n[1])
    if k == "mvec":
        return "(vector%s)" % "".join(" " + v(c) for c in n[1])
    if k == "map":
        return "(hash%s)" % "".join(" %s %s" % (v(a), v(b)) for a, b in n[1])
    if k == "set":
        return "(hashset%s)" % "".join(" " + v(c) for c in n[1])
    if k == "struct":
        return "(%s%s)" % (STRUCTS[n[1]][0], "".join(" " + v(c) for c in n[2]))
    if k == "box":
        return "(box %s)" % v(n[1])
    raise ValueError(k)


OBS = ["equal_ab", "equal_ba", "hash_contains", "hashset_contains", "hash_try_get", "hash_ref"]


def steel_binds(case):
    return " ".join("(n%d %s)" % (i, steel_node(n)) for i, n in enumerate(case["g"]))


def steel_source(case):
    a, b = case["a"], case["b"]
    body = ("(list (equal? n{a} n{b}) (equal? n{b} n{a}) (hash-contains? (hash n{a} 1) n{b}) "
            "(hashset-contains? (hashset n{a}) n{b}) "
            "(eq? 'v (hash-try-get (hash n{a} 'v) n{b})))").format(a=a, b=b)
    return "(let* (%s) %s)" % (steel_binds(case), body)


def steel_source_ref(case):
    """hash-ref in a unit of its own: a missing key is an error whose *message* formats the map, and
    the printer panics on some shared boxes (not a C11 matter) - that must not lose the other observables"""
    return "(let* (%s) (eq? 'v (hash-ref (hash n%d 'v) n%d)))" % (steel_binds(case), case["a"], case["b"])


def coq_z(z):
    return "(%d)%%Z" % z


def coq_nats(xs):
    return "[" + "; ".join(str(x) for x in xs) + "]"


def coq_node(n):
    k = n[0]
    if k == "int":
        return "NAtom (AInt %s)" % coq_z(n[1])
    if k == "big":
        return "NAtom (ABig %s)" % coq_z(n[1])
    if k == "rat":
        return "NAtom (ARat %s %s)" % (coq_z(n[1]), coq_z(n[2]))
    if k == "bigrat":
        return "NAtom (ABigRat %s %s)" % (coq_z(n[1]), coq_z(n[2]))
    if k == "flo":
        return "NAtom (AFlo %s)" % coq_z(n[1])
    if k == "bool":
        return "NAtom (ABool %s)" % ("true" if n[1] else "false")
    if k == "char":
        return "NAtom (AChar %d)" % n[1]
    if k == "str":
        return "NAtom (AStr %s)" % coq_nats([ord(c) for c in n[1]])
    if k == "sym":
        return "NAtom (ASym %s)" % coq_nats([ord(c) for c in n[1]])
    if k == "bytes":
        return "NAtom (ABytes %s)" % coq_nats(n[1])
    if k == "void":
        return "NAtom AVoid"
    if k == "list":
        return "NList %s" % coq_nats(n[1])
    if k == "pair":
        return "NPair %d %d" % (n[1], n[2])
    if k == "ivec":
        return "NIVec %s" % coq_nats(n[1])
    if k == "mvec":
        return "NMVec %s" % coq_nats(n[1])
    if k == "map":
        return "NMap [%s]" % "; ".join("(%d, %d)" % kv for kv in n[1])
    if k == "set":
        return "NSet %s" % coq_nats(n[1])
    if k == "struct":
        return "NStruct %d %s" % (n[1], coq_nats(n[2]))
    if k == "box":
        return "NBox %d" % n[1]
    raise ValueError(k)


def coq_graph(g):
    return "[" + "; ".join(coq_node(n) for n in g) + "]"


COQ_HEADER = ("From SV Require Import c11.Model_C11.\nFrom Coq Require Import ZArith List String.\n"
              "Import ListNotations.\nOpen Scope string_scope.\n")


def coq_expr(case):
    """one string: wf, equal(a,b), equal(b,a), probe(a<-b), spec(a,b), current(a,b), wfb"""
    return ('(let g := %s in obs_wf g ++ " " ++ obs_equal g %d %d ++ " " ++ obs_equal g %d %d ++ " " ++ '
            'obs_probe g %d %d ++ " " ++ obs_spec g %d %d ++ " " ++ obs_equal_current g %d %d ++ " " ++ obs_wfb g)') % (
        coq_graph(case["g"]), case["a"], case["b"], case["b"], case["a"], case["a"], case["b"],
        case["a"], case["b"], case["a"], case["b"])


# ---------------------------------------------------------------------------------------- corpus
def corpus_cases():
    """Minimised failures / regression inputs; run first (also stored as corpus/c11/*.json)."""
    i = lambda v: ("int", v)
    cs = []
    # F6 witness: (define a (list 1 2 3)) (equal? (list a a) (list (list 9 9 9) (list 1 2 3)))
    cs.append({"g": [i(1), i(2), i(3), i(9), ("list", [0, 1, 2]), ("list", [4, 4]), ("list", [3, 3, 3]),
                     ("list", [0, 1, 2]), ("list", [6, 7])], "a": 5, "b": 8, "mode": "corpus_f6_list"})
    # F6 immutable vectors: (list iv iv) vs two fresh copies
    cs.append({"g": [i(1), i(2), ("ivec", [0, 1]), ("list", [2, 2]), ("ivec", [0, 1]), ("ivec", [0, 1]),
                     ("list", [4, 5])], "a": 3, "b": 6, "mode": "corpus_f6_ivec"})
    # F6 hash set arm: (equal? (hashset 1 2) (hashset 3 4))
    cs.append({"g": [i(1), i(2), i(3), i(4), ("set", [0, 1]), ("set", [2, 3])], "a": 4, "b": 5,
               "mode": "corpus_f6_set"})
    # nested leaves without an arm in the loop
    cs.append({"g": [("rat", 1, 2), ("list", [0]), ("rat", 1, 2), ("list", [2])], "a": 1, "b": 3,
               "mode": "corpus_leaf_arms"})
    cs.append({"g": [("bytes", [1, 2]), ("ivec", [0]), ("bytes", [1, 2]), ("ivec", [2])], "a": 1, "b": 3,
               "mode": "corpus_leaf_arms"})
    # pairs, mutable vectors, structs, maps with a shared child opposite a differing one
    cs.append({"g": [i(1), i(2), i(9), ("pair", 0, 1), ("pair", 3, 3), ("pair", 2, 2), ("pair", 0, 1),
                     ("pair", 5, 6)], "a": 4, "b": 7, "mode": "corpus_f6_pair"})
    cs.append({"g": [i(1), i(9), ("mvec", [0]), ("mvec", [2, 2]), ("mvec", [1]), ("mvec", [0]),
                     ("mvec", [4, 5])], "a": 3, "b": 6, "mode": "corpus_f6_mvec"})
    cs.append({"g": [i(1), i(9), ("struct", 0, [0]), ("list", [2, 2]), ("struct", 0, [1]), ("struct", 0, [0]),
                     ("list", [4, 5])], "a": 3, "b": 6, "mode": "corpus_f6_struct"})
    cs.append({"g": [i(1), i(9), i(5), ("map", [(2, 0)]), ("list", [3, 3]), ("map", [(2, 1)]), ("map", [(2, 0)]),
                     ("list", [5, 6])], "a": 4, "b": 7, "mode": "corpus_f6_map"})
    # known findings (open): NaN, unordered collections as keys, vector mutability in keys
    cs.append({"g": [("flo", NAN_BITS), ("list", [0]), ("flo", NAN_BITS), ("list", [2])], "a": 1, "b": 3,
               "mode": "corpus_nan"})
    cs.append({"g": [i(1), i(2), i(3), i(4), ("map", [(0, 1), (2, 3)]), ("map", [(2, 3), (0, 1)])],
               "a": 4, "b": 5, "mode": "corpus_unordered_key"})
    cs.append({"g": [i(1), ("mvec", [0]), ("ivec", [0])], "a": 1, "b": 2, "mode": "corpus_mixed_vector_key"})
    return cs


# ---------------------------------------------------------------------------------------- running
def impl_obs(res):
    """engine outcome of one case -> list of '#t'/'#f' per observable, or a single failure tag"""
    if res is None:
        return ["MISSING"]
    r = res[0]
    if "ok" in r:
        v = r["ok"][-1] if r["ok"] else ""
        if v.startswith("(") and v.endswith(")"):
            return v[1:-1].split(" ")
        return ["BAD:" + v]
    if "err" in r:
        return ["E:" + r["err"]]
    if "crash" in r:
        return ["CRASH:%s" % r["crash"]]
    if "hang" in r:
        return ["HANG"]
    return ["P:" + r.get("panic", "?")]


def case_descr(case, flags, probe):
    return {"graph": [list(n) for n in case["g"]], "a": case["a"], "b": case["b"], "mode": case["mode"],
            "flags": flags, "probe": probe, "source": steel_source(case)}


def run_equality(ck, cases):
    srcs = [[steel_source(c), steel_source_ref(c)] for c in cases]
    impl = ck.eval_cases(srcs, prelude=PRELUDE)
    model = ck.coq_eval(COQ_HEADER, [coq_expr(c) for c in cases], shard=max(20, len(cases) // 16 + 1))
    hist = {}
    distinct = set()
    stats = {"engine_vs_oracle": 0, "model_vs_engine": 0, "model_vs_spec": 0, "known_class_cases": 0,
             "current_alg_wrong": 0, "equal_true": 0, "equal_false": 0}
    for ci, case in enumerate(cases):
        g, a, b = case["g"], case["a"], case["b"]
        memo = {}
        ta, tb = unfold(g, a, memo), unfold(g, b, memo)
        want = "#t" if oracle_eq(ta, tb) else "#f"
        stats["equal_true" if want == "#t" else "equal_false"] += 1
        got = impl_obs(impl[ci])
        if len(got) == len(OBS) - 1:
            r2 = impl[ci][1] if len(impl[ci]) > 1 else {}
            if "ok" in r2:
                got.append(r2["ok"][-1] if r2["ok"] else "?")
            elif "err" in r2:
                got.append("#f")          # hash-ref on a missing key is an error (class Generic)
                stats["hash_ref_errors"] = stats.get("hash_ref_errors", 0) + 1
            elif "panic" in r2 and "rvals/cycles.rs" in r2["panic"] and want == "#f":
                got.append("#f")          # key missing; the error message could not be formatted (printer defect)
                stats["hash_ref_error_message_panics"] = stats.get("hash_ref_error_message_panics", 0) + 1
            else:
                got.append(impl_obs([r2])[0])
        m = model[ci].split(" ")
        if len(m) != 7 or m[0] != "#t":
            raise TieBroken("generated graph is not well formed for the model or model output malformed: %s / %s"
                            % (model[ci], coq_graph(g)))
        m_wf, m_ab, m_ba, m_probe, m_spec, m_cur, m_wfb = m
        if m_wfb == "#t":
            stats["inside_theorem_hypotheses"] = stats.get("inside_theorem_hypotheses", 0) + 1
            if m_ab != m_spec or "FUEL" in (m_ab, m_ba, m_probe):
                ck.violation("vm_compute of eq_alg contradicts C11_eq_alg_structural on a wfb graph",
                             {"case": case_descr(case, [], False)}, no_input=True, tag="thm")
        hist[case["mode"]] = hist.get(case["mode"], 0) + 1
        shared = len(g) < tree_sizes(g)[a] + tree_sizes(g)[b]      # some node occurs more than once
        kinds = tuple(sorted({n[0] for n in g if n[0] not in ATOMS}))
        key = (case["mode"].split("_")[0], kinds, want, shared)
        distinct.add(key)
        if ci % 41 == 0:
            ck.sample({"source": steel_source(case), "coq_graph": coq_graph(g), "a": a, "b": b, "oracle": want,
                       "engine": got, "model": m})
        if len(got) != len(OBS):
            flags = flags_for(ta, tb, True)
            ck.failing_input("engine failed on a value pair (%s): %s" % (case["mode"], got[0]),
                             case_descr(case, flags, True), tag="eq")
            stats["engine_vs_oracle"] += 1
            continue
        if m_cur != want and m_cur != "FUEL":
            stats["current_alg_wrong"] += 1
        ck.cov["evaluations"] += len(OBS)
        for oi, name in enumerate(OBS):
            probe = oi >= 2
            e = got[oi]
            mod = (m_ab, m_ba, m_probe, m_probe, m_probe, m_probe)[oi]
            if e != want:
                flags = flags_for(ta, tb, probe)
                stats["engine_vs_oracle"] += 1
                if flags:
                    stats["known_class_cases"] += 1
                d = case_descr(case, flags, probe)
                d.update({"observable": name, "engine": e, "oracle": want, "model": mod})
                ck.failing_input("%s: engine %s, structural equality of the unfolded values %s (%s)"
                                 % (name, e, want, case["mode"]), d, tag="eq")
            elif mod != e:
                flags = flags_for(ta, tb, probe)
                if "unordered_key" in flags:
                    continue      # HAMT iteration order is random per process: the model cannot predict it
                stats["model_vs_engine"] += 1
                d = case_descr(case, flags, probe)
                d.update({"observable": name, "engine": e, "oracle": want, "model": mod})
                ck.violation("model/implementation correspondence broken on %s: model %s, engine %s (%s)"
                             % (name, mod, e, case["mode"]),
                             {"case": d, "correspondence": "c11.Model_C11 eq_alg/lookup vs rvals/cycles.rs"},
                             no_input=True, tag="corr")
        # the executable spec in Coq against the python oracle (renderer / spec sanity)
        if m_spec != want and "nan" not in flags_for(ta, tb, False):
            stats["model_vs_spec"] += 1
            ck.violation("Coq tree_eqb (%s) and the python oracle (%s) disagree" % (m_spec, want),
                         {"case": case_descr(case, [], False), "correspondence": "tree_eqb vs oracle_eq"},
                         no_input=True, tag="spec")
    return hist, distinct, stats


def run(ck):
    ck.cov["trusted_base"] = [
        "Coq 8.16.1 kernel, coqc; vm_compute for model evaluation",
        "hand-written model coq/c11/Model_C11.v of RecursiveEqualityHandler / impl Hash for SteelVal and "
        "coq/c11/Coll_C11.v of the collection primitives",
        "im-lists, imbl HAMT, Vec, String: specified by their interface (sequence / finite map / finite set)",
        "correspondence harness (harness/src/bin/evalsrv.rs, canonical value rendering in harness/src/lib.rs)",
        "case renderers in checks/c11.py (graph -> Steel let* source, graph -> Coq term; op sequence -> both)",
        "oracle: python structural equality on unfolded trees; python list/dict/set for collections",
    ]
    ck.assumptions = [
        "the hasher is collision free on the token streams met (hash equality is modelled as token-stream equality)",
        "a HAMT lookup compares the probe with exactly the stored keys whose hash equals the probe's",
        "no other thread mutates the compared values during the comparison; addresses of live objects are stable",
        "-0.0, complex numbers, closures, ports and other opaque kinds are outside the generated envelope",
    ]
    proved = ck.proof_stage(["c11"], ["c11/Properties_C11"], "c11/Pins_C11.v")
    ck.harness_build(["evalsrv"])

    n = 900 if ck.tier == "quick" else 20000
    cases = corpus_cases()
    for i in range(n):
        cases.append(gen_case(ck.rng, MODES[i % len(MODES)]))
    ck.log("proof stage done")
    hist, distinct, stats = run_equality(ck, cases)
    ck.log("equality part done")
    ck.cov["mode_histogram"] = hist
    ck.cov["equality_stats"] = stats

    coll_distinct = run_collections(ck)
    ck.log("collections part done")
    run_list_storage(ck)

    ck.cov["distinct_nontrivial"] = len([k for k in distinct if k[3]]) + coll_distinct
    ck.cov["rule"] = ("equality: distinct (generation mode, set of compound kinds present, oracle verdict, "
                      "sharing present); non-trivial = some node is reachable along two paths. collections: "
                      "distinct (collection kind, operation, outcome class) triples met in generated sequences")
    if not proved and not ck.violations:
        ck.unproved()


# =====================================================================================================
# collections: operation sequences and binary operations with ownership patterns -> checks/c11_coll.py
# =====================================================================================================
from checks import c11_coll


def c11_drop_beyond_end(case, params):
    return case.get("failing_op") == "drop_beyond_end"


def run_collections(ck):
    return c11_coll.run_collections(ck)


# =====================================================================================================
# lists that share storage chunks (im-lists: append / take / cdr / cons reuse chunks of their argument)
# =====================================================================================================
def gen_list_expr(rng, n):
    """(steel expression over the variable s = (range 0 n), python value)"""
    base = list(range(n))
    r = rng.random()
    if r < 0.15:
        return "s", base
    if r < 0.45:
        t = [rng.choice([1, 2])] * rng.choice([1, 1, 2])
        return "(append s (list%s))" % "".join(" %d" % x for x in t), base + t
    if r < 0.65:
        k = rng.choice([0, 1, max(n - 1, 0), n, max(n // 2, 0), max(n - 4, 0)])
        return "(take s %d)" % k, base[:k]
    if r < 0.8:
        return "(cdr (cons 7 s))", base
    if r < 0.9:
        return "(cons 0 (cdr s))" if n else "s", ([0] + base[1:]) if n else base
    return "(append s (list))", base


def run_list_storage(ck):
    rng = ck.rng
    cases = [(10, "(append s (list 1))", list(range(10)) + [1], "(append s (list 2))", list(range(10)) + [2]),
             (10, "(append s (list 1))", list(range(10)) + [1], "s", list(range(10))),
             (1000, "s", list(range(1000)), "(take s 600)", list(range(600)))]
    for _ in range(150 if ck.tier == "quick" else 3000):
        n = rng.choice([0, 1, 3, 4, 5, 8, 9, 10, 17, 300])
        e1, v1 = gen_list_expr(rng, n)
        e2, v2 = gen_list_expr(rng, n)
        cases.append((n, e1, v1, e2, v2))
    srcs = [["(let* ((s (range 0 %d)) (x %s) (y %s)) (list (equal? x y) (equal? y x) (hash-contains? (hash x 1) y) "
             "(equal? (list x x) (list y x))))" % (n, e1, e2)] for n, e1, v1, e2, v2 in cases]
    impl = ck.eval_cases(srcs, batch=40)
    bad = 0
    for (n, e1, v1, e2, v2), src, res in zip(cases, srcs, impl):
        want = "#t" if v1 == v2 else "#f"
        got = impl_obs(res)
        ck.cov["evaluations"] += 4
        if got != [want] * 4:
            bad += 1
            ck.failing_input("lists sharing storage: engine %s, sequence equality %s" % (got, want),
                             {"part": "list_storage", "n": n, "x": e1, "y": e2, "source": src[0], "engine": got,
                              "oracle": want, "flags": []}, tag="lists")
    ck.cov["list_storage_stats"] = {"cases": len(cases), "engine_vs_oracle": bad}


def replay(ck, path):
    obj = json.load(open(path))
    case = obj.get("case")
    if not case or "graph" not in case:
        print(json.dumps(obj, indent=1))
        return
    ck.harness_build(["evalsrv"])
    g = [tuple(tuple(x) if isinstance(x, list) and n[0] == "map" and isinstance(x, list) and x and isinstance(x[0], list) else x
               for x in n) for n in case["graph"]]
    g2 = []
    for n in case["graph"]:
        n = list(n)
        if n[0] == "map":
            n[1] = [tuple(kv) for kv in n[1]]
        g2.append(tuple(n))
    c = {"g": g2, "a": case["a"], "b": case["b"], "mode": case.get("mode", "replay")}
    print("source:", steel_source(c))
    run_equality(ck, [c])
