"""C16 — threads always make progress through collections and global updates (DESIGN.md section 4, C16).

(P) coq/c15/Model_C15.v (the safepoint / stop-the-world handshake with the heap and `threads` mutexes as the
    code takes them) + coq/c16: no_runtime_deadlock for the repaired lock discipline, witnesses of the two
    deadlocks of the code as it was, stop_terminates (every script, spawns included: C16_stop_terminates_spawning),
    channel FIFO.
(G) coq/gen/Gen_C16.v: every heap-mutex acquisition site and every blocking built-in with whether it is inside
    a safepoint, the lock discipline of the global-update sites and the order of the steps of spawn_native_thread
    (guard < copy < start < register < release); `gen_config = cfg_fixed` ties the theorems to what the source says now.
(C) generated multi-threaded programs run on the real engine under a watchdog reading hook H3's progress
    counters (harness/src/bin/c16.rs); the abstract program also runs in the Coq model under a fair schedule.
"""
import json
import os
import re
import subprocess
import threading
import time

from checks import common
from checks.common import TieBroken

SRC = "crates/steel-core/src/"

# ------------------------------------------------------------------------------------------------
# (G) translator

# acquisition sites that no thread created by spawn-native-thread / the engine's evaluation can reach;
# keyed by (file, enclosing fn) so that line drift does not matter.  Anything else must be in a safepoint.
EXEMPT = {
    ("rvals.rs", "from_serializable_value"): "value deserialisation for the serialising thread API (spawn-thread!, make-thread)",
    ("steel_vm/vm/threads.rs", "serialize_thread_impl"): "std::sync::Mutex of the serialised heap copy, not the shared heap",
    ("steel_vm/engine.rs", "deep_clone"): "engine construction (single-threaded, host API)",
    ("steel_vm/engine.rs", "fork"): "engine construction (single-threaded, host API)",
}

LOCK_RE = re.compile(r"\bheap\s*\.\s*lock(_arc)?\(\)")
FN_RE = re.compile(r"^\s*(?:pub(?:\([a-z]+\))?\s+)?(?:unsafe\s+)?(?:extern\s+\"C(?:-unwind)?\"\s+)?fn\s+([A-Za-z0-9_]+)")


def strip_line_comment(l):
    i = l.find("//")
    return l if i < 0 else l[:i]


def scan_sources():
    """Returns (lock_sites, update_sites, blocking) parsed from /repo."""
    files = []
    root = os.path.join(common.REPO, SRC)
    for d, _, fs in os.walk(root):
        for f in fs:
            if f.endswith(".rs"):
                files.append(os.path.relpath(os.path.join(d, f), root))
    lock_sites, update_sites = [], []
    for rel in sorted(files):
        lines = open(os.path.join(root, rel), errors="replace").read().split("\n")
        cur_fn = "?"
        fn_start = 0
        for i, raw in enumerate(lines):
            l = strip_line_comment(raw)
            m = FN_RE.match(l)
            if m:
                cur_fn, fn_start = m.group(1), i
            if LOCK_RE.search(l):
                # the statement this acquisition belongs to: back to the nearest `let` within 3 lines
                k0 = i
                for k in range(i, max(fn_start, i - 3) - 1, -1):
                    if re.search(r"\blet\b", strip_line_comment(lines[k])):
                        k0 = k
                        break
                stmt = " ".join(strip_line_comment(x).strip() for x in lines[k0:i + 1])
                in_sp = "enter_safepoint" in stmt
                m2 = re.search(r"\blet\s+(?:mut\s+)?([A-Za-z_]\w*)\s*=", stmt)
                name = m2.group(1) if m2 else None
                lock_sites.append({"file": rel, "fn": cur_fn, "line": i + 1, "safepoint": in_sp,
                                   "dropped": in_sp and name == "_", "bound": name})
            if re.search(r"\bwith_locked_env\(", l) and not re.search(r"fn\s+with_locked_env", l):
                kept = any(s2["file"] == rel and s2["fn"] == cur_fn and s2["line"] <= i + 1 and s2["safepoint"]
                           and s2["bound"] not in (None, "_") for s2 in lock_sites)
                update_sites.append({"file": rel, "fn": cur_fn, "line": i + 1, "guard_kept": bool(kept)})
    if len(lock_sites) < 10 or not update_sites:
        raise TieBroken("translator found %d heap-lock sites and %d with_locked_env sites: source shape changed" % (len(lock_sites), len(update_sites)))
    # blocking built-ins
    blocking = []
    for rel in ("steel_vm/vm/threads.rs", "values/closed.rs"):
        txt = open(os.path.join(root, rel), errors="replace").read()
        for m in re.finditer(r"#\[(?:steel_derive::)?(function|native|context)\(\s*name\s*=\s*\"([^\"]+)\"[^\]]*\)\]\s*(?:#\[[^\]]*\]\s*)*pub(?:\([a-z]+\))?\s+fn\s+(\w+)", txt):
            kind, name, fn = m.groups()
            start = m.end()
            end = txt.find("\n}\n", start)
            body = txt[start:end]
            blocks = bool(re.search(r"\.recv\(\)|\.join\(\)|lock_arc\(\)|\.lock\(\)\s*$|selector\.ready\(\)|block_until_incoming|thread::sleep|\.lock\(\)\)", body, re.M))
            if fn == "thread_join":
                blocks = True  # delegates to thread_join_impl (JoinHandle::join)
            if fn == "mutex_lock":
                blocks = True  # delegates to SteelMutex::lock (lock_arc)
            if blocks:
                blocking.append({"name": name, "fn": fn, "kind": kind, "self_safepoint": "enter_safepoint" in body})
    names = {b["name"] for b in blocking}
    for need in ("thread-join!", "channel/recv", "lock-acquire!"):
        if need not in names:
            raise TieBroken("translator did not find the blocking built-in %s in threads.rs" % need)
    # the VM wraps FuncV/MutFunc calls in a safepoint (call_primitive_func and friends)
    vm = open(os.path.join(root, "steel_vm/vm.rs"), errors="replace").read()
    wrapped = len(re.findall(r"\.enter_safepoint\((?:move\s+)?\|ctx[^|]*\|\s*(?:func|f)\(&ctx\.stack\[", vm))
    if wrapped < 4:
        raise TieBroken("vm.rs no longer wraps primitive calls in enter_safepoint at the 4 known call paths (found %d)" % wrapped)
    jit = open(os.path.join(root, "steel_vm/vm/jit.rs"), errors="replace").read()
    # FuncV arms of the native call helpers that invoke the built-in directly (no safepoint)
    bare_native = 0
    for m in re.finditer(r"(?:SteelVal::)?FuncV\((\w+)\) =>", jit):
        arm = jit[m.end():m.end() + 260]
        nxt = re.search(r"\n\s*(?:SteelVal::)?(?:BoxedFunction|MutFunc|Closure|BuiltIn)\(", arm)
        arm = arm[:nxt.start()] if nxt else arm
        if re.search(r"\b%s\(" % re.escape(m.group(1)), arm) and "enter_safepoint" not in arm:
            bare_native += 1
    # FuncV arms of vm.rs that invoke the built-in directly, outside a safepoint: only the embedding entry points
    # (the host calls a function on an idle engine) and call/cc's receiver may do that; a script-reachable call path
    # (apply, tail call through a value, ...) must publish the thread because the built-in may block (F50, seeded C16-2)
    vmn = re.sub(r"//[^\n]*", "", vm)
    fns = [(m.start(), m.group(1)) for m in re.finditer(r"\bfn\s+(\w+)\s*[<(]", vmn)]

    def enclosing(pos):
        name = None
        for p_, n_ in fns:
            if p_ < pos:
                name = n_
            else:
                break
        return name
    bare_vm = []
    for m in re.finditer(r"(?:SteelVal::)?FuncV\((\w+)\)\s*=>", vmn):
        arm = vmn[m.end():m.end() + 500]
        nxt = re.search(r"\n\s*(?:SteelVal::)?(?:BoxedFunction|MutFunc|Closure|BuiltIn|ContinuationFunction|CustomStruct|FutureFunc)\(", arm)
        arm = arm[:nxt.start()] if nxt else arm
        nm = m.group(1)
        if (re.search(r"\b%s\(\s*&" % re.escape(nm), arm) or re.search(r"\b%s\(\s*self" % re.escape(nm), arm)) and "enter_safepoint" not in arm:
            bare_vm.append(enclosing(m.start()))
    # the collector keeps the other threads stopped for the WHOLE marking: Heap::mark stops them and does not resume
    # them; mark_and_sweep_new resumes them after mark has returned (seeded change C15-2 resumed them right after their
    # stacks had been read, while the collecting thread was still queueing its own roots and the marker was tracing)
    closed = re.sub(r"//[^\n]*", "", open(os.path.join(root, "values/closed.rs"), errors="replace").read())
    mk = re.search(r"fn mark<'a>\((.*?)\n    \}\n", closed, re.S)
    ms = re.search(r"fn mark_and_sweep_new<'a>\((.*?)\n    \}\n", closed, re.S)
    if not mk or not ms:
        raise TieBroken("Heap::mark / mark_and_sweep_new not found in closed.rs")
    if "synchronizer.stop_threads()" not in mk.group(1) or "resume_threads()" in mk.group(1):
        raise TieBroken("Heap::mark no longer keeps the other threads stopped until it returns (stop_threads / resume_threads)")
    a, b = ms.group(1).find("self.mark("), ms.group(1).find("synchronizer.resume_threads()")
    if a < 0 or b < a:
        raise TieBroken("mark_and_sweep_new does not resume the other threads after the marking")
    unknown = sorted(set(x for x in bare_vm if x not in BARE_VM_ALLOWED))
    if unknown:
        raise TieBroken("vm.rs calls a built-in (FuncV) directly, outside a safepoint, in %s: a blocking built-in reached that way "
                        "is never published to stop-the-world sections" % unknown)
    return lock_sites, update_sites, blocking, wrapped, bare_native, scan_spawn(root)


def scan_spawn(root):
    """Order of the steps of spawn_native_thread (threads.rs): heap guard taken in a safepoint and bound to a name,
    copy of the spawner's state, start of the OS thread, registration in Synchronizer.threads, release of the guard.
    -> dict of 1-based line numbers (0 = step not found); the model's switch spawn_locked is computed from it in Coq."""
    rel = "steel_vm/vm/threads.rs"
    lines = open(os.path.join(root, rel), errors="replace").read().split("\n")
    start = body = None
    for i, l in enumerate(lines):          # the variant that starts an OS thread (the other one is the stub without `sync`)
        if re.search(r"\bfn\s+spawn_native_thread\b", l):
            end = next((k for k in range(i + 1, len(lines)) if lines[k].startswith("}")), len(lines) - 1)
            b = [strip_line_comment(x) for x in lines[i:end + 1]]
            if any("thread::spawn(" in x or "thread::Builder" in x for x in b):
                start, body = i, b
                break
    if start is None:
        raise TieBroken("threads.rs: fn spawn_native_thread (the variant starting an OS thread) not found")

    def first(rx, frm=0):
        for k in range(frm, len(body)):
            if re.search(rx, body[k]):
                return k
        return None
    guard = name = None
    for k, l in enumerate(body):
        m = re.search(r"\blet\s+(?:mut\s+)?([A-Za-z_]\w*)\s*=\s*ctx\.thread\.enter_safepoint\(\|\w+\|\s*\w+\.heap\.lock_arc\(\)\)", l)
        if m and m.group(1) != "_":
            guard, name = k, m.group(1)
            break
    copy = first(r"ctx\.thread\.clone\(\)")
    spawn = first(r"std::thread::spawn\(|thread::Builder")
    register = first(r"\.push\(ThreadContext")
    if copy is None or spawn is None or register is None:
        raise TieBroken("threads.rs spawn_native_thread: state copy / thread start / registration not recognised: source shape changed")
    release = None
    if guard is not None:
        release = first(r"\bdrop\(\s*%s\s*\)" % re.escape(name), guard)
        if release is None:
            release = len(body) - 1          # lives until the function returns
    ln = lambda k: 0 if k is None else start + k + 1
    return {"guard": ln(guard), "copy": ln(copy), "start": ln(spawn), "register": ln(register), "release": ln(release)}


BARE_VM_ALLOWED = {"call_function", "call_func_or_else", "call_func_or_else_two_args", "call_func_or_else_many_args", "call_cc"}


def coq_bool(b):
    return "true" if b else "false"


def gen_coq(lock_sites, update_sites, blocking, wrapped, bare_native, spawn):
    def in_scope(s):
        return (s["file"], s["fn"]) not in EXEMPT
    box = [s for s in lock_sites if s["fn"] == "box_handler_c"]
    if not box:
        raise TieBroken("jit.rs box_handler_c heap-lock site not found")
    keep_guard = all(u["guard_kept"] for u in update_sites) and not any(s["dropped"] for s in lock_sites)
    jit_box = all(s["safepoint"] for s in box)
    out = []
    out.append("(* GENERATED by checks/c16.py from /repo — do not edit.  Heap-mutex acquisition sites, global-update sites\n"
               "   and blocking built-ins of steel-core, with whether each is inside a safepoint. *)")
    out.append("From Coq Require Import List Bool String.\nFrom SV Require Import c15.Model_C15.\nImport ListNotations.\nOpen Scope string_scope.\n")
    out.append("(* (file, fn, in safepoint, guard dropped at once, reachable from a script thread) *)")
    out.append("Definition heap_lock_sites : list (string * string * bool * bool * bool) := [")
    out.append(";\n".join('  ("%s", "%s", %s, %s, %s)' % (s["file"], s["fn"], coq_bool(s["safepoint"]), coq_bool(s["dropped"]), coq_bool(in_scope(s))) for s in lock_sites))
    out.append("].\n")
    out.append("(* (file, fn, heap guard kept for the whole update) — call sites of with_locked_env *)")
    out.append("Definition update_sites : list (string * string * bool) := [")
    out.append(";\n".join('  ("%s", "%s", %s)' % (u["file"], u["fn"], coq_bool(u["guard_kept"])) for u in update_sites))
    out.append("].\n")
    out.append("(* (script name, wrapped by the VM's primitive-call safepoint (function/native kind), enters a safepoint itself) *)")
    out.append("Definition blocking_builtins : list (string * bool * bool) := [")
    out.append(";\n".join('  ("%s", %s, %s)' % (b["name"], coq_bool(b["kind"] in ("function", "native")), coq_bool(b["self_safepoint"])) for b in blocking))
    out.append("].\n")
    out.append("Definition vm_primitive_call_paths_wrapped : nat := %d.\nDefinition native_funcv_call_paths_bare : nat := %d.\n" % (wrapped, bare_native))
    out.append("(* threads.rs spawn_native_thread, line of each step (0 = absent): heap guard taken in a safepoint and kept in a\n"
               "   named binding, copy of the spawner's state, start of the OS thread, registration, release of the guard *)\n"
               "Definition spawn_guard_line : nat := %d.\nDefinition spawn_copy_line : nat := %d.\nDefinition spawn_start_line : nat := %d.\n"
               "Definition spawn_register_line : nat := %d.\nDefinition spawn_release_line : nat := %d.\n"
               "Definition spawn_steps_ordered : bool :=\n"
               "  Nat.ltb 0 spawn_guard_line && Nat.ltb spawn_guard_line spawn_copy_line && Nat.ltb spawn_copy_line spawn_start_line &&\n"
               "  Nat.ltb spawn_start_line spawn_register_line && Nat.ltb spawn_register_line spawn_release_line.\n"
               % (spawn["guard"], spawn["copy"], spawn["start"], spawn["register"], spawn["release"]))
    out.append("Definition site_ok (s : string * string * bool * bool * bool) : bool :=\n"
               "  let '(_, _, sp, _, scope) := s in implb scope sp.\n"
               "Definition builtin_ok (b : string * bool * bool) : bool := let '(_, wrapped, self) := b in wrapped || self.\n"
               "Definition regions_ok : bool :=\n  forallb site_ok heap_lock_sites && forallb builtin_ok blocking_builtins && Nat.eqb native_funcv_call_paths_bare 0.\n"
               "Definition gen_config : config :=\n"
               "  {| keep_guard := forallb (fun u => snd u) update_sites && forallb (fun s => let '(_, _, _, dropped, _) := s in negb dropped) heap_lock_sites;\n"
               "     jit_box_safepoint := forallb (fun s => let '(_, f, sp, _, _) := s in if String.eqb f \"box_handler_c\" then sp else true) heap_lock_sites;\n"
               "     spawn_locked := spawn_steps_ordered |}.\n")
    out.append("(* obligations: one boolean fact per table, checked by computation over the table entries *)\n"
               "Lemma regions_all_ok : regions_ok = true.\nProof. vm_compute. reflexivity. Qed.\n"
               "Lemma gen_config_is_fixed : gen_config = cfg_fixed.\nProof. vm_compute. reflexivity. Qed.\n")
    return "\n".join(out) + "\n", keep_guard, jit_box


# ------------------------------------------------------------------------------------------------
# program generator: abstract spec -> Steel units + Coq term

PRELUDE = r"""
(define (c16-spin n acc) (if (= n 0) acc (c16-spin (- n 1) (+ acc 1))))
(define (c16-boxes n acc) (if (= n 0) acc (c16-boxes (- n 1) (cons (box n) acc))))
(define (c16-vecs n acc) (if (= n 0) acc (c16-vecs (- n 1) (cons (vector n n) (if (> (length acc) 50) '() acc)))))
(define (c16-sum-boxes l acc) (if (null? l) acc (c16-sum-boxes (cdr l) (+ acc (unbox (car l))))))
(define (c16-recv-n r n acc) (if (= n 0) (reverse acc) (c16-recv-n r (- n 1) (cons (channel/recv r) acc))))
(define (c16-recv-map r n) (map (lambda (i) (channel/recv r)) (range 0 n)))
(define (c16-recv-foreach r n) (let ([acc (box '())]) (for-each (lambda (i) (set-box! acc (cons (channel/recv r) (unbox acc)))) (range 0 n)) (reverse (unbox acc))))
(define c16-shared 0)
(define c16-mutex (mutex))
(define c16-counter (box 0))
"""


def gen_spec(rng, nthreads, scale):
    """A script-deadlock-free multi-threaded program.  Thread 0 is main."""
    nchan = rng.randint(0, min(3, nthreads))
    # each channel: one receiver (any thread incl. main), senders = some other threads
    chans = []
    for c in range(nchan):
        recv = rng.randint(0, nthreads)
        senders = [t for t in range(0, nthreads + 1) if t != recv and rng.random() < 0.6]
        if not senders:
            senders = [(recv + 1) % (nthreads + 1)]
        counts = {s: rng.randint(1, 4) for s in senders}
        chans.append({"recv": recv, "counts": counts, "style": rng.choice(["direct", "map", "foreach"])})
    # joins: each worker joined exactly once, by main or by a lower-numbered worker (handle passed on a channel)
    joiner = {}
    for t in range(1, nthreads + 1):
        cands = [0, 0] + [u for u in range(1, t)]
        joiner[t] = rng.choice(cands)
    threads = []
    for t in range(0, nthreads + 1):
        ops = []
        k = rng.randint(2, 6)
        for _ in range(k):
            r = rng.random()
            if r < 0.18:
                ops.append(["compute", rng.randint(100, 3000) * scale])
            elif r < 0.36:
                ops.append(["boxes", rng.randint(200, 1500) * scale])
            elif r < 0.5:
                ops.append(["vecs", rng.randint(200, 1500) * scale])
            elif r < 0.6:
                ops.append(["gc"])
            elif r < 0.75:
                ops.append(["define", "c16-g-%d-%d" % (t, len(ops)), rng.randint(0, 999)])
            elif r < 0.9:
                ops.append(["set", rng.randint(1, 999)])
            else:
                ops.append(["lock", rng.randint(1, 50)])
        # blocking operations (recv, join) come after every send of the thread, so that no cycle of threads
        # waiting for each other's messages can exist (script-level deadlocks are not what C16 is about)
        cut = rng.randint(0, len(ops))
        first, second = ops[:cut], ops[cut:]
        for c, ch in enumerate(chans):
            if t in ch["counts"]:
                for q in range(ch["counts"][t]):
                    first.insert(rng.randint(0, len(first)), ["send", c, q])
        seqs = {}
        for op in first:
            if op[0] == "send":
                op[2] = seqs.get(op[1], 0)
                seqs[op[1]] = op[2] + 1
        for c, ch in enumerate(chans):
            if ch["recv"] == t:
                second.insert(rng.randint(0, len(second)), ["recv", c, sum(ch["counts"].values()), ch["style"]])
        ops = first + second
        threads.append(ops)
    # joins by workers (the handle arrives on a dedicated channel) go last in the joiner, in random order
    for t in range(1, nthreads + 1):
        if joiner[t] != 0:
            threads[joiner[t]].append(["join", t])
    main_joins = [t for t in range(1, nthreads + 1) if joiner[t] == 0]
    rng.shuffle(main_joins)
    spawn_order = list(range(1, nthreads + 1))
    return {"n": nthreads, "chans": chans, "threads": threads, "joiner": joiner, "main_joins": main_joins,
            "spawn_order": spawn_order}


def steel_op(t, op):
    k = op[0]
    if k == "compute":
        return "(c16-spin %d 0)" % op[1]
    if k == "boxes":
        return "(c16-sum-boxes (c16-boxes %d '()) 0)" % op[1]
    if k == "vecs":
        return "(length (c16-vecs %d '()))" % op[1]
    if k == "gc":
        return "(#%gc-collect)"
    if k == "define":
        return "(eval '(define %s %d))" % (op[1], op[2]) if False else "(c16-def-%s)" % op[1][6:]
    if k == "set":
        return "(set! c16-shared %d)" % op[1]
    if k == "lock":
        return "(let ([g (lock-acquire! c16-mutex)]) (set-box! c16-counter (+ %d (unbox c16-counter))) (lock-release! g))" % op[1]
    if k == "send":
        return "(channel/send c16-s%d (list %d %d))" % (op[1], t, op[2])
    if k == "recv":
        f = {"direct": "c16-recv-n c16-r%d %d '()", "map": "c16-recv-map c16-r%d %d", "foreach": "c16-recv-foreach c16-r%d %d"}[op[3]]
        return "(set-box! got (cons (list %d (%s)) (unbox got)))" % (op[1], f % (op[1], op[2]))
    if k == "join":
        return "(set-box! joined (cons (list %d (thread-join! (channel/recv c16-hr%d))) (unbox joined)))" % (op[1], op[1])
    raise ValueError(k)


def render_steel(spec):
    """-> list of source units (the last one returns the observable)."""
    n = spec["n"]
    units = [PRELUDE]
    setup = []
    for c in range(len(spec["chans"])):
        setup.append("(define c16-ch%d (channels/new)) (define c16-s%d (channels-sender c16-ch%d)) (define c16-r%d (channels-receiver c16-ch%d))" % (c, c, c, c, c))
    for t in range(1, n + 1):
        if spec["joiner"][t] != 0:
            setup.append("(define c16-hch%d (channels/new)) (define c16-hs%d (channels-sender c16-hch%d)) (define c16-hr%d (channels-receiver c16-hch%d))" % (t, t, t, t, t))
    # a global defined by a thread: a top-level thunk whose body is `(define ...)` cannot exist; a global
    # definition from a running thread is done with set! on a pre-declared name PLUS fresh top-level defines by
    # main between spawns (the F18 scenario).  "define" ops of workers therefore become set! of their own name.
    for t, ops in enumerate(spec["threads"]):
        for op in ops:
            if op[0] == "define":
                setup.append("(define %s #f) (define (c16-def-%s) (set! %s %d))" % (op[1], op[1][6:], op[1], op[2]))
    units.append("\n".join(setup))
    for t in range(1, n + 1):
        body = " ".join(steel_op(t, op) for op in spec["threads"][t])
        units.append("(define (c16-w%d) (let ([got (box '())] [joined (box '())]) %s (list 'done %d (unbox got) (unbox joined))))" % (t, body, t))
    # main: spawn (each a separate top-level define => a global update concurrent with running workers)
    for t in spec["spawn_order"]:
        units.append("(define c16-t%d (spawn-native-thread c16-w%d))" % (t, t))
        if spec["joiner"][t] != 0:
            units.append("(channel/send c16-hs%d c16-t%d)" % (t, t))
        units.append("(define c16-fresh-%d %d)" % (t, t))
    body = " ".join(steel_op(0, op) for op in spec["threads"][0])
    units.append("(define c16-main-result (let ([got (box '())] [joined (box '())]) %s (list 'done 0 (unbox got) (unbox joined))))" % body)
    joins = " ".join("(list %d (thread-join! c16-t%d))" % (t, t) for t in spec["main_joins"])
    globs = " ".join("(list '%s %s)" % (op[1], op[1]) for ops in spec["threads"] for op in ops if op[0] == "define")
    units.append("(list c16-main-result (list %s) c16-shared (list %s) (unbox c16-counter))" % (joins, globs))
    return units


def coq_progs(spec):
    """Abstract program per thread for Model_C15 (thread 0 = main)."""
    n = spec["n"]
    def acts(t, ops):
        out = []
        for op in ops:
            k = op[0]
            if k == "compute":
                out.append("ACompute")
            elif k == "boxes":
                out += ["AAllocJit false", "AAllocJit true", "APrim"]
            elif k == "vecs":
                out += ["AAlloc false", "AAlloc true"]
            elif k == "gc":
                out.append("AAlloc true")
            elif k in ("define", "set"):
                out.append("AUpdate")
            elif k == "lock":
                out += ["APrim", "APrim"]
            elif k == "send":
                out.append("ASend %d %d" % (op[1], op[2]))
            elif k == "recv":
                out += ["ARecv %d" % op[1]] * op[2]
            elif k == "join":
                out += ["ARecv %d" % (100 + op[1]), "AJoin %d" % op[1]]
        return out
    progs = []
    main = []
    for t in spec["spawn_order"]:
        main += ["ASpawn %d" % t, "AUpdate"]
        if spec["joiner"][t] != 0:
            main.append("ASend %d 0" % (100 + t))
        main.append("AUpdate")
    main += acts(0, spec["threads"][0]) + ["AUpdate"]
    main += ["AJoin %d" % t for t in spec["main_joins"]]
    progs.append(main)
    for t in range(1, n + 1):
        progs.append(acts(t, spec["threads"][t]))
    return "[" + "; ".join("[" + "; ".join(p) + "]" for p in progs) + "]", sum(len(p) for p in progs)


# ------------------------------------------------------------------------------------------------
# running on the engine

def private_bin(ck, name="c16"):
    """Build the harness binary and copy it (under the cargo lock) so that a concurrent rebuild by another check
    cannot replace the file while this check is executing it."""
    import shutil
    ck.harness_build([name])
    dst = os.path.join(ck.work, name + ".bin")
    with common.Lock("cargo"):
        shutil.copy2(ck.harness_bin(name), dst + ".tmp")
        os.replace(dst + ".tmp", dst)
    return dst


def run_engine(ck, units, jit, stall=45, limit=900, delay=None, binary=None):
    env = dict(os.environ)
    env["RUST_BACKTRACE"] = "0"
    if not jit:
        env["STEEL_JIT"] = "false"
    else:
        env.pop("STEEL_JIT", None)
    if delay:
        env["STEEL_VERIF_DELAY"] = delay
    t0 = time.time()
    try:
        p = subprocess.run([binary or os.path.join(ck.work, "c16.bin"), "--stall", str(stall), "--limit", str(limit)],
                           input=json.dumps({"units": units}), capture_output=True, text=True, env=env,
                           timeout=limit + 120)
        out, rc = p.stdout, p.returncode
    except subprocess.TimeoutExpired:
        return {"hang": {"why": "watchdog process itself timed out"}, "res": [], "rc": 124, "wall": time.time() - t0}
    i = out.rfind("@@C16@@ ")
    if i < 0:
        return {"crash": rc, "res": [], "rc": rc, "wall": time.time() - t0, "hang": None, "stderr": p.stderr[-400:]}
    d = json.loads(out[i + 8:].splitlines()[0])
    d["rc"] = rc
    d["wall"] = time.time() - t0
    return d


def parse_canon_list(s):
    """Tiny parser for the canonical value syntax (lists, ints, symbols) -> nested python lists."""
    toks = re.findall(r"\(|\)|'\"[^\"]*\"|I-?\d+|#<void>|#t|#f|\"[^\"]*\"|[^\s()]+", s)
    pos = [0]

    def rd():
        t = toks[pos[0]]
        pos[0] += 1
        if t == "(":
            out = []
            while toks[pos[0]] != ")":
                out.append(rd())
            pos[0] += 1
            return out
        if t.startswith("I"):
            return int(t[1:])
        if t.startswith("'\""):
            return t[2:-1]
        return t
    return rd()


def oracle(spec, d):
    """Property oracle, independent of the model: completion, join results once, per-sender FIFO, globals visible."""
    if d.get("hang"):
        return ["hang: %s (progress %s)" % (d["hang"].get("why"), json.dumps(d["hang"].get("progress", {}).get("total")))]
    if "crash" in d:
        return ["worker crashed rc=%s" % d["crash"]]
    res = d["res"]
    bad = [r for r in res if "ok" not in r]
    if bad:
        return ["unit failed: %s" % json.dumps(bad[0])[:300]]
    try:
        final = parse_canon_list(res[-1]["ok"][-1])
    except Exception as e:
        return ["cannot parse final value %r: %s" % (res[-1], e)]
    fails = []
    main_res, joins, shared, globs, counter = final
    results = {0: main_res}
    for t, r in joins:
        if t in results:
            fails.append("thread %d joined twice" % t)
        results[t] = r

    def collect(r):
        # r = (done t got joined)
        if not (isinstance(r, list) and len(r) == 4 and r[0] == "done"):
            fails.append("malformed thread result %r" % (r,))
            return
        for t2, r2 in r[3]:
            if t2 in results:
                fails.append("thread %d joined twice" % t2)
            results[t2] = r2
            collect(r2)
    for r in list(results.values()):
        collect(r)
    for t in range(0, spec["n"] + 1):
        if t not in results:
            fails.append("result of thread %d was not delivered" % t)
        elif results[t][1] != t:
            fails.append("join of thread %d delivered the result of thread %s" % (t, results[t][1]))
    # channels: per sender in order, complete
    for c, ch in enumerate(spec["chans"]):
        r = results.get(ch["recv"])
        if not r:
            continue
        got = [x for cc, x in r[2] if cc == c]
        msgs = got[0] if got else []
        for s, cnt in ch["counts"].items():
            seq = [m[1] for m in msgs if m[0] == s]
            if seq != list(range(cnt)):
                fails.append("channel %d: values from sender %d arrived as %s, sent 0..%d in order" % (c, s, seq, cnt - 1))
        if len(msgs) != sum(ch["counts"].values()):
            fails.append("channel %d: %d values received, %d sent" % (c, len(msgs), sum(ch["counts"].values())))
    # globals assigned by finished threads are visible to main
    want = {op[1]: op[2] for ops in spec["threads"] for op in ops if op[0] == "define"}
    for name, v in globs:
        if want.get(name) != v:
            fails.append("STALE-GLOBAL: global %s reads %r in main after the assigning thread was joined; assigned %r" % (name, v, want.get(name)))
    sets = [op[1] for ops in spec["threads"] for op in ops if op[0] == "set"]
    if sets and shared not in sets:
        fails.append("shared global holds %r, never assigned" % (shared,))
    locks = sum(op[1] for ops in spec["threads"] for op in ops if op[0] == "lock")
    if counter != locks:
        fails.append("mutex-protected counter is %r, expected %d" % (counter, locks))
    return fails


def native_abort_under_concurrent_update(case, params):
    """The host process aborted ('failed to initiate panic': a Rust panic inside a natively compiled frame) in a JIT-on
    run of a program whose threads update globals concurrently — a consequence of the C15 exit / spawn windows."""
    # a reproducible abort is a new defect; the known one is a rare race (not seen again in 3 re-runs)
    return case.get("kind") == "native-abort" and case.get("jit") is True and case.get("reproduced") is False


def is_native_abort(d):
    return "crash" in d and d.get("crash") == -6 and "failed to initiate panic" in (d.get("stderr") or "")


def abort_case(d, jit, units, ck=None, delay=None):
    if is_native_abort(d) and jit:
        rep = reproduces(ck, units, jit, delay, is_native_abort) if ck is not None else None
        return {"kind": "native-abort", "jit": True, "units": units, "reproduced": rep, "delay": delay}
    return None


VOID_GLOBAL = re.compile(r"not a procedure or function type not supported: #<void>|free identifier: |FreeIdentifier|"
                         r"index out of bounds: the len is \d+ but the index is \d+ @ [^ ]*env\.rs")


def saw_empty_global_table(d):
    """symptom of a thread running on the drained (default) global table: a global it calls reads as #<void>
    (before the fix F46: index out of bounds in env.rs)"""
    return any(VOID_GLOBAL.search(json.dumps(r)) for r in (d.get("res") or []) if isinstance(r, dict) and "ok" not in r)


def transient_empty_global_table(case, params):
    """A thread transiently ran on the emptied global table while another thread's stop-the-world update had drained
    it: the consequence of the open C15 exit window (a thread that the stopper counts as stopped is running).  Known
    only as the rare race: seen again in fewer than 4 of 12 re-runs of the same program; a reproducible occurrence is a new defect."""
    return case.get("kind") == "transient-empty-global-table" and case.get("reproduced") is False


def empty_table_case(ck, d, units, jit, delay=None):
    if saw_empty_global_table(d):
        return {"kind": "transient-empty-global-table", "jit": jit, "units": units, "delay": delay,
                "reproduced": reproduces(ck, units, jit, delay, saw_empty_global_table, *EMPTY_TABLE_RERUNS)}
    return None


def reproduces(ck, units, jit, delay, symptom, n=3, need=1):
    """Re-run a failing case n times with the same settings; True when `symptom(result)` shows up again in at least
    `need` of them.  Used to separate reproducible defects from the rare natural hits of the known C15 windows."""
    hits = 0
    for i in range(n):
        d = run_engine(ck, units, jit, delay=delay)
        if symptom(d):
            hits += 1
            if hits >= need:
                return True
        if hits + (n - i - 1) < need:
            return False
    return False


# The empty-table symptom of the open exit window comes in bursts (its rate depends on how the scheduler preempts the
# exiting thread: 0 in 60 runs on an idle machine, 2 in 4 in one observed burst), so "seen again once in 3 re-runs"
# misclassified the listed race as a new defect.  A defect of the handshake itself (seeded changes C15-2, C16-2)
# shows the symptom in nearly every run: the rule is "at least 4 of 12 re-runs".
EMPTY_TABLE_RERUNS = (12, 4)


F18_UNITS = [
    "(define shared 0)\n(define (setter id n) (lambda () (let lp ((k 0)) (if (< k n) (begin (set! shared (+ id k)) (lp (+ k 1))) 'done))))",
    "(define t1 (spawn-native-thread (setter 1000 2000)))",
    "(define t2 (spawn-native-thread (setter 2000 2000)))",
    "(list (thread-join! t1) (thread-join! t2))",
    "(if (or (= shared 2999) (= shared 3999)) 'ok shared)",
]
F23_UNITS = [
    "(define lst (list 1 2 3))\n(define (spin n acc) (if (= n 0) acc (spin (- n 1) (cons (car lst) (list (vector 1 2) (list n acc))))))\n(define (worker) (let lp ((k 0)) (if (< k 60) (begin (spin 2000 '()) (lp (+ k 1))) 'done)))",
    "(define ts (map (lambda (i) (spawn-native-thread worker)) (range 0 6)))",
    "(define (collector n) (if (= n 0) 'collected (begin (#%gc-collect) (collector (- n 1)))))",
    "(collector 10)",
    "(map thread-join! ts)",
]
# a consumer blocked in channel/recv called from natively compiled code while the producer defines globals
NATIVE_BLOCK_UNITS = [
    "(define ch (channels/new)) (define s (channels-sender ch)) (define r (channels-receiver ch))\n(define (consume n acc) (if (= n 0) acc (consume (- n 1) (+ acc (channel/recv r)))))",
    "(define t (spawn-native-thread (lambda () (consume 40 0))))",
    "(define (produce n) (if (= n 0) 'sent (begin (channel/send s 1) (if (= 0 (modulo n 5)) (#%gc-collect) 0) (c16x-spin 20000 0) (produce (- n 1)))))\n(define (c16x-spin n acc) (if (= n 0) acc (c16x-spin (- n 1) (+ acc 1))))",
    "(define a 1)", "(produce 20)", "(define b 2)", "(produce 20)",
    "(thread-join! t)",
]
# the consumer blocks in channel/recv reached by a TAIL call from natively compiled code; main then defines a global
NATIVE_TAIL_BLOCK_UNITS = [
    "(define ch (channels/new)) (define s (channels-sender ch)) (define r (channels-receiver ch))\n(define (recv1 x) (channel/recv r))\n(define (consume n acc) (if (= n 0) acc (consume (- n 1) (+ acc (recv1 n)))))\n(define (c16y-spin n acc) (if (= n 0) acc (c16y-spin (- n 1) (+ acc 1))))",
    "(define t (spawn-native-thread (lambda () (consume 3 0))))",
    "(c16y-spin 300000 0)", "(define a 1)", "(channel/send s 1)", "(c16y-spin 300000 0)", "(define b 2)",
    "(channel/send s 1)", "(c16y-spin 300000 0)", "(#%gc-collect)", "(channel/send s 1)",
    "(thread-join! t)",
]
# blocking built-ins reached by a TAIL call THROUGH A VALUE (a parameter / captured variable holding the built-in,
# call-with-values consumer, a rest-parameter combinator the native tier skips): the interpreter's tail call of a
# built-in value must publish the thread at a safepoint like every other call of a blocking built-in
def value_tail_block_units(kind):
    pre = ("(define ch (channels/new)) (define s (channels-sender ch)) (define r (channels-receiver ch))\n"
           "(define (c16v-spin n acc) (if (= n 0) acc (c16v-spin (- n 1) (+ acc 1))))\n")
    if kind == "parameter":
        pre += "(define (call-on f x) (f x))\n(define (consume n acc) (if (= n 0) acc (consume (- n 1) (+ acc (call-on channel/recv r)))))"
    elif kind == "composed":
        pre += ("(define (compose2 g f) (lambda (x) (g (f x))))\n(define recv+0 (compose2 (lambda (v) (+ v 0)) channel/recv))\n"
                "(define (id-call f) (lambda (x) (f x)))\n(define recv* (id-call channel/recv))\n"
                "(define (consume n acc) (if (= n 0) acc (consume (- n 1) (+ acc (recv* r)))))")
    elif kind == "rest-combinator":
        pre += "(define (call-on* f . xs) (f (car xs)))\n(define (consume n acc) (if (= n 0) acc (consume (- n 1) (+ acc (call-on* channel/recv r)))))"
    elif kind == "apply":
        pre += "(define (consume n acc) (if (= n 0) acc (consume (- n 1) (+ acc (apply channel/recv (list r))))))"
    else:   # call-with-values consumer
        pre += "(define (consume n acc) (if (= n 0) acc (consume (- n 1) (+ acc (call-with-values (lambda () r) channel/recv)))))"
    return [pre, "(define t (spawn-native-thread (lambda () (consume 3 0))))",
            "(c16v-spin 300000 0)", "(define a 1)", "(channel/send s 1)", "(c16v-spin 300000 0)", "(define b 2)",
            "(channel/send s 1)", "(c16v-spin 300000 0)", "(#%gc-collect)", "(channel/send s 1)", "(thread-join! t)"]


def F18_DONE(v):
    """C16 is about progress: the program has to complete.  WHICH value main reads from the shared global afterwards is
    the business of C15 (visibility of assignments; its open exit-window finding makes main read a stale value in a
    few percent of the runs under load) - any answer of the final unit counts here."""
    return v == "'\"ok\"" or re.match(r"^I\d+$", v) is not None


CORPUS = [("blocking-recv-tail-called-through-a-parameter", value_tail_block_units("parameter"), lambda v: v == "I3"),
          ("blocking-recv-tail-called-through-a-captured-variable", value_tail_block_units("composed"), lambda v: v == "I3"),
          ("blocking-recv-tail-called-through-a-rest-combinator", value_tail_block_units("rest-combinator"), lambda v: v == "I3"),
          ("blocking-recv-as-call-with-values-consumer", value_tail_block_units("cwv"), lambda v: v == "I3"),
          ("blocking-recv-through-apply", value_tail_block_units("apply"), lambda v: v == "I3"),
          ("blocking-recv-tail-called-from-native-code", NATIVE_TAIL_BLOCK_UNITS, lambda v: v == "I3"),("F18-concurrent-global-updates", F18_UNITS, F18_DONE),
          ("F23-native-box-allocation-vs-collection", F23_UNITS, lambda v: v.count("done") == 6),
          ("blocking-recv-in-native-code", NATIVE_BLOCK_UNITS, lambda v: v == "I40")]


def run_parallel(jobs, fn, width):
    out = [None] * len(jobs)
    lock = threading.Lock()
    idx = [0]

    def work():
        while True:
            with lock:
                i = idx[0]
                idx[0] += 1
            if i >= len(jobs):
                return
            out[i] = fn(jobs[i])
    ts = [threading.Thread(target=work) for _ in range(width)]
    for t in ts:
        t.start()
    for t in ts:
        t.join()
    return out


def run(ck):
    ck.cov["trusted_base"] = [
        "Coq 8.16.1 kernel, coqc; vm_compute for the witnesses and the model runs",
        "hand-written model coq/c15/Model_C15.v of the safepoint handshake (vm.rs 463-953, 1776-1884, 4115-4136, 4621-4638; jit.rs 313-335, 639-650; threads.rs 1062-1151; closed.rs 2018-2049)",
        "translator in checks/c16.py (regular expressions over heap.lock / lock_arc / with_locked_env / steel_derive attributes), EXEMPT list of sites unreachable from script threads",
        "hook H3 (steel_vm/verif.rs): dispatch / safepoint / stop-the-world counters; watchdog harness/src/bin/c16.rs",
        "program renderers (spec -> Steel source, spec -> list (list act)) in checks/c16.py; the oracle in checks/c16.py",
        "OS scheduler assumed weakly fair; liveness on the real engine is observed with a time bound (45 s without any counter moving)",
    ]
    ck.assumptions = [
        "sequentially consistent atomics (the model interleaves whole loads/stores); weak-memory reorderings are outside the model",
        "crossbeam unbounded channels and JoinHandle::join behave as the abstract queues of the model",
        "make-thread / spawn-thread! (serialising API, forked_thread_handle path of call_per_ctx) are outside the model",
    ]
    # (G)
    sites = scan_sources()
    text, keep_guard, jit_box = gen_coq(*sites)
    ck.translate("Gen_C16", text)
    ck.cov["lock_sites"] = len(sites[0])
    ck.cov["lock_sites_outside_safepoint"] = [(s["file"], s["fn"]) for s in sites[0] if not s["safepoint"]]
    ck.cov["update_sites"] = len(sites[1])
    ck.cov["blocking_builtins"] = [b["name"] for b in sites[2]]
    ck.cov["native_funcv_call_paths_without_safepoint"] = sites[4]
    proved = ck.proof_stage(["c15", "c16"], ["c16/Properties_C16"], "c16/Pins_C16.v", extra_obligations=2)

    # (C)
    private_bin(ck)
    quick = ck.tier == "quick"
    width = 6 if quick else 8
    failing = 0
    # corpus first (the two repaired deadlocks + the native blocking call), both JIT modes
    jobs = [(name, units, pred, jit) for (name, units, pred) in CORPUS for jit in (True, False)]
    res = run_parallel(jobs, lambda j: run_engine(ck, j[1], j[3]), width)
    for (name, units, pred, jit), d in zip(jobs, res):
        ck.cov["evaluations"] += 1
        case = {"kind": "corpus", "name": name, "jit": jit, "units": units}
        ok = not d.get("hang") and "crash" not in d and d["res"] and "ok" in d["res"][-1] and pred(d["res"][-1]["ok"][-1])
        ck.sample({"name": name, "jit": jit, "wall_s": round(d["wall"], 1), "hang": bool(d.get("hang")),
                   "last": (d["res"][-1] if d.get("res") else None)})
        ab = abort_case(d, jit, units, ck)
        if ab:
            ck.failing_input("%s (JIT on): host aborted with a panic inside native code" % name, ab, tag="abort")
            continue
        et = None if ok else empty_table_case(ck, d, units, jit)
        if et:
            ck.failing_input("%s (JIT %s): a thread ran on the emptied global table (a global read as #<void>)" % (name, "on" if jit else "off"), et, tag="void")
            continue
        if not ok:
            failing += 1
            what = "hang" if d.get("hang") else ("crash rc=%s %s" % (d.get("crash"), d.get("stderr", "")) if "crash" in d else "wrong result")
            ck.failing_input("%s (JIT %s): %s: %s" % (name, "on" if jit else "off", what, json.dumps(d.get("hang") or d.get("res"))[:300]), case, tag="hang")
    # generated programs
    ncases = 24 if quick else 120
    specs = []
    for i in range(ncases):
        n = 1 + (i % 8) if not quick else ck.rng.choice([1, 2, 3, 4, 5, 6, 8])
        specs.append(gen_spec(ck.rng, n, 1 if quick else ck.rng.choice([1, 3])))
    jobs = [(i, sp, jit) for i, sp in enumerate(specs) for jit in (True, False)]
    t_gen = time.time()
    res = run_parallel(jobs, lambda j: run_engine(ck, render_steel(j[1]), j[2]), width)
    shapes = set()
    stw_total = 0
    for (i, sp, jit), d in zip(jobs, res):
        ck.cov["evaluations"] += 1
        ab = abort_case(d, jit, render_steel(sp), ck)
        if ab:
            ck.failing_input("generated program (JIT on): host aborted with a panic inside native code", ab, tag="abort")
            continue
        et = empty_table_case(ck, d, render_steel(sp), jit)
        if et:
            ck.failing_input("generated program (%d worker threads, JIT %s): a thread ran on the emptied global table (a global read as #<void>)"
                             % (sp["n"], "on" if jit else "off"), et, tag="void")
            continue
        fails = oracle(sp, d)
        # visibility of completed global updates is C15's statement (known spawn-window finding there), not C16's
        stale = [f for f in fails if f.startswith("STALE-GLOBAL")]
        fails = [f for f in fails if not f.startswith("STALE-GLOBAL")]
        ck.cov["stale_global_reads_seen_reported_under_C15"] = ck.cov.get("stale_global_reads_seen_reported_under_C15", 0) + len(stale)
        kinds = sorted({op[0] for ops in sp["threads"] for op in ops})
        stw = (d.get("progress") or {}).get("stw_finished", 0)
        scans = (d.get("progress") or {}).get("scans_finished", 0)
        stw_total += stw
        if sp["n"] >= 2 and scans >= 1:
            shapes.add((sp["n"], tuple(kinds), jit))
        if i < 2:
            ck.sample({"threads": sp["n"], "jit": jit, "ops": kinds, "wall_s": round(d["wall"], 1), "stw": stw, "scans": scans, "fails": fails})
        for f in fails[:2]:
            failing += 1
            ck.failing_input("generated program (%d worker threads, JIT %s): %s" % (sp["n"], "on" if jit else "off", f),
                             {"kind": "generated", "jit": jit, "spec": sp, "units": render_steel(sp), "fail": f}, tag="prog")
    ck.cov["engine_wall_s"] = round(time.time() - t_gen, 1)
    # the same abstract programs in the Coq model under a fair schedule: every one must complete, receive
    # every channel value per sender in order and deliver each join once
    exprs = []
    for sp in specs:
        term, size = coq_progs(sp)
        exprs.append("render_world (run_rr cfg_fixed %s %d)" % (term, 40 * size + 200))
    model = ck.coq_eval("From SV Require Import c15.Conc c15.Model_C15 c16.Model_C16.\nFrom Coq Require Import List String.\nImport ListNotations.", exprs, shard=4)
    for sp, m in zip(specs, model):
        ck.cov["evaluations"] += 1
        f = dict(kv.split("=", 1) for kv in m.split(";"))
        bad = []
        if f["done"] != "1":
            bad.append("model did not complete under %s" % m)
        per = {}
        for r in [x for x in f["recv"].split(",") if x]:
            c, s, v, t = map(int, r.split(":"))
            per.setdefault((c, s), []).append(v)
        for (c, s), vs in per.items():
            if vs != list(range(len(vs))):
                bad.append("model channel order %s" % vs)
        dl = [x.split(">")[1] for x in f["deliv"].split(",") if x]
        if len(set(dl)) != len(dl) or (f["done"] == "1" and len(dl) != sp["n"]):
            bad.append("model join deliveries %s" % dl)
        if f["stoppers"] != "0":
            bad.append("model left a stopper active")
        if bad:
            ck.violation("model/implementation correspondence: the engine completed this program but the model says: %s" % bad,
                         {"spec": sp, "model": m, "correspondence": "c15.Model_C15 (cfg_fixed) vs steel_vm/vm.rs"}, no_input=True, tag="corr")
    ck.cov["distinct_nontrivial"] = len(shapes)
    ck.cov["rule"] = ("generated programs: 1-8 worker threads + main, each a random sequence of compute / box allocation in "
                      "compiled code / vector allocation / #%gc-collect / global set! / mutex sections / channel send / recv "
                      "(direct, through map, through for-each) / joins by main or by another worker in random order, main "
                      "defining fresh globals between spawns; every program run with JIT on and off. distinct = distinct "
                      "(thread count, set of operation kinds, JIT mode); non-trivial = at least 2 threads and at least one "
                      "completed stack enumeration (collection) during the run, measured by hook H3")
    ck.cov["stop_the_world_sections_completed"] = stw_total
    ck.notes.append("hang detection: no hook counter (dispatches, safepoint exits, stop-the-world sections, stack enumerations) moved for 45 s, or 900 s wall; "
                    "typical case wall time is 0.5-5 s")
    if not proved and not ck.violations:
        # failing-input search when a proof / generated fact broke: the corpus programs exercise exactly the sites
        # the tables describe (global updates without the guard -> F18 script, bare native lock site -> F23 script);
        # they ran above with a generous bound — if they passed, report the broken obligation itself
        ck.unproved()


def replay(ck, path):
    obj = json.load(open(path))
    case = obj.get("case")
    if not case or "units" not in case:
        print(json.dumps(obj, indent=1)[:3000])
        return
    private_bin(ck)
    d = run_engine(ck, case["units"], case.get("jit", True))
    print("hang:", d.get("hang"), " last:", (d.get("res") or [None])[-1])
    if case.get("kind") == "generated":
        fails = oracle(case["spec"], d)
        for f in fails[:3]:
            ck.failing_input("replay: %s" % f, case, tag="prog")
    elif d.get("hang") or "crash" in d:
        ck.failing_input("replay: hang/crash %s" % json.dumps(d.get("hang"))[:200], case, tag="hang")
