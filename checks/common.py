"""Shared machinery for every property check (see DESIGN.md section 2).

A check module (checks/cNN.py) defines `run(ck)`; `bin/check` builds a Check object, calls it and
finishes with the verdict protocol of DESIGN.md 2.5:

  * ck.translate(...)        regenerate coq/gen/*.v from /repo (a translator that cannot find its
                             syntactic shape raises TieBroken)
  * ck.coq_make([...])       full .vo build of the property's targets (make, under flock + timeout)
  * ck.coq_pins(path)        compile the committed Pins_CNN.v *every run*: `Check (thm : stmt)` pins the
                             statement, `Print Assumptions thm` is parsed and held against the allow-list
  * ck.coq_eval(...)         run the model's executable definitions inside Coq (vm_compute), sharded
  * ck.harness_build()/run() build and run the Rust harness against /repo's current working tree
  * ck.violation(...) / ck.known(...) / ck.finish()
"""
import fcntl
import glob
import hashlib
import json
import os
import random
import re
import subprocess
import sys
import time

ROOT = os.path.dirname(os.path.dirname(os.path.abspath(__file__)))
REPO = os.environ.get("VERIF_REPO", "/repo")
COQ = os.path.join(ROOT, "coq")
CACHE = os.path.join(ROOT, ".cache")
WORK = os.path.join(CACHE, "work")
TARGET = os.path.join(CACHE, "target")
HARNESS = os.path.join(ROOT, "harness")
EVID = os.path.join(ROOT, "evidence")
REPLAYS = os.path.join(ROOT, "replays")
NPROC = int(os.environ.get("VERIF_JOBS", "16"))

# Axioms that may appear under `Print Assumptions` (all declared by the standard library or by
# libraries shipped with it); anything else fails the check.  Which theorem uses which is recorded in
# evidence on every run.
AXIOM_ALLOW = {
    "ClassicalDedekindReals.sig_not_dec",
    "ClassicalDedekindReals.sig_forall_dec",
    "FunctionalExtensionality.functional_extensionality_dep",
    "functional_extensionality_dep",
    "Classical_Prop.classic",
    "classic",
    "JMeq.JMeq_eq",
    "JMeq_eq",
    "Eqdep.Eq_rect_eq.eq_rect_eq",
    "ProofIrrelevance.proof_irrelevance",
    "proof_irrelevance",
    "PropExtensionality.propositional_extensionality",
}

FORBIDDEN = re.compile(
    r"\b(Admitted|admit|Axiom|Axioms|Parameter|Parameters|Conjecture|Conjectures|Abort All|"
    r"Unset Guard Checking|Unset Positivity Checking|Unset Universe Checking|bypass_check|"
    r"Admit Obligations|give_up)\b|type-in-type|impredicative-set")


class TieBroken(Exception):
    """A translator / generated fact / correspondence could not be established."""


def sh(cmd, timeout=600, env=None, cwd=None, stdin=None):
    e = dict(os.environ)
    e.setdefault("CARGO_NET_OFFLINE", "true")
    if env:
        e.update(env)
    try:
        p = subprocess.run(cmd, shell=isinstance(cmd, str), cwd=cwd, env=e, input=stdin,
                           stdout=subprocess.PIPE, stderr=subprocess.STDOUT, timeout=timeout,
                           text=True, errors="replace")
        return p.returncode, p.stdout
    except subprocess.TimeoutExpired as ex:
        out = ex.stdout or ""
        if isinstance(out, bytes):
            out = out.decode("utf-8", "replace")
        return 124, out + "\n[timeout after %ss]" % timeout


class Lock:
    def __init__(self, name):
        os.makedirs(CACHE, exist_ok=True)
        self.path = os.path.join(CACHE, name + ".lock")

    def __enter__(self):
        self.f = open(self.path, "w")
        fcntl.flock(self.f, fcntl.LOCK_EX)
        return self

    def __exit__(self, *a):
        fcntl.flock(self.f, fcntl.LOCK_UN)
        self.f.close()


def write_if_changed(path, content):
    os.makedirs(os.path.dirname(path), exist_ok=True)
    try:
        with open(path) as f:
            if f.read() == content:
                return False
    except FileNotFoundError:
        pass
    with open(path, "w") as f:
        f.write(content)
    return True


def coq_project():
    """(Re)write _CoqProject from the files present and make sure a Makefile exists."""
    files = sorted(p[len(COQ) + 1:] for p in glob.glob(os.path.join(COQ, "**", "*.v"), recursive=True)
                   if "/scratch/" not in p and not os.path.basename(p).startswith("Pins_"))
    content = "-R . SV\n-arg -w -arg -notation-overridden,-deprecated-hint-without-locality,-deprecated-instance-without-locality\n" + "\n".join(files) + "\n"
    changed = write_if_changed(os.path.join(COQ, "_CoqProject"), content)
    if changed or not os.path.exists(os.path.join(COQ, "Makefile")):
        rc, out = sh("coq_makefile -f _CoqProject -o Makefile", cwd=COQ, timeout=120)
        if rc != 0:
            raise RuntimeError("coq_makefile failed:\n" + out)


def coq_string(s):
    return '"' + s.replace('"', '""') + '"'


def parse_coq_string(s):
    s = s.strip()
    if s.endswith("%string"):
        s = s[:-7]
    assert s.startswith('"') and s.endswith('"'), s
    return s[1:-1].replace('""', '"')


class Check:
    def __init__(self, pid, tier, seed):
        self.pid = pid
        self.tier = tier
        self.seed = seed
        self.rng = random.Random(seed)
        self.t0 = time.time()
        self.violations = []      # (line, replay)
        self.known_hits = {}      # finding id -> text
        self.cov = {"evaluations": 0, "distinct_nontrivial": 0, "rule": "", "samples": [],
                    "obligations": 0, "discharged": 0, "checker_cmd": "", "trusted_base": [],
                    "axioms_by_theorem": {}, "theorems": [], "generated_facts": []}
        self.assumptions = []
        self.level = "proof"
        self.notes = []
        os.makedirs(WORK, exist_ok=True)
        os.makedirs(REPLAYS, exist_ok=True)
        self.work = os.path.join(WORK, pid)
        os.makedirs(self.work, exist_ok=True)
        self.findings = load_known(pid)

    # ------------------------------------------------------------------ logging
    def log(self, *a):
        print("[%s %6.1fs]" % (self.pid, time.time() - self.t0), *a, flush=True)

    # ------------------------------------------------------------------ replays / verdicts
    def write_replay(self, obj, tag=None):
        blob = json.dumps(obj, sort_keys=True, indent=1, default=str)
        h = hashlib.sha1(blob.encode()).hexdigest()[:10]
        path = os.path.join(REPLAYS, "%s-%s%s.json" % (self.pid, (tag + "-") if tag else "", h))
        with open(path, "w") as f:
            f.write(blob)
        return path

    def violation(self, what, replay_obj, no_input=False, tag=None):
        """Record a violation; replay_obj is written to replays/ and named on the VIOLATION line."""
        if len(self.violations) >= 25:
            return
        replay_obj = dict(replay_obj)
        replay_obj.setdefault("property", self.pid)
        replay_obj.setdefault("what", what)
        replay_obj.setdefault("seed", self.seed)
        path = self.write_replay(replay_obj, tag)
        line = "VIOLATION property=%s replay=%s" % (self.pid, path)
        if no_input:
            line += " no-failing-input-found"
        self.violations.append((line, what))
        self.log("violation:", what)

    def known(self, fid, text):
        """A failing input that falls in a class listed in known_findings.json."""
        if fid not in self.known_hits:
            self.known_hits[fid] = text

    def classify(self, case):
        """Return the id of the listed known finding whose decidable class contains `case`, else None."""
        import importlib
        from checks import known as K
        try:
            own = importlib.import_module("checks." + self.pid.lower())
        except Exception:
            own = None
        for f in self.findings:
            if f.get("status", "open") != "open":
                continue
            pred = getattr(own, f["class"]["predicate"], None) or getattr(K, f["class"]["predicate"], None)
            if pred is not None and pred(case, f["class"].get("params", {})):
                return f["id"]
        return None

    def failing_input(self, what, case, tag=None):
        """Verdict for one concrete failing input: known finding or violation."""
        fid = self.classify(case)
        if fid:
            f = [x for x in self.findings if x["id"] == fid][0]
            self.known(fid, f["description"])
            return fid
        self.violation(what, {"case": case}, tag=tag)
        return None

    # ------------------------------------------------------------------ Coq
    def translate(self, name, content):
        """Install a generated Coq file coq/gen/<name>.v (rewritten only when it changed)."""
        path = os.path.join(COQ, "gen", name + ".v")
        with Lock("coq"):
            ch = write_if_changed(path, content)
        self.cov["generated_facts"].append(name)
        return ch

    def coq_make(self, targets, timeout=1500):
        """Full .vo build of the given targets. Returns (ok, log)."""
        with Lock("coq"):
            coq_project()
            t = " ".join(x if x.endswith(".vo") else x + ".vo" for x in targets)
            rc, out = sh("timeout %d make -j%d %s" % (timeout, NPROC, t), cwd=COQ, timeout=timeout + 30)
        self.cov["checker_cmd"] = "coq_makefile -f _CoqProject -o Makefile && make -j%d %s ; coqc Pins_%s.v" % (NPROC, t, self.pid)
        if rc != 0:
            self.log("coq make failed rc=%s" % rc)
            tail = "\n".join(out.splitlines()[-40:])
            return False, tail
        return True, out

    def coq_audit_sources(self, dirs):
        """grep for forbidden vernacular in the sources of this property (comments stripped)."""
        bad = []
        for d in dirs:
            for p in sorted(glob.glob(os.path.join(COQ, d, "*.v"))):
                src = open(p).read()
                src = strip_coq_comments(src)
                depth = 0
                for i, line in enumerate(src.splitlines(), 1):
                    m = FORBIDDEN.search(line)
                    if m:
                        bad.append("%s:%d: %s" % (p, i, m.group(0)))
                    # Variable / Hypothesis / Context outside a Section (or Module) declares an axiom
                    l = line.strip()
                    if re.match(r"(Section|Module Type|Module)\s+(Import\s+|Export\s+)?\w+\s*\.", l):
                        depth += 1
                    elif re.match(r"End\s+\w+\s*\.", l):
                        depth = max(0, depth - 1)
                    elif depth == 0 and re.match(r"(Variable|Variables|Hypothesis|Hypotheses|Context)\b", l):
                        bad.append("%s:%d: %s outside a section" % (p, i, l.split()[0]))
        return bad

    def coq_pins(self, rel, timeout=600):
        """Compile the committed pin file (Check (thm : stmt). / Print Assumptions thm.) now.

        Returns dict(ok, theorems=[names], axioms={thm: [axioms]}, bad_axioms=[...], log)."""
        src_path = os.path.join(COQ, rel)
        src = open(src_path).read()
        names = re.findall(r"^Print Assumptions\s+([A-Za-z0-9_.']+)\s*\.", src, re.M)
        pinned = re.findall(r"^Check\s*\(\s*([A-Za-z0-9_.']+)\s*:", src, re.M)
        tmp = os.path.join(self.work, os.path.basename(rel))
        with open(tmp, "w") as f:
            f.write(src)
        with Lock("coq"):
            rc, out = sh("timeout %d coqc -noglob -R %s SV -w -notation-overridden %s" % (timeout, COQ, tmp),
                         cwd=self.work, timeout=timeout + 30)
        res = {"ok": rc == 0, "theorems": names, "pinned": pinned, "axioms": {}, "bad_axioms": [], "log": out[-3000:]}
        if rc != 0:
            return res
        # split output per Print Assumptions, in order
        chunks = re.split(r"(?m)^(?=Closed under the global context|Axioms:)", out)
        chunks = [c for c in chunks if c.startswith("Closed under") or c.startswith("Axioms:")]
        if len(chunks) != len(names):
            res["ok"] = False
            res["log"] = "could not match Print Assumptions output (%d chunks, %d names)\n%s" % (len(chunks), len(names), out[-2000:])
            return res
        for n, c in zip(names, chunks):
            if c.startswith("Closed under"):
                res["axioms"][n] = []
            else:
                ax = re.findall(r"(?m)^([A-Za-z_][A-Za-z0-9_.']*)\s*:", c)
                # primitive ints/floats are listed by Print Assumptions but are not axioms of ours
                ax = [a for a in ax if not re.match(r"(PrimInt63|PrimFloat|Uint63|Sint63|PArray)\b", a)]
                res["axioms"][n] = ax
                for a in ax:
                    if a not in AXIOM_ALLOW:
                        res["bad_axioms"].append("%s uses %s" % (n, a))
        return res

    def proof_stage(self, dirs, targets, pins_rel, extra_obligations=0):
        """Steps 1-2 of the verdict protocol. Returns True when every obligation is discharged.

        On failure the caller should run its failing-input search; if it finds nothing it calls
        ck.unproved(...)."""
        self.proof_failures = []
        bad = self.coq_audit_sources(dirs)
        if bad:
            self.proof_failures.append("forbidden vernacular: " + "; ".join(bad[:5]))
        ok, log = self.coq_make(targets)
        if not ok:
            m = re.findall(r'File "([^"]+)", line (\d+)', log)
            where = ("%s:%s" % m[-1]) if m else "?"
            self.proof_failures.append("coq build failed at %s\n%s" % (where, log[-1500:]))
            self.cov["obligations"] += extra_obligations + len(re.findall(r"^Print Assumptions", open(os.path.join(COQ, pins_rel)).read(), re.M))
            return False
        pins = self.coq_pins(pins_rel)
        n = len(pins["theorems"]) + extra_obligations
        self.cov["obligations"] += n
        self.cov["theorems"] = pins["theorems"]
        self.cov["axioms_by_theorem"] = {k: v for k, v in pins["axioms"].items() if v}
        if not pins["ok"]:
            self.proof_failures.append("pin file %s does not check:\n%s" % (pins_rel, pins["log"][-1500:]))
            return False
        if pins["bad_axioms"]:
            self.proof_failures.append("axioms outside the allow-list: " + "; ".join(pins["bad_axioms"]))
            return False
        unp = [t for t in pins["theorems"] if t not in pins["pinned"]]
        if unp:
            self.proof_failures.append("theorems without a pinned statement: " + ", ".join(unp))
            return False
        if bad:
            return False
        self.cov["discharged"] += n
        return True

    def unproved(self, which=None):
        """A proof obligation / generated fact broke and the search found no failing input."""
        self.violation("proof obligation no longer checks: " + (which or "; ".join(self.proof_failures))[:4000],
                       {"broken": which or self.proof_failures}, no_input=True, tag="unproved")

    def coq_eval(self, header, exprs, shard=400, timeout=900):
        """Evaluate Coq expressions of type `string` with vm_compute; returns list of python strings.

        header: vernacular (Require Import ...). Sharded over NPROC coqc processes."""
        if not exprs:
            return []
        if self.tier == "thorough":
            timeout = max(timeout, 5400)      # the limit is for all shards together
        shards = [exprs[i:i + shard] for i in range(0, len(exprs), shard)]
        procs = []
        outs = [None] * len(shards)
        base = "Set Printing Width 10000000.\nSet Printing Depth 10000000.\n"
        paths = []
        for si, sh_ in enumerate(shards):
            body = [header, base]
            for e in sh_:
                body.append("Eval vm_compute in (%s)." % e)
            p = os.path.join(self.work, "cases_%d.v" % si)
            with open(p, "w") as f:
                f.write("\n".join(body) + "\n")
            paths.append(p)
        # run at most NPROC at a time
        idx = 0
        running = []
        results = {}
        t_end = time.time() + timeout
        while idx < len(paths) or running:
            while idx < len(paths) and len(running) < NPROC:
                pr = subprocess.Popen(["coqc", "-noglob", "-R", COQ, "SV", "-w", "-notation-overridden", paths[idx]],
                                      cwd=self.work, stdout=subprocess.PIPE, stderr=subprocess.STDOUT, text=True)
                running.append((idx, pr))
                idx += 1
            still = []
            for i, pr in running:
                if pr.poll() is None:
                    if time.time() > t_end:
                        pr.kill()
                        results[i] = (124, "timeout")
                    else:
                        still.append((i, pr))
                else:
                    results[i] = (pr.returncode, pr.stdout.read())
            running = still
            if running:
                time.sleep(0.05)
        vals = []
        for si in range(len(paths)):
            rc, out = results[si]
            if rc != 0:
                raise TieBroken("model evaluation failed (shard %d): %s" % (si, out[-1500:]))
            got = [l.strip()[2:] for l in out.splitlines() if l.lstrip().startswith('= "')]
            if len(got) != len(shards[si]):
                raise TieBroken("model evaluation output mismatch: %d results for %d cases\n%s" % (len(got), len(shards[si]), out[-1000:]))
            vals.extend(parse_coq_string(g) for g in got)
        return vals

    # ------------------------------------------------------------------ Rust harness
    def harness_build(self, bins=None, timeout=3000, features=None):
        env = harness_env()
        cmd = "cargo build --offline --manifest-path %s/Cargo.toml" % HARNESS
        if bins:
            cmd += "".join(" --bin %s" % b for b in bins)
        with Lock("cargo"):
            rc, out = sh(cmd, env=env, timeout=timeout)
        if rc != 0:
            raise TieBroken("harness build against /repo failed:\n" + out[-3000:])
        return True

    def harness_bin(self, name):
        return os.path.join(TARGET, "debug", name)

    def harness_run(self, name, args=(), stdin=None, timeout=300, env=None):
        e = {"RUST_BACKTRACE": "0"}
        if env:
            e.update(env)
        return sh([self.harness_bin(name)] + list(args), stdin=stdin, timeout=timeout, env=e)

    def eval_cases(self, cases, prelude="", batch=300, timeout_per_batch=300, env=None, fresh=False,
                   binary="evalsrv", extra_args=()):
        """Run cases (each a list of source units) on the real engine in worker subprocesses.

        One JSON line per case goes to the worker, one comes back; a worker that dies or hangs loses
        only the case it was executing, which is reported as {"crash": signal} / {"hang": seconds},
        and a new worker carries on with the next case.  Returns a list (one entry per case) of lists
        of per-unit outcomes."""
        import threading
        pre = os.path.join(self.work, "prelude.scm")
        with open(pre, "w") as f:
            f.write(prelude)
        results = [None] * len(cases)
        chunks = [list(range(i, min(i + batch, len(cases)))) for i in range(0, len(cases), batch)]
        lock = threading.Lock()
        e = dict(os.environ)
        e["RUST_BACKTRACE"] = "0"
        if env:
            e.update(env)

        def work():
            while True:
                with lock:
                    if not chunks:
                        return
                    ids = chunks.pop(0)
                while ids:
                    p = subprocess.Popen([self.harness_bin(binary), "--prelude", pre] + list(extra_args),
                                         stdin=subprocess.PIPE, stdout=subprocess.PIPE,
                                         stderr=subprocess.DEVNULL, text=True, env=e)
                    payload = "".join(json.dumps({"id": i, "units": cases[i], "fresh": fresh}) + "\n" for i in ids)
                    killed = []

                    def kill():
                        killed.append(1)
                        p.kill()
                    tm = threading.Timer(timeout_per_batch, kill)
                    tm.start()
                    try:
                        out, _ = p.communicate(payload)
                    finally:
                        tm.cancel()
                    done = 0
                    parts = out.split("\n@@VERIF@@ ")
                    # parts[k] = <output of case k> ... ; parts[k+1] starts with the record of case k
                    for k in range(1, len(parts)):
                        rec, _, rest = parts[k].partition("\n")
                        try:
                            r = json.loads(rec)
                        except Exception:
                            break
                        prev = parts[k - 1]
                        if k - 1 > 0:
                            prev = prev.partition("\n")[2]
                        if prev:
                            r["res"].append({"out": prev})
                        results[r["id"]] = r["res"]
                        done += 1
                    if done < len(ids):
                        bad = ids[done]
                        results[bad] = [{"hang": timeout_per_batch} if killed else {"crash": p.returncode}]
                        ids = ids[done + 1:]
                    else:
                        ids = []

        ts = [threading.Thread(target=work) for _ in range(NPROC)]
        for t in ts:
            t.start()
        for t in ts:
            t.join()
        # The time limit is per batch: the case that was executing when a batch ran out of time is
        # only blamed after it has also used up the whole limit alone in a worker of its own.
        blamed = [i for i, r in enumerate(results) if r and isinstance(r[0], dict) and "hang" in r[0]]
        if blamed and not getattr(self, "_confirming_hang", False):
            self._confirming_hang = True
            try:
                again = self.eval_cases([cases[i] for i in blamed], prelude=prelude, batch=1,
                                        timeout_per_batch=timeout_per_batch, env=env, fresh=fresh,
                                        binary=binary, extra_args=extra_args)
            finally:
                self._confirming_hang = False
            for i, r in zip(blamed, again):
                results[i] = r
            self.cov["batch_timeouts_rechecked"] = self.cov.get("batch_timeouts_rechecked", 0) + len(blamed)
        return results

    # ------------------------------------------------------------------ evidence
    def sample(self, s, cap=6):
        if len(self.cov["samples"]) < cap:
            self.cov["samples"].append(s)

    def finish(self):
        wall = time.time() - self.t0
        ev = {
            "property_id": self.pid,
            "tier": self.tier,
            "seed": self.seed,
            "level": self.level,
            "coverage": self.cov,
            "assumptions": self.assumptions,
            "wall_s": round(wall, 2),
            "violations": len(self.violations),
            "known_findings_hit": sorted(self.known_hits),
            "notes": self.notes,
        }
        if not self.cov["samples"]:
            self.cov["samples"] = ["(no case reached the sampling stage)"]
        os.makedirs(EVID, exist_ok=True)
        with open(os.path.join(EVID, self.pid + ".json"), "w") as f:
            json.dump(ev, f, indent=1, sort_keys=True, default=str)
        for fid in sorted(self.known_hits):
            print("KNOWN-FINDING: property=%s %s: %s" % (self.pid, fid, self.known_hits[fid]))
        # listed findings that this run's inputs did not re-observe are still listed (they suppress nothing)
        if not getattr(self, "replay_mode", False):
            for f in load_known(self.pid):
                if f.get("status") == "open" and f.get("id") not in self.known_hits:
                    print("KNOWN-FINDING: property=%s %s: %s [listed; not re-observed by the inputs of this run]"
                          % (self.pid, f.get("id"), str(f.get("description", ""))[:300]))
        for line, _ in self.violations:
            print(line)
        self.log("done: %d violation(s), %d known finding(s), %.1fs" % (len(self.violations), len(self.known_hits), wall))
        return 1 if self.violations else 0


def strip_coq_comments(src):
    out = []
    depth = 0
    i = 0
    n = len(src)
    instr = False
    while i < n:
        c = src[i]
        if depth == 0 and c == '"':
            instr = not instr
            out.append(c)
            i += 1
            continue
        if not instr and src.startswith("(*", i):
            depth += 1
            i += 2
            continue
        if not instr and depth > 0 and src.startswith("*)", i):
            depth -= 1
            i += 2
            continue
        if depth == 0:
            out.append(c)
        elif c == "\n":
            out.append(c)
        i += 1
    return "".join(out)


def harness_env():
    return {
        "CARGO_TARGET_DIR": TARGET,
        "RUSTFLAGS": "--cfg steel_verif",
        "CARGO_NET_OFFLINE": "true",
        "CARGO_INCREMENTAL": "0",
    }


def load_known(pid):
    """Known findings for a property: known_findings.json plus known_findings.d/<pid>.json (same format)."""
    out = []
    for p in (os.path.join(ROOT, "known_findings.json"), os.path.join(ROOT, "known_findings.d", pid + ".json")):
        try:
            data = json.load(open(p))
        except FileNotFoundError:
            continue
        out.extend(f for f in data.get("findings", []) if f.get("property") == pid)
    return out


def repo_file(rel):
    p = os.path.join(REPO, rel)
    try:
        return open(p).read()
    except FileNotFoundError:
        raise TieBroken("source file %s not found" % rel)
