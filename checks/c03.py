"""C03 — immutable values never change: in-place update optimisation is unobservable
(DESIGN.md section 4, C03).

(P)  coq/c03: store of reference-counted immutable cells with ghost denotations; persistence under
     arbitrary operation sequences; in-place path needs exactly rc = 1; last-use checker soundness.
(G)  coq/gen/Gen_C03.v: primitives taking `&mut SteelVal` / `&mut [SteelVal]` and the in-place call
     sites (Gc::get_mut / make_mut / try_unwrap, im-lists *_mut) regenerated from /repo on every run,
     with a coverage lemma against the set the model / generator knows.
(C)  generated Steel programs build values, spread aliases through variables, closures, containers,
     a captured continuation and a second thread, then update them where each use is independently a
     last use or not; after every step aliases are rendered (deep-copied snapshots).  Oracle: python
     persistent values.  Both STEEL_JIT settings.  The bytecode of every generated program is
     disassembled and the last-use condition (no read of a slot after MOVEREADLOCAL before a write)
     is checked on it by the Coq-proved checker.
"""
import json
import os
import re
import subprocess

from checks import common
from checks.common import TieBroken

KEYS = list(range(6))

PRELUDE = r"""
(struct c03s (a b) #:transparent)
(define c03-keys (list 0 1 2 3 4 5))
(define (c03-snap v)
  (cond [(list? v) (map c03-snap v)]
        [(pair? v) (cons (c03-snap (car v)) (c03-snap (cdr v)))]
        [(hash? v) (list 101 (hash-length v)
                         (map (lambda (k) (let ((x (hash-try-get v k))) (if x (c03-snap x) #f))) c03-keys))]
        [(set? v) (list 103 (hashset-length v) (map (lambda (k) (hashset-contains? v k)) c03-keys))]
        [(vector? v) (list 102 (map c03-snap (vector->list v)))]
        [(string? v) (list 104 (map char->integer (string->list v)))]
        [(c03s? v) (list 105 (c03-snap (c03s-a v)) (c03-snap (c03s-b v)))]
        [else v]))
(define (c03-twice v upd)
  (let ((n (box 0)) (results (box '())))
    (let ((w v))
      (let ((k (call/cc (lambda (k) k))))
        (let ((r (upd w)))
          (set-box! results (cons (c03-snap r) (unbox results)))
          (if (< (unbox n) 2)
              (begin (set-box! n (+ 1 (unbox n))) (k k))
              (unbox results)))))))
(define (c03-id x) x)
(define (c03-cons9 l) (cons 9 l))
"""

# ---------------------------------------------------------------------------------------- values
# python persistent values: int | ("L", tuple) | ("V", tuple) | ("H", tuple of (k, v) sorted by k)
#                           | ("S", frozenset of int) | ("T", str) | ("P", a, b) | ("R", a, b)


def kind(v):
    return "I" if isinstance(v, int) else v[0]


def snap(v):
    """canonical rendering (harness `canon`) of (c03-snap v)"""
    k = kind(v)
    if k == "I":
        return "I%d" % v
    if k == "L":
        return "(" + " ".join(snap(x) for x in v[1]) + ")"
    if k == "P":
        return "(%s . %s)" % (snap(v[1]), snap(v[2]))
    if k == "H":
        d = dict(v[1])
        return "(I101 I%d (%s))" % (len(d), " ".join(snap(d[x]) if x in d else "#f" for x in KEYS))
    if k == "S":
        return "(I103 I%d (%s))" % (len(v[1]), " ".join("#t" if x in v[1] else "#f" for x in KEYS))
    if k == "V":
        return "(I102 (%s))" % " ".join(snap(x) for x in v[1])
    if k == "T":
        return "(I104 (%s))" % " ".join("I%d" % ord(c) for c in v[1])
    if k == "R":
        return "(I105 %s %s)" % (snap(v[1]), snap(v[2]))
    raise ValueError(k)


def hmk(d):
    return ("H", tuple(sorted(d.items())))


# ---------------------------------------------------------------------------------------- operations
# (name, operand kinds, builder(rng, operand exprs, operand values, helper) -> (expr, value) or None)
def op_table():
    T = []

    def elt(g):
        return g.rng.choice([0, 1, 2, 3, 7, 9])

    def add(name, kinds, f):
        T.append((name, kinds, f))

    # ---- lists (im-lists, 4-element chunks): cons_mut / rest_mut / append_mut / reverse / take ...
    add("cons", ["L"], lambda g, e, v: (lambda x: ("(cons %d %s)" % (x, e[0]), ("L", (x,) + v[0][1])))(elt(g)))
    add("cdr", ["L"], lambda g, e, v: ("(cdr %s)" % e[0], ("L", v[0][1][1:])) if v[0][1] else None)
    add("rest", ["L"], lambda g, e, v: ("(rest %s)" % e[0], ("L", v[0][1][1:])) if v[0][1] else None)
    add("cddr", ["L"], lambda g, e, v: ("(cdr (cdr %s))" % e[0], ("L", v[0][1][2:])) if len(v[0][1]) >= 2 else None)
    add("append", ["L", "L"], lambda g, e, v: ("(append %s %s)" % (e[0], e[1]), ("L", v[0][1] + v[1][1])))
    add("append1", ["L"], lambda g, e, v: (lambda x: ("(append %s (list %d))" % (e[0], x), ("L", v[0][1] + (x,))))(elt(g)))
    add("append-empty-l", ["L"], lambda g, e, v: ("(append (list) %s)" % e[0], v[0]))
    add("append-empty-r", ["L"], lambda g, e, v: ("(append %s (list))" % e[0], v[0]))
    add("append3", ["L", "L", "L"], lambda g, e, v: ("(append %s %s %s)" % tuple(e), ("L", v[0][1] + v[1][1] + v[2][1])))
    add("reverse", ["L"], lambda g, e, v: ("(reverse %s)" % e[0], ("L", v[0][1][::-1])))
    add("take", ["L"], lambda g, e, v: (lambda n: ("(take %s %d)" % (e[0], n), ("L", v[0][1][:n])))(g.rng.randint(0, len(v[0][1]))))
    add("list-drop", ["L"], lambda g, e, v: (lambda n: ("(list-drop %s %d)" % (e[0], n), ("L", v[0][1][n:])))(g.rng.randint(0, len(v[0][1]))))
    add("list-tail", ["L"], lambda g, e, v: (lambda n: ("(list-tail %s %d)" % (e[0], n), ("L", v[0][1][n:])))(g.rng.randint(0, len(v[0][1]))))
    add("push-back", ["L"], lambda g, e, v: (lambda x: ("(push-back %s %d)" % (e[0], x), ("L", v[0][1] + (x,))))(elt(g)))
    add("apply-list", ["L"], lambda g, e, v: (lambda x: ("(apply list %d %s)" % (x, e[0]), ("L", (x,) + v[0][1])))(elt(g)))
    add("cons-cdr", ["L"], lambda g, e, v: (lambda x: ("(cons %d (cdr %s))" % (x, e[0]), ("L", (x,) + v[0][1][1:])))(elt(g)) if v[0][1] else None)
    add("map", ["L"], lambda g, e, v: ("(map c03-id %s)" % e[0], v[0]))
    add("if-cons", ["L"], lambda g, e, v: ("(if (< (length %s) 3) (cons 0 %s) (cons 1 %s))" % (e[0], e[0], e[0]),
                                          ("L", ((0,) if len(v[0][1]) < 3 else (1,)) + v[0][1])))
    add("loop-cons", ["L"], lambda g, e, v: ("(let loop ((i 0) (acc %s)) (if (< i 3) (loop (+ i 1) (cons i acc)) acc))" % e[0],
                                            ("L", (2, 1, 0) + v[0][1])))
    add("loop-append", ["L"], lambda g, e, v: ("(let loop ((i 0) (acc %s)) (if (< i 2) (loop (+ i 1) (append acc (list i))) acc))" % e[0],
                                              ("L", v[0][1] + (0, 1))))
    add("cons-nest", ["L", "L"], lambda g, e, v: ("(cons %s %s)" % (e[0], e[1]), ("L", (v[0],) + v[1][1])))
    add("list->vec", ["L"], lambda g, e, v: ("(list->vector %s)" % e[0], ("V", v[0][1])))
    # ---- containers of persistent values consumed by higher-order / draining operations
    def all_lists(v):
        return len(v[1]) > 0 and all(kind(x) == "L" for x in v[1])
    add("nest3", ["L", "L"], lambda g, e, v: ("(list %s %s %s)" % (e[0], e[1], e[0]), ("L", (v[0], v[1], v[0]))))
    add("map-cons", ["L"], lambda g, e, v: ("(map (lambda (l) (cons 0 l)) %s)" % e[0],
                                           ("L", tuple(("L", (0,) + x[1]) for x in v[0][1]))) if all_lists(v[0]) else None)
    add("apply-append", ["L"], lambda g, e, v: ("(apply append %s)" % e[0],
                                               ("L", tuple(y for x in v[0][1] for y in x[1]))) if all_lists(v[0]) else None)
    add("foldl-append", ["L"], lambda g, e, v: ("(foldl (lambda (l acc) (append acc l)) (list) %s)" % e[0],
                                               ("L", tuple(y for x in v[0][1] for y in x[1]))) if all_lists(v[0]) else None)
    add("transduce-cons", ["L"], lambda g, e, v: ("(transduce %s (mapping (lambda (l) (cons 5 l))) (into-list))" % e[0],
                                                 ("L", tuple(("L", (5,) + x[1]) for x in v[0][1]))) if all_lists(v[0]) else None)
    add("car-nest", ["L"], lambda g, e, v: ("(car %s)" % e[0], v[0][1][0]) if all_lists(v[0]) else None)
    add("last-nest", ["L"], lambda g, e, v: ("(last %s)" % e[0], v[0][1][-1]) if all_lists(v[0]) else None)
    add("list-ref-nest", ["L"], lambda g, e, v: (lambda i: ("(list-ref %s %d)" % (e[0], i), v[0][1][i]))(g.rng.randrange(len(v[0][1]))) if all_lists(v[0]) else None)
    add("call-upd", ["L"], lambda g, e, v: ("(c03-cons9 %s)" % e[0], ("L", (9,) + v[0][1])))
    add("apply-upd", ["L"], lambda g, e, v: ("(apply c03-cons9 (list %s))" % e[0], ("L", (9,) + v[0][1])))
    # ---- pairs
    add("pair", ["L"], lambda g, e, v: (lambda x: ("(cons %s %d)" % (e[0], x), ("P", v[0], x)))(elt(g)))
    add("car-pair", ["P"], lambda g, e, v: ("(car %s)" % e[0], v[0][1]))
    # ---- immutable vectors (imbl Vector under Gc): Gc::get_mut arms
    add("ivec-push", ["V"], lambda g, e, v: (lambda x: ("(immutable-vector-push %s %d)" % (e[0], x), ("V", v[0][1] + (x,))))(elt(g)))
    add("ivec-push-front", ["V"], lambda g, e, v: (lambda x: ("(vector-push-front %s %d)" % (e[0], x), ("V", (x,) + v[0][1])))(elt(g)))
    add("ivec-set", ["V"], lambda g, e, v: (lambda i, x: ("(immutable-vector-set %s %d %d)" % (e[0], i, x),
                                                         ("V", v[0][1][:i] + (x,) + v[0][1][i + 1:])))(g.rng.randrange(len(v[0][1])), elt(g)) if v[0][1] else None)
    add("ivec-take", ["V"], lambda g, e, v: (lambda n: ("(immutable-vector-take %s %d)" % (e[0], n), ("V", v[0][1][:n])))(g.rng.randint(0, len(v[0][1]))))
    add("ivec-drop", ["V"], lambda g, e, v: (lambda n: ("(immutable-vector-drop %s %d)" % (e[0], n), ("V", v[0][1][n:])))(g.rng.randint(0, len(v[0][1]))))
    add("ivec-rest", ["V"], lambda g, e, v: ("(immutable-vector-rest %s)" % e[0], ("V", v[0][1][1:])))
    add("vec->list", ["V"], lambda g, e, v: ("(vector->list %s)" % e[0], ("L", v[0][1])))
    add("ivec-push-nest", ["V", "L"], lambda g, e, v: ("(immutable-vector-push %s %s)" % (e[0], e[1]), ("V", v[0][1] + (v[1],))))
    # ---- hash maps (imbl HashMap under Gc): Gc::get_mut
    add("hash-insert", ["H"], lambda g, e, v: (lambda k, x: ("(hash-insert %s %d %d)" % (e[0], k, x), hmk({**dict(v[0][1]), k: x})))(g.rng.choice(KEYS), elt(g)))
    add("hash-insert-nest", ["H", "L"], lambda g, e, v: (lambda k: ("(hash-insert %s %d %s)" % (e[0], k, e[1]), hmk({**dict(v[0][1]), k: v[1]})))(g.rng.choice(KEYS)))
    add("hash-remove", ["H"], lambda g, e, v: (lambda k: ("(hash-remove %s %d)" % (e[0], k), hmk({a: b for a, b in v[0][1] if a != k})))(g.rng.choice(KEYS)))
    add("hash-clear", ["H"], lambda g, e, v: ("(hash-clear %s)" % e[0], hmk({})))
    add("hash-union", ["H", "H"], lambda g, e, v: ("(hash-union %s %s)" % (e[0], e[1]), hmk({**dict(v[1][1]), **dict(v[0][1])})))
    # ---- hash sets
    add("hashset-insert", ["S"], lambda g, e, v: (lambda k: ("(hashset-insert %s %d)" % (e[0], k), ("S", v[0][1] | {k})))(g.rng.choice(KEYS)))
    add("hashset-clear", ["S"], lambda g, e, v: ("(hashset-clear %s)" % e[0], ("S", frozenset())))
    # ---- strings (Gc::make_mut)
    add("string-push", ["T"], lambda g, e, v: (lambda s: ('(string-push %s "%s")' % (e[0], s), ("T", v[0][1] + s)))(g.rng.choice(["a", "xy", ""])))
    add("string-append", ["T", "T"], lambda g, e, v: ("(string-append %s %s)" % (e[0], e[1]), ("T", v[0][1] + v[1][1])))
    # ---- structs (immutable fields)
    add("struct", ["L"], lambda g, e, v: (lambda x: ("(c03s %s %d)" % (e[0], x), ("R", v[0], x)))(elt(g)))
    add("struct-a", ["R"], lambda g, e, v: ("(c03s-a %s)" % e[0], v[0][1]))
    return T


OPS = op_table()
# in-place capable primitives the generator exercises (names as registered); Gen_C03 coverage is against this
KNOWN_INPLACE_PRIMS = ["hash-remove", "hash-insert", "hash-clear", "hash-union", "hashset-insert", "hashset-clear",
                       "#%const-list", "cons", "reverse", "cdr", "rest", "append", "string-push",
                       "immutable-vector-rest", "immutable-vector-push", "vector-push-front", "immutable-vector-set",
                       "immutable-vector-take", "immutable-vector-drop",
                       # declared with #[function] but not registered in any module (FreeIdentifier in scripts):
                       "immutable-vector-pop-back", "vector-push"]


class Gen:
    def __init__(self, rng, p_last):
        self.rng = rng
        self.p_last = p_last
        self.binds = []          # (name, expr)
        self.live = []           # records {name, access, value}
        self.expected = []       # (obs name, expected canonical string)
        self.threads = []        # (name, expected snap)
        self.n = 0
        self.ops_used = []

    def fresh(self, p="n"):
        self.n += 1
        return "%s%d" % (p, self.n)

    def bind(self, expr, p="n"):
        nm = self.fresh(p)
        self.binds.append((nm, expr))
        return nm

    def add_val(self, expr, value):
        nm = self.bind(expr)
        self.live.append({"name": nm, "access": nm, "value": value})
        return nm

    def use(self, rec):
        """mention a live name; with probability p_last this is its last mention"""
        if self.rng.random() < self.p_last:
            self.live = [r for r in self.live if r is not rec]
            self.ops_used.append("last-use")
        return rec["access"]

    def pick(self, k=None):
        c = [r for r in self.live if k is None or kind(r["value"]) == k]
        return self.rng.choice(c) if c else None

    # ---- steps
    def build(self):
        rng = self.rng
        k = rng.choice(["L", "L", "L", "V", "H", "S", "T"])
        if k == "L":
            n = rng.choice([0, 1, 3, 4, 5, 6, 8, 9, 12])
            xs = tuple(rng.choice([0, 1, 2, 3, 4, 5, 6, 7, 8, 9]) for _ in range(n))
            if n <= 8 and rng.random() < 0.7:
                e = "(list%s)" % "".join(" %d" % x for x in xs)
            else:   # longer lists: several storage chunks (the JIT miscompiles calls with 9+ arguments, see report)
                cut = rng.choice([n // 2, min(4, n), min(1, n), 0])     # a short first part leaves an over-full first chunk
                e = "(append (list%s) (list%s))" % ("".join(" %d" % x for x in xs[:cut]), "".join(" %d" % x for x in xs[cut:cut + 8]))
                xs = xs[:cut + 8]
            return self.add_val(e, ("L", xs))
        if k == "V":
            xs = tuple(rng.choice(range(10)) for _ in range(rng.choice([0, 1, 3, 5, 8])))
            return self.add_val("(immutable-vector%s)" % "".join(" %d" % x for x in xs), ("V", xs))
        if k == "H":
            d = {rng.choice(KEYS): rng.choice(range(10)) for _ in range(rng.choice([0, 1, 2, 4]))}
            return self.add_val("(hash%s)" % "".join(" %d %d" % kv for kv in d.items()), hmk(d))
        if k == "S":
            s = frozenset(rng.choice(KEYS) for _ in range(rng.choice([0, 1, 3])))
            return self.add_val("(hashset%s)" % "".join(" %d" % x for x in sorted(s)), ("S", s))
        s = rng.choice(["", "a", "abc", "hello"])
        return self.add_val('(string-append "%s" "")' % s if rng.random() < 0.3 else '"%s"' % s, ("T", s))

    def alias(self):
        r = self.pick()
        if not r:
            return
        v = r["value"]
        how = self.rng.choice(["var", "closure", "list", "mvec", "hash", "box", "struct", "id"])
        e = self.use(r)
        if how == "var":
            self.add_val(e, v)
        elif how == "id":
            self.add_val("(c03-id %s)" % e, v)
        else:
            nm = self.bind({"closure": "(lambda () %s)", "list": "(list %s 1)", "mvec": "(vector %s)",
                            "hash": "(hash 0 %s)", "box": "(box %s)", "struct": "(c03s %s 0)"}[how] % e)
            acc = {"closure": "(%s)", "list": "(car %s)", "mvec": "(vector-ref %s 0)", "hash": "(hash-ref %s 0)",
                   "box": "(unbox %s)", "struct": "(c03s-a %s)"}[how] % nm
            self.live.append({"name": nm, "access": acc, "value": v})
        self.ops_used.append("alias-" + how)

    def update(self, wrap=None):
        for _ in range(20):
            name, kinds, f = self.rng.choice(OPS)
            recs = [self.pick(k) for k in kinds]
            if any(r is None for r in recs):
                continue
            vals = [r["value"] for r in recs]
            # mention each operand; an operand record may occur twice (same object on both sides)
            exprs = []
            for i, r in enumerate(recs):
                later = any(r is r2 for r2 in recs[i + 1:])
                exprs.append(r["access"] if later else (self.use(r) if any(r is x for x in self.live) else r["access"]))
            res = f(self, exprs, vals)
            if res is None:
                continue
            self.ops_used.append(name)
            return res
        return None

    def step_update(self):
        res = self.update()
        if res:
            self.add_val(res[0], res[1])

    def step_twice(self):
        r = self.pick()
        if not r:
            return
        # the update is applied to the parameter w of a fresh lambda; w's use there is a last use
        saved_live, saved_p = self.live, self.p_last
        self.live = [{"name": "w", "access": "w", "value": r["value"]}]
        self.p_last = 0.0
        res = self.update()
        self.live, self.p_last = saved_live, saved_p
        if not res:
            return
        e = self.use(r)
        nm = self.bind("(c03-twice %s (lambda (w) %s))" % (e, res[0]), "o")
        s = snap(res[1])
        self.expected.append((nm, "(%s %s %s)" % (s, s, s)))
        self.ops_used.append("continuation")

    def step_thread(self):
        r = self.pick()
        if not r:
            return
        saved_live, saved_p = self.live, self.p_last
        self.live = [{"name": r["name"], "access": r["access"], "value": r["value"]}]
        self.p_last = 0.0
        res = self.update()
        self.live, self.p_last = saved_live, saved_p
        if not res:
            return
        if self.rng.random() < self.p_last:
            self.live = [x for x in self.live if x is not r]
        nm = self.bind("(spawn-native-thread (lambda () (c03-snap %s)))" % res[0], "t")
        self.threads.append((nm, snap(res[1])))
        self.ops_used.append("thread")

    def step_join(self):
        if not self.threads:
            return
        nm, s = self.threads.pop(self.rng.randrange(len(self.threads)))
        o = self.bind("(thread-join! %s)" % nm, "o")
        self.expected.append((o, s))

    def step_observe(self, everything=False):
        recs = list(self.live) if everything else [r for r in self.live if self.rng.random() < 0.5]
        if not recs:
            return
        parts = []
        exp = []
        for r in recs:
            parts.append("(c03-snap %s)" % (r["access"] if everything else self.use(r)))
            exp.append(snap(r["value"]))
        o = self.bind("(list %s)" % " ".join(parts), "o")
        self.expected.append((o, "(" + " ".join(exp) + ")"))


def gen_program(rng, with_threads):
    g = Gen(rng, rng.choice([0.0, 0.2, 0.5, 0.8]))
    g.build()
    for _ in range(rng.choice([4, 6, 9, 12])):
        r = rng.random()
        if r < 0.12:
            g.build()
        elif r < 0.32:
            g.alias()
        elif r < 0.72:
            g.step_update()
        elif r < 0.80:
            g.step_twice()
        elif r < 0.86 and with_threads:
            g.step_thread()
        elif r < 0.90:
            g.step_join()
        else:
            g.step_observe()
    while g.threads:
        g.step_join()
    g.step_observe(everything=True)
    body = "(let* (%s) (list %s))" % (" ".join("(%s %s)" % b for b in g.binds), " ".join(o for o, _ in g.expected))
    want = "(" + " ".join(s for _, s in g.expected) + ")"
    return {"body": body, "want": want, "ops": sorted(set(g.ops_used)), "p_last": g.p_last, "threads": with_threads}


def sources(case, shape):
    if shape == "fn":       # locals are stack slots of a procedure: MOVEREADLOCAL applies
        return ["(define (c03-main) %s)" % case["body"], "(c03-main)"]
    return [case["body"]]   # top level let*


CORPUS = [
    # /repo fix (this check): (append '() l) with an over-full first chunk had an empty head cell
    {"body": "(let* ((n1 (append (list 1 2 3 4) (list 5 6 7 8 9))) (n2 (list)) (n3 (append n2 n1)) (n4 (foldl (lambda (l acc) (append acc l)) (list) (list n1 n1))) (o1 (list (c03-snap n1) (c03-snap n3) (c03-snap n4) (car n3) (null? n3)))) (list o1))",
     "want": "(((I1 I2 I3 I4 I5 I6 I7 I8 I9) (I1 I2 I3 I4 I5 I6 I7 I8 I9) (I1 I2 I3 I4 I5 I6 I7 I8 I9 I1 I2 I3 I4 I5 I6 I7 I8 I9) I1 #f))",
     "ops": ["corpus-append-empty"], "p_last": 0, "threads": False},
    # /repo ae567a32 (fixed by the coordinator): List::cons pushed onto the shared chunk after cdr
    {"body": "(let* ((n1 (list 9 -6 4)) (n2 (apply list 0 (cdr n1))) (o1 (list (c03-snap n1) (c03-snap n2)))) (list o1))",
     "want": "(((I9 I-6 I4) (I0 I-6 I4)))", "ops": ["corpus-apply-list-cdr"], "p_last": 0, "threads": False},
    {"body": "(let* ((n1 (list 1 2 3 4 5 6)) (n2 (cdr n1)) (n3 (cons 0 n2)) (n4 (cons 9 n2)) (o1 (list (c03-snap n1) (c03-snap n3) (c03-snap n4)))) (list o1))",
     "want": "(((I1 I2 I3 I4 I5 I6) (I0 I2 I3 I4 I5 I6) (I9 I2 I3 I4 I5 I6)))", "ops": ["corpus-cons-cdr"], "p_last": 0, "threads": False},
]


# ---------------------------------------------------------------------------------------- bytecode: last-use
READS = re.compile(r"^(MOVE)?READLOCAL\d?$")


def parse_dis(lines):
    ins = []
    for l in lines:
        for row in l.split("\n"):
            m = re.match(r"^(\d+)\s+(\S+)\s*:\s*(\d+)\s*(.*)$", row)
            if m:
                ins.append((m.group(2), int(m.group(3)), m.group(4).strip()))
    return ins


def to_structured(ins):
    """Decode one compiled expression into the structured slot code of coq/c03 (trusted decoder):
    list of functions, each a tree  R k | M k | W k | End n | If(then, else).  Jump offsets are relative to
    the body start of the enclosing function."""
    funcs = []
    dead = []

    def captures_used(start, stop):
        """indices of the captures a closure body [start, stop) reads: READCAPTURED j at its own level,
        COPYCAPTURECLOSURE j in the headers of its direct child closures"""
        used = set()
        depth = 0
        i = start
        while i < stop:
            op, pay, _ = ins[i]
            if op in ("SCLOSURE", "NEWSCLOSURE", "PUREFUNC"):
                depth += 1
                # header of a direct child: its COPYCAPTURECLOSURE payloads index OUR captures
                if depth == 1:
                    h = i + 1
                    while ins[h][0] == "PASS":
                        h += 1
                    if ins[h][0] == "NDEFS":
                        for c in range(h + 1, h + 1 + ins[h][1]):
                            if ins[c][0] in ("COPYCAPTURECLOSURE", "COPYHEAPCAPTURECLOSURE", "FIRSTCOPYHEAPCAPTURECLOSURE"):
                                used.add(ins[c][1])
            elif op == "ECLOSURE":
                depth -= 1
            elif depth == 0 and op == "READCAPTURED":
                used.add(pay)
            i += 1
        return used

    def body(start, stop, base):
        """instructions [start, stop) of one function body -> tree"""
        out = []
        i = start
        while i < stop:
            op, pay, _ = ins[i]
            if op in ("SCLOSURE", "NEWSCLOSURE", "PUREFUNC"):
                # nested function: header (PASS PASS [NDEFS n + n capture instrs]) then body up to matching ECLOSURE
                depth, j = 1, i + 1
                while depth:
                    if ins[j][0] in ("SCLOSURE", "NEWSCLOSURE", "PUREFUNC"):
                        depth += 1
                    elif ins[j][0] == "ECLOSURE":
                        depth -= 1
                    j += 1
                h = i + 1
                while ins[h][0] == "PASS":
                    h += 1
                if ins[h][0] == "NDEFS":
                    n = ins[h][1]
                    used = captures_used(h + 1 + n, j - 1)
                    for c in range(h + 1, h + 1 + n):
                        if ins[c][0] == "COPYCAPTURESTACK":
                            if (c - h - 1) in used:
                                out.append(("R", ins[c][1]))      # reads a slot of the enclosing frame
                            else:
                                # the closure body never reads this capture (the compiler over-approximates
                                # free variables): copying a vacated slot into it is unobservable
                                dead.append(ins[c][1])
                    h = h + 1 + n
                funcs.append(body(h, j - 1, h))
                i = j
                continue
            if READS.match(op):
                out.append(("M" if op.startswith("MOVE") else "R", pay))
            elif op in ("READLOCAL0CALLGLOBAL", "READLOCAL1CALLGLOBAL"):
                out.append(("R", 0 if "0" in op else 1))
            elif op == "SETLOCAL":
                out.append(("W", pay))
            elif op == "LETENDSCOPE":
                out.append(("End", pay))
            elif op in ("TCOJMP", "SELFTAILCALLNOARITY"):
                out.append(("End", 0))           # rebinds every argument slot and restarts the body
            elif op == "IF":
                els = base + pay
                # then-branch = [i+1, els); it ends with JMP/POPJMP to the join point (or a tail call)
                join = els
                k = els - 1
                if ins[k][0] in ("JMP", "POPJMP") and base + ins[k][1] >= els:
                    join = base + ins[k][1]
                    then = body(i + 1, k, base)
                else:
                    then = body(i + 1, els, base)
                join = min(join, stop)
                out.append(("If", then, body(els, join, base)))
                i = join
                continue
            elif op in ("JMP", "POPJMP"):
                raise TieBroken("unstructured jump at %d in generated bytecode" % i)
            i += 1
        return out

    top = body(0, len(ins), 0)
    funcs.append(top)
    to_structured.dead_captures = dead
    return funcs


def check_last_use(tree, moved=frozenset()):
    """python mirror of coq/c03 `check` (used for diagnostics; the verdict comes from Coq)"""
    for t in tree:
        if t[0] == "R":
            if t[1] in moved:
                return None
        elif t[0] == "M":
            if t[1] in moved:
                return None
            moved = moved | {t[1]}
        elif t[0] == "W":
            moved = moved - {t[1]}
        elif t[0] == "End":
            moved = frozenset(k for k in moved if k < t[1])
        else:
            a = check_last_use(t[1], moved)
            b = check_last_use(t[2], moved)
            if a is None or b is None:
                return None
            moved = a | b
    return moved


def coq_tree(tree):
    def one(t):
        if t[0] == "R":
            return "IRead %d" % t[1]
        if t[0] == "M":
            return "IMove %d" % t[1]
        if t[0] == "W":
            return "IWrite %d" % t[1]
        if t[0] == "End":
            return "IEnd %d" % t[1]
        return "IIf %s %s" % (coq_tree(t[1]), coq_tree(t[2]))
    return "[" + "; ".join(one(t) for t in tree) + "]"


def disassemble(ck, srcs):
    pre = os.path.join(ck.work, "prelude_dis.scm")
    with open(pre, "w") as f:
        f.write(PRELUDE)
    payload = "".join(json.dumps({"id": i, "src": s}) + "\n" for i, s in enumerate(srcs))
    rc, out = common.sh([ck.harness_bin("c03dis"), "--prelude", pre], stdin=payload, timeout=600)
    res = [None] * len(srcs)
    for l in out.splitlines():
        if l.startswith("@@C03@@ "):
            r = json.loads(l[8:])
            res[r["id"]] = r
    if any(r is None for r in res):
        raise TieBroken("c03dis did not answer for every program (rc %s): %s" % (rc, out[-500:]))
    return res


# ---------------------------------------------------------------------------------------- generated facts
PRIM_FILES = ["hashmaps.rs", "hashsets.rs", "lists.rs", "strings.rs", "vectors.rs", "bytevectors.rs", "ports.rs",
              "numbers.rs", "symbols.rs", "control.rs", "meta_ops.rs", "nums.rs", "fs.rs", "io.rs", "time.rs",
              "process.rs", "random.rs", "transducers.rs", "utils.rs", "streams.rs", "hashes.rs", "http.rs", "tcp.rs"]


def scan_inplace():
    """(primitives registered with &mut SteelVal / &mut [SteelVal] parameters, in-place call sites)"""
    base = os.path.join(common.REPO, "crates/steel-core/src")
    prims = []
    sites = []
    pdir = os.path.join(base, "primitives")
    files = sorted(f for f in os.listdir(pdir) if f.endswith(".rs"))
    files = [os.path.join("primitives", f) for f in files] + ["steel_vm/primitives.rs"]
    found_any = False
    for rel in files:
        try:
            src = open(os.path.join(base, rel)).read()
        except FileNotFoundError:
            continue
        lines = src.splitlines()
        for i, l in enumerate(lines):
            if l.lstrip().startswith("//"):
                continue
            m = re.match(r"\s*(?:pub(?:\(crate\))?\s+)?(?:unsafe\s+)?fn\s+(\w+)\s*\(", l)
            if m:
                # signature may span lines: collect to the closing ')' of the parameter list
                sig = l
                j = i
                while ")" not in sig.split("(", 1)[1] and j + 1 < len(lines):
                    j += 1
                    sig += " " + lines[j].strip()
                if "&mut SteelVal" in sig or "&mut [SteelVal]" in sig:
                    # the attribute with the registered name sits above (skipping doc comments)
                    name = None
                    k = i - 1
                    while k >= 0 and (lines[k].strip().startswith("#[") or lines[k].strip().startswith("///") or not lines[k].strip()):
                        mm = re.search(r'#\[(?:steel_derive::)?(?:function|native_mut|native|context)\((?:[^)]*?)name\s*=\s*"([^"]+)"', lines[k])
                        if mm:
                            name = mm.group(1)
                            break
                        if not lines[k].strip():
                            break
                        k -= 1
                    prims.append((rel, m.group(1), name))
                    found_any = True
            for pat in ("Gc::get_mut(", "Gc::make_mut(", "Gc::try_unwrap(", ".try_unwrap()", ".cons_mut(", ".append_mut(",
                        ".rest_mut(", ".cdr_mut(", ".push_back(", ".make_mut("):
                if pat in l and not l.lstrip().startswith("//"):
                    sites.append((rel, pat.strip(".("), i + 1))
    if not found_any:
        raise TieBroken("no primitive with a &mut SteelVal parameter found: the signature shape changed")
    return prims, sites


def gen_facts(ck):
    prims, sites = scan_inplace()
    reg = sorted({n for _, _, n in prims if n})
    unreg = sorted({f for _, f, n in prims if not n})
    site_fns = {}
    for rel, pat, line in sites:
        site_fns.setdefault((rel, pat), []).append(line)
    cs = lambda s: '"' + s.replace('"', '""') + '"'
    txt = ["(* GENERATED by checks/c03.py from /repo/crates/steel-core/src/primitives/*.rs - do not edit. *)",
           "From Coq Require Import List String Bool.", "Import ListNotations.", "Open Scope string_scope.", "",
           "(* primitives registered under a name whose Rust signature takes `&mut SteelVal` / `&mut [SteelVal]`:",
           "   the VM hands them the argument slots themselves, so they may consume / mutate in place *)",
           "Definition inplace_prims : list string := [%s]." % "; ".join(cs(n) for n in reg), "",
           "(* functions with such a signature that carry no registration attribute (helpers / dead code) *)",
           "Definition inplace_unregistered_fns : list string := [%s]." % "; ".join(cs(n) for n in unreg), "",
           "(* uniqueness-test / in-place call sites per file: (file, call, number of sites) *)",
           "Definition inplace_sites : list (string * string * nat) := [%s]." % "; ".join(
               "(%s, %s, %d)" % (cs(rel), cs(pat), len(ls)) for (rel, pat), ls in sorted(site_fns.items())), ""]
    ck.translate("Gen_C03", "\n".join(txt) + "\n")
    ck.cov["inplace_prims"] = reg
    ck.cov["inplace_sites"] = {"%s:%s" % k: len(v) for k, v in sorted(site_fns.items())}
    return reg, unreg, site_fns


# ---------------------------------------------------------------------------------------- mechanism probe
PROBES = [("(hash 1 2)", "(hash-insert m 3 4)"), ("(hash 1 2)", "(hash-remove m 1)"), ("(hash 1 2)", "(hash-clear m)"),
          ("(hashset 1 2)", "(hashset-insert m 3)"),
          ("(immutable-vector 1 2 3)", "(immutable-vector-push m 4)"), ("(immutable-vector 1 2 3)", "(immutable-vector-set m 0 4)"),
          ("(immutable-vector 1 2 3)", "(vector-push-front m 4)"), ("(immutable-vector 1 2 3)", "(immutable-vector-rest m)"),
          ("(immutable-vector 1 2 3)", "(immutable-vector-take m 2)"), ("(immutable-vector 1 2 3)", "(immutable-vector-drop m 1)"),
          ("(list 1 2 3 4 5 6)", "(cons 0 m)"), ("(list 1 2 3 4 5 6)", "(cdr m)"), ("(list 1 2 3 4 5 6)", "(append m (list 1))"),
          ('(string-append "ab" "c")', '(string-push m "d")')]


def mechanism_probe(ck):
    """The model's dynamic claim on the real engine, through the hook gc.rs verif_hooks (counts the answers of
    Gc::get_mut / make_mut): when the argument of an in-place capable primitive is at its last use, no
    uniqueness test answers `shared` (the update is done in place); when an alias is kept, some do (copy)."""
    units = []
    for i, (c, u) in enumerate(PROBES):
        units.append(["(define (c03pa%d) (let ((m %s)) %s))" % (i, c, u),
                      "(define (c03pb%d) (let ((m %s)) (list %s m)))" % (i, c, u)])
        for k in "ab":
            units.append(["(let loop ((i 0)) (if (< i 50) (begin (c03p%s%d) (loop (+ i 1))) i))" % (k, i)])
    res = ck.eval_cases(units, prelude=PRELUDE, env={"STEEL_JIT": "false"}, batch=len(units), binary="c03run")
    table = {}
    for i, (c, u) in enumerate(PROBES):
        a = [x["gm"] for x in res[3 * i + 1] if "gm" in x]
        b = [x["gm"] for x in res[3 * i + 2] if "gm" in x]
        if not a or not b:
            raise TieBroken("mechanism probe produced no get_mut counts for %s" % u)
        table[u] = {"last_use": a[0], "alias_kept": b[0]}
        # (append m (list 1)) clones its second argument, whose cell is therefore shared: `shared` answers at the
        # last use of m are not zero there, only fewer than with an alias of m alive
        if a[0][0] < 50 or not a[0][1] < b[0][1] or (a[0][1] != 0 and not u.startswith("(append")):
            ck.violation("mechanism probe: %s: last use of the argument -> unique %d / shared %d answers, alias kept -> "
                         "unique %d / shared %d (50 calls each): `sole reference => in place, alias => copy` no longer "
                         "describes the code" % (u, a[0][0], a[0][1], b[0][0], b[0][1]),
                         {"probe": u, "counts": table[u]}, no_input=True, tag="mech")
    ck.cov["mechanism_probe"] = table


# ---------------------------------------------------------------------------------------- running
def outcome(res):
    res = [x for x in (res or []) if "gm" not in x and "out" not in x]
    if not res:
        return "MISSING"
    r = res[-1]
    if "ok" in r:
        return r["ok"][-1] if r["ok"] else "<none>"
    if "err" in r:
        return "E:%s %s" % (r["err"], r.get("msg", "")[:120])
    if "crash" in r:
        return "CRASH:%s" % r["crash"]
    if "hang" in r:
        return "HANG"
    return "P:" + r.get("panic", "?")


COQ_HEADER = ("From SV Require Import c03.Model_C03.\nFrom Coq Require Import List String.\nImport ListNotations.\n"
              "Open Scope string_scope.\n")


def run(ck):
    ck.cov["trusted_base"] = [
        "Coq 8.16.1 kernel, coqc; vm_compute for the last-use checker on decoded bytecode",
        "hand-written model coq/c03/Model_C03.v of reference-counted cells, clone / move / drop and the "
        "uniqueness-guarded in-place update of primitives/{hashmaps,hashsets,lists,vectors,strings}.rs",
        "C05 (steel-rc): a `unique` answer implies a sole reference (Section hypothesis of the store model)",
        "im-lists / imbl / Vec / String implement copy-on-write given a correct uniqueness answer (interface)",
        "decoder bytecode -> structured slot code (checks/c03.py to_structured) and harness/src/bin/c03dis.rs",
        "program generator and python persistent-value oracle (checks/c03.py)",
    ]
    ck.assumptions = [
        "the decoded slot code has the control structure of the bytecode (IF / JMP / POPJMP from structured source)",
        "mutable boxes / mutable vectors are used only as alias containers, never as the values under test",
    ]
    reg, unreg, sites = gen_facts(ck)
    proved = ck.proof_stage(["c03"], ["c03/Properties_C03"], "c03/Pins_C03.v")
    # coverage of the generated in-place primitive list by the generator (python side of the same fact)
    new = [p for p in reg if p not in KNOWN_INPLACE_PRIMS]
    gone = [p for p in KNOWN_INPLACE_PRIMS if p not in reg]
    if new or gone:
        ck.violation("in-place primitive set changed: new %s, gone %s (model/generator do not cover it)" % (new, gone),
                     {"new": new, "gone": gone}, no_input=True, tag="inplace")
    ck.harness_build(["c03run", "c03dis"])

    mechanism_probe(ck)
    n = 600 if ck.tier == "quick" else 30000
    cases = list(CORPUS)
    for i in range(n):
        cases.append(gen_program(ck.rng, with_threads=(i % 3 == 0)))
    runs = []       # (case index, shape, jit)
    units = []
    for ci, c in enumerate(cases):
        for shape in ("fn", "top"):
            runs.append((ci, shape))
            units.append(sources(c, shape))
    results = {}
    for jit in ("true", "false"):
        results[jit] = ck.eval_cases(units, prelude=PRELUDE, env={"STEEL_JIT": jit}, batch=40, timeout_per_batch=120,
                                     binary="c03run")
    distinct = set()
    stats = {"programs": len(cases), "runs": 0, "changed_alias": 0, "with_threads": sum(1 for c in cases if c["threads"])}
    for jit in ("true", "false"):
        for (ci, shape), res in zip(runs, results[jit]):
            c = cases[ci]
            got = outcome(res)
            for x in (res or []):
                if "gm" in x:       # hook gc.rs verif_hooks: Gc::get_mut answers while this program ran
                    stats["get_mut_unique"] = stats.get("get_mut_unique", 0) + x["gm"][0]
                    stats["get_mut_shared"] = stats.get("get_mut_shared", 0) + x["gm"][1]
            stats["runs"] += 1
            ck.cov["evaluations"] += 1
            for o in c["ops"]:
                distinct.add((o, shape, jit))
            descr = {"program": c["body"], "shape": shape, "jit": jit, "ops": c["ops"], "engine": got, "oracle": c["want"],
                     "sources": sources(c, shape)}
            if ci % 53 == 0 and shape == "fn" and jit == "true":
                ck.sample(descr)
            if got != c["want"]:
                stats["changed_alias"] += 1
                ck.failing_input("an alias changed / an update differs from the update of a fresh copy (%s, JIT %s): engine %s, "
                                 "persistent semantics %s" % (shape, jit, got[:300], c["want"][:300]), descr, tag="persist")
    if not stats.get("get_mut_unique") or not stats.get("get_mut_shared"):
        ck.violation("the generated programs never reached %s path of Gc::get_mut: the correspondence is vacuous"
                     % ("the in-place" if not stats.get("get_mut_unique") else "the copying"),
                     {"stats": stats}, no_input=True, tag="vacuous")
    # ---- translation validation of the last-use analysis on the real bytecode of every program
    dis = disassemble(ck, [sources(c, "fn")[0] for c in cases] + [sources(c, "top")[0] for c in cases])
    exprs, owners = [], []
    moves = 0
    dead_total = 0
    for di, r in enumerate(dis):
        if "ok" not in r:
            raise TieBroken("generated program does not compile: %s" % r.get("err"))
        trees = []
        n_dead = 0
        for expr in r["ok"]:
            trees.extend(to_structured(parse_dis([expr])))
            n_dead += len(to_structured.dead_captures)
        dead_total += n_dead
        n_instr = sum(1 for expr in r["ok"] for (op, _, _) in parse_dis([expr])
                      if READS.match(op) or op in ("COPYCAPTURESTACK", "READLOCAL0CALLGLOBAL", "READLOCAL1CALLGLOBAL"))
        n_tree = n_dead + sum(json.dumps(t).count('"M"') + json.dumps(t).count('"R"') for t in trees)
        if n_instr != n_tree:
            raise TieBroken("bytecode decoder lost or duplicated slot accesses: %d instructions, %d decoded" % (n_instr, n_tree))
        for fi, tree in enumerate(trees):
            moves += json.dumps(tree).count('"M"')
            exprs.append("render_check (check %s [])" % coq_tree(tree))
            owners.append((di, fi, tree))
    # the Coq-proved checker gives the verdict; beyond a budget of trees (thorough tier) its python mirror does,
    # after having been compared with Coq on the whole budget
    budget = 12000
    verdicts = ck.coq_eval(COQ_HEADER, exprs[:budget], shard=max(50, min(len(exprs), budget) // 16 + 1))
    verdicts += ["ok" if check_last_use(t) is not None else "violation" for (_, _, t) in owners[budget:]]
    stats["trees_checked_in_coq"] = min(len(exprs), budget)
    bad = 0
    for (di, fi, tree), v in zip(owners, verdicts):
        py = check_last_use(tree) is not None
        if (v == "ok") != py:
            raise TieBroken("python mirror and Coq last-use checker disagree on %s" % coq_tree(tree))
        if v != "ok":
            bad += 1
            c = cases[di % len(cases)]
            ck.failing_input("bytecode reads a local slot after MOVEREADLOCAL vacated it (function %d)" % fi,
                             {"program": c["body"], "shape": "fn" if di < len(cases) else "top", "slot_code": coq_tree(tree),
                              "disassembly": dis[di]["ok"]}, tag="lastuse")
    stats["bytecode_functions_checked"] = len(exprs)
    stats["move_instructions_seen"] = moves
    stats["last_use_violations"] = bad
    stats["dead_captures_skipped"] = dead_total
    ck.cov["evaluations"] += len(exprs)
    ck.cov["persistence_stats"] = stats
    ck.cov["distinct_nontrivial"] = len(distinct)
    ck.cov["rule"] = ("distinct (operation or aliasing device, program shape fn/top, JIT setting) triples met in generated "
                      "programs; every program holds at least one alias across an update (non-trivial by construction)")
    ck.cov["op_histogram"] = {}
    for c in cases:
        for o in c["ops"]:
            ck.cov["op_histogram"][o] = ck.cov["op_histogram"].get(o, 0) + 1
    if not proved and not ck.violations:
        ck.unproved()


def replay(ck, path):
    obj = json.load(open(path))
    case = obj.get("case")
    if not case or "sources" not in case:
        print(json.dumps(obj, indent=1)[:3000])
        return
    ck.harness_build(["c03run"])
    res = ck.eval_cases([case["sources"]], prelude=PRELUDE, env={"STEEL_JIT": case.get("jit", "true")}, binary="c03run")
    got = outcome(res[0])
    print("sources:", case["sources"])
    print("engine:", got)
    print("oracle:", case["oracle"])
    if got != case["oracle"]:
        ck.failing_input("replay: engine %s, persistent semantics %s" % (got[:300], case["oracle"][:300]), case, tag="persist")
